"""C14 — Histogram estimators are monotone, bounded and exact at the ends.

Two kinds of case:

* "hist": a C13 program (see c13.py) builds histograms on the real code; `count_at` is evaluated
  on a dense grid over [min, max] plus every bin centre, both ends and points outside, `quantile`
  on a dense grid of [0, 1] plus 0, 1 and points outside.  The query points are derived
  deterministically from the implementation's own state (`grid` points, plus `xs` / `qs` given
  explicitly), so a case replays exactly.
* "profile": an integer-valued column (with nulls) is profiled through `DataFrame.profile`;
  `estimate_values_below / above` are probed inside the observed range.

Oracle = the property's clauses on the implementation's outputs (floats with relative tolerance
1e-9, the property's "up to rounding").  Correspondence = the same queries on
Model/Estimators.lean, fed the implementation's bins and bounds.
"""
from fractions import Fraction

from .. import core, wire
from ..core import InfraError, shrink
from . import c13

TOL = Fraction(1, 10**9)


def exact(x):
    return None if x is None else c13.vexact(x)


def wv(mode, x):
    return None if x is None else c13.vwire(mode, x)


# --------------------------------------------------------------------------- query points


def grid_points(h, n):
    """Dense grid over [min, max], every centre, both ends, just inside/outside the ends."""
    lo, hi = float(h.min), float(h.max)
    xs = {lo, hi}
    for i in range(n + 1):
        xs.add(lo + (hi - lo) * i / n)
    for v, _ in h.bins:
        v = float(v)
        xs.add(v)
        xs.add(v + abs(v) * 1e-12)
        xs.add(v - abs(v) * 1e-12)
    w = (hi - lo) or max(abs(lo), 1.0)
    xs.update([lo - w * 0.5, hi + w * 0.25, lo - abs(lo) * 1e-9 - 1e-300, hi + abs(hi) * 1e-9 + 1e-300, lo + w * 1e-9, hi - w * 1e-9])
    return sorted(xs)


def level_points(n):
    qs = {0.0, 1.0, -0.1, 1.1, 1.0 + 1e-12, -1e-12, 0.5, 1e-9, 1 - 1e-9}
    for i in range(n + 1):
        qs.add(i / n)
    return sorted(qs)


def to_query(mode, x):
    """A float query point -> the value handed to the implementation."""
    return Fraction(x) if mode == "q" else float(x)


# --------------------------------------------------------------------------- oracle


def check_count_at(mode, h, xs, rs, total):
    """xs sorted query points (exact), rs the implementation's results (exact or None).

    Returns (clause, detail) or None.  Points of the left tail (min < x <= first centre) are
    judged separately (`left_tail: True` in the detail — open finding C14-K01) and never hide a
    failure elsewhere: the monotone chain of the other points skips them, and a failure outside
    the left tail is reported in preference."""
    lo, hi = exact(h.min), exact(h.max)
    v0, f0 = exact(h.bins[0][0]), int(h.bins[0][1])
    tol = TOL * total
    in_left = lambda x: lo < x <= v0
    left_fail = None
    prev = None  # last point, left tail included
    prev_clean = None  # last point outside the left tail
    for x, r in zip(xs, rs):
        if x < lo or x > hi:
            if r is not None:
                return "count_at: not None outside the observed range", {"x": float(x), "got": float(r)}
            continue
        if r is None:
            return "count_at: None inside the observed range", {"x": float(x)}
        if x == lo and r != 0:
            return "count_at: not 0 at the minimum", {"x": float(x), "got": float(r)}
        if x == hi and lo < hi and abs(r - total) > tol:
            return "count_at: not the total at the maximum", {"x": float(x), "got": float(r), "total": float(total)}
        bad = None
        if r < -tol or r > total + tol:
            bad = ("count_at: estimate outside [0, total]", {"x": float(x), "got": float(r), "total": float(total)})
        if in_left(x):
            if bad is None and prev is not None and r < prev[1] - tol:
                bad = ("count_at: estimate decreases", {"x1": float(prev[0]), "r1": float(prev[1]), "x2": float(x), "r2": float(r)})
            if bad is not None and left_fail is None:
                bad[1].update({"left_tail": True, "first_centre": float(v0), "first_count": f0})
                left_fail = bad
        else:
            if bad is not None:
                return bad
            if prev_clean is not None and r < prev_clean[1] - tol:
                return "count_at: estimate decreases", {"x1": float(prev_clean[0]), "r1": float(prev_clean[1]), "x2": float(x), "r2": float(r)}
            if left_fail is None and prev is not None and r < prev[1] - tol:
                # a drop from a left-tail point to the first point right of the first centre
                left_fail = ("count_at: estimate decreases", {"x1": float(prev[0]), "r1": float(prev[1]), "x2": float(x), "r2": float(r),
                                                              "left_tail": True, "first_centre": float(v0), "first_count": f0})
            prev_clean = (x, r)
        prev = (x, r)
    return left_fail


def check_quantile(mode, h, qs, rs):
    lo, hi = exact(h.min), exact(h.max)
    scale = max(abs(lo), abs(hi), Fraction(1, 10**300))
    tol = TOL * scale
    prev = None
    for q, r in zip(qs, rs):
        if q < 0 or q > 1:
            if r is not None:
                return "quantile: not None outside [0, 1]", {"q": float(q), "got": float(r)}
            continue
        if r is None:
            return "quantile: None inside [0, 1]", {"q": float(q)}
        if q == 0 and abs(r - lo) > tol:
            return "quantile: quantile(0) is not the minimum", {"got": float(r), "min": float(lo)}
        if q == 1 and abs(r - hi) > tol:
            return "quantile: quantile(1) is not the maximum", {"got": float(r), "max": float(hi)}
        if r < lo - tol or r > hi + tol:
            return "quantile: estimate outside [min, max]", {"q": float(q), "got": float(r), "min": float(lo), "max": float(hi)}
        if prev is not None and r < prev[1] - tol:
            return "quantile: estimate decreases", {"q1": float(prev[0]), "r1": float(prev[1]), "q2": float(q), "r2": float(r)}
        prev = (q, r)
    return None


def close(a, b, scale):
    if a is None or b is None:
        return a is None and b is None
    return abs(a - b) <= TOL * max(scale, abs(a), abs(b))


# --------------------------------------------------------------------------- running


def eval_hist(mode, D, h, xs_f, qs_f):
    """Evaluate the implementation on one histogram. Returns (xs, count results, qs, quantile results)."""
    xs = [to_query(mode, x) for x in xs_f]
    qs = [to_query(mode, q) for q in qs_f]
    cs, rs = [], []
    for x in xs:
        cs.append(exact(D.count_at(h, x)))
    for q in qs:
        rs.append(exact(D.quantile(h, q)))
    return xs, cs, qs, rs


def model_eval_line(mode, bins, mn, mx, xs, qs, count, missing=0):
    return "C14 eval " + wire.line(mode, [[wv(mode, v), wv(mode, f)] for v, f in bins], wv(mode, mn), wv(mode, mx),
                                   [wv(mode, x) for x in xs], [wv(mode, q) for q in qs], wv(mode, count), wv(mode, missing))


def dec_vals(mode, vals):
    out = []
    for v in vals:
        if v is None:
            out.append(None)
        elif mode == "q":
            out.append(Fraction(v[0], v[1]))
        else:
            out.append(Fraction(v))
    return out


class Res:
    pass


def run_hist_case(case):
    """Returns Res with .fail (clause, detail) or None, and the model lines + expected values."""
    import numpy  # noqa

    mode = case["mode"]
    out = c13.run_impl({"mode": mode, "prog": case["prog"], "snap_every": 10**9})
    res = Res()
    res.fail = None
    res.items = []  # (reg, model line, impl count results, impl quantile results, scales)
    res.c13_failed = out.fail is not None
    res.c13_clause = out.fail[0] if out.fail else None
    if out.fail is not None:
        # the histogram itself violates C13: that is C13's report, not C14's
        return res
    with c13.Patched(mode) as D:
        regs = case.get("regs")
        for r in sorted(out.hists):
            if regs is not None and r not in regs:
                continue
            h = out.hists[r]
            if not h.bins:
                # empty histogram: both estimators are None everywhere
                got = [D.count_at(h, to_query(mode, 0.0)), D.quantile(h, to_query(mode, 0.5))]
                if any(g is not None for g in got):
                    res.fail = ("empty: estimator of an empty histogram is not None", {"got": repr(got)})
                    return res
                continue
            xs_f = sorted(set(grid_points(h, case.get("grid", 16)) + [float(x) for x in case.get("xs", [])]))
            qs_f = sorted(set(level_points(case.get("levels", 16)) + [float(q) for q in case.get("qs", [])]))
            try:
                xs, cs, qs, rs = eval_hist(mode, D, h, xs_f, qs_f)
            except Exception as e:
                res.fail = ("raised: estimator raised %s" % type(e).__name__, {"error": repr(e)[:200], "reg": r})
                return res
            total = Fraction(sum(int(f) for _, f in h.bins))
            exs = [Fraction(x) for x in xs]
            bad_c = check_count_at(mode, h, exs, cs, total)
            bad_q = check_quantile(mode, h, [Fraction(q) for q in qs], rs)
            left_only = bad_c is not None and bad_c[1].get("left_tail") and bad_q is None
            bad = bad_q if (bad_c is None or (bad_c[1].get("left_tail") and bad_q is not None)) else bad_c
            if bad is not None and (res.fail is None or not left_only):
                bad[1]["reg"] = r
                bad[1]["bins"] = [[float(v), int(f)] for v, f in h.bins][:8]
                bad[1]["min"], bad[1]["max"] = float(h.min), float(h.max)
                res.fail = bad
                if not left_only:
                    return res
            line = model_eval_line(mode, [(v, int(f)) for v, f in h.bins], h.min, h.max, xs, qs, int(total))
            scale_q = max(abs(exact(h.min)), abs(exact(h.max)))
            # after dump() the bins are numpy.float128 and the model is fed their float64 roundings: a query within
            # rounding distance of the first centre (where the left tail as it exists jumps) may fall on the other side
            f128 = any(type(v).__name__ == "longdouble" for v, _ in h.bins)
            skip = set()
            if f128:
                tiny = Fraction(1, 10**300)
                cents = [exact(v) for v, _ in h.bins]
                inexact = [c for c in cents if Fraction(float(c)) != c]
                # two centres that coincide (or nearly) once rounded to float64: the model's input is no longer a
                # faithful image of the histogram -> the queries are judged by the oracle only
                if any(cents[i + 1] - cents[i] <= TOL * max(abs(cents[i]), abs(cents[i + 1]), tiny) for i in range(len(cents) - 1)):
                    res.items_skipped = getattr(res, "items_skipped", 0) + 1
                    continue
                skip = {i for i, x in enumerate(exs) if any(abs(x - c) <= TOL * max(abs(c), tiny) for c in inexact)}
            res.items.append((r, line, cs, rs, total, scale_q, xs, qs, skip))
    return res


def build_profile(values):
    import orso
    from orso.schema import FlatColumn, RelationSchema
    from orso.types import OrsoTypes

    sch = RelationSchema(name="t", columns=[FlatColumn(name="a", type=OrsoTypes.INTEGER)])
    df = orso.DataFrame(rows=[(v,) for v in values], schema=sch)
    return df.profile.column("a")


def gen_values(g):
    """Deterministic large column for `{"gen": {...}}` cases (a frame of more than one profiler batch)."""
    import random

    rng = random.Random(g["seed"])
    n, shape = g["n"], g["shape"]
    if shape == "zero-min":
        vals = [rng.randint(0, g.get("span", 400)) for _ in range(n)]
        vals[rng.randrange(min(n, 20000))] = 0
    elif shape == "zero-max":
        vals = [-rng.randint(0, g.get("span", 400)) for _ in range(n)]
        vals[n - 1 - rng.randrange(min(n, 3000))] = 0
    else:
        vals = [rng.randint(-g.get("span", 400), g.get("span", 400)) for _ in range(n)]
    if g.get("nulls"):
        for i in range(0, n, g["nulls"]):
            vals[i] = None if vals[i] != 0 else 0
    return vals


def profile_parts(case):
    """-> (all values in order, list of batches to profile separately and add, or None for one frame)."""
    if "batches" in case:
        bs = case["batches"]
        if case.get("order") == "ba":
            bs = list(reversed(bs))
        return [v for b in bs for v in b], bs
    if "gen" in case:
        return gen_values(case["gen"]), None
    return case["values"], None


def run_profile_case(case):
    res = Res()
    res.fail = None
    res.items = []
    res.c13_failed = False
    values, batches = profile_parts(case)
    nn = [v for v in values if v is not None]
    try:
        if batches is None:
            col = build_profile(values)
        else:
            col = build_profile(batches[0])
            for b in batches[1:]:
                col = col + build_profile(b)
    except Exception as e:
        res.fail = ("raised: profiling an integer column raised %s" % type(e).__name__, {"error": repr(e)[:200]})
        return res
    nonnull = col.count - col.missing
    lo, hi = min(nn), max(nn)
    extra = sorted(set(nn))[:60] if case.get("probe_distinct") else []
    probes = sorted(set([lo, hi] + extra + [p for p in case.get("probes", []) if lo <= p <= hi]))
    below, above = [], []
    try:
        for p in probes:
            below.append(exact(col.estimate_values_below(p)))
            above.append(exact(col.estimate_values_above(p)))
    except Exception as e:
        res.fail = ("raised: profile estimator raised %s" % type(e).__name__, {"error": repr(e)[:200], "min": col.minimum, "max": col.maximum,
                                                                                "true_range": [lo, hi]})
        return res
    tol = TOL * max(nonnull, 1)
    prev = None
    prev_clean = None
    left_fail = None
    hist = list(col.histogram)
    v0, f0 = (float(hist[0][0]), int(hist[0][1])) if hist else (None, None)
    pmin = col.minimum
    for p, b, a in zip(probes, below, above):
        d = {"point": p, "x": p, "below": None if b is None else float(b), "above": None if a is None else float(a), "non_null": nonnull,
             "min": col.minimum, "max": col.maximum, "first_centre": v0, "first_count": f0}
        # a merged profile whose first two bins were merged has a left tail (min < p <= first centre): open finding C14-K01
        in_left = v0 is not None and pmin is not None and pmin < p <= v0
        bad = None
        if b is None or a is None:
            bad = "profile: estimate is None inside the observed range"
        elif abs(b + a - nonnull) > tol:
            bad = "profile: below + above is not the number of non-null values"
        elif p == lo and b != 0:
            bad = "profile: values below the minimum is not 0"
        elif p == hi and lo < hi and abs(b - nonnull) > tol:
            bad = "profile: values up to the maximum is not the number of non-null values"
        elif b < -tol or b > nonnull + tol or a < -tol or a > nonnull + tol:
            bad = "profile: estimate outside [0, non-null]"
        elif in_left and prev is not None and b < prev - tol:
            bad = "profile: estimate of values below decreases"
        elif not in_left and prev_clean is not None and b < prev_clean - tol:
            bad = "profile: estimate of values below decreases"
        if bad is not None:
            if in_left and bad.startswith("profile: estimate"):
                d["left_tail"] = True
                left_fail = left_fail or (bad, d)
            else:
                res.fail = (bad, d)
                return res
        elif not in_left and left_fail is None and prev is not None and b < prev - tol:
            d["left_tail"] = True
            d["x1"] = probes[probes.index(p) - 1]
            left_fail = ("profile: estimate of values below decreases", d)
        if not in_left:
            prev_clean = b
        prev = b
    res.fail = left_fail
    bins = [(v, int(f)) for v, f in hist]
    line = model_eval_line("f", bins, col.minimum, col.maximum, [float(p) for p in probes], [], int(col.count), int(col.missing))
    res.items.append(("profile", line, below, above, Fraction(nonnull), Fraction(1), probes, [], set()))
    return res


def run_case(case):
    return run_profile_case(case) if case.get("kind") == "profile" else run_hist_case(case)


def valid_case(c):
    if not isinstance(c, dict):
        return False
    if c.get("kind") == "profile":
        if "gen" in c:
            g = c["gen"]
            return isinstance(g, dict) and isinstance(g.get("n"), int) and 1 <= g["n"] <= 80000 and isinstance(g.get("seed"), int) and g.get("shape") in ("zero-min", "zero-max", "mixed")
        if "batches" in c:
            bs = c["batches"]
            if not isinstance(bs, list) or len(bs) < 2 or not all(isinstance(b, list) and b for b in bs) or c.get("order", "ab") not in ("ab", "ba"):
                return False
            vs = [v for b in bs for v in b]
        else:
            vs = c.get("values")
        if not isinstance(vs, list) or not any(v is not None for v in vs):
            return False
        if not all(v is None or (isinstance(v, int) and not isinstance(v, bool) and abs(v) < 2**50) for v in vs):
            return False
        return isinstance(c.get("probes", []), list) and all(isinstance(p, (int, float)) and not isinstance(p, bool) for p in c.get("probes", []))
    if c.get("kind", "hist") != "hist":
        return False
    if not c13.valid_case({"mode": c.get("mode"), "prog": c.get("prog")}):
        return False
    for k in ("grid", "levels"):
        if k in c and (not isinstance(c[k], int) or c[k] < 1):
            return False
    for k in ("xs", "qs"):
        if k in c and not all(isinstance(x, (int, float)) and not isinstance(x, bool) and x == x and abs(x) != float("inf") for x in c[k]):
            return False
    return True


def _kind(clause):
    return clause.split(":")[0]


def evaluate(ctx, cases):
    results = [run_case(c) for c in cases]
    lines = [it[1] for r in results for it in r.items]
    mouts = ctx.model.batch(lines)
    mi = 0
    for c, r in zip(cases, results):
        kind = c.get("kind", "hist")
        ctx.case(c, nontrivial=bool(r.items) or r.fail is not None)
        ctx.hit("kind:" + kind)
        if kind == "profile":
            ctx.hit("family:" + c.get("family", "profile:?"))
        if kind == "hist":
            ctx.hit("mode:" + c["mode"])
            ctx.hit("family:" + c.get("family", "?"))
            if getattr(r, "items_skipped", 0):
                ctx.hit("histogram with float128 centres that collide in float64 (oracle only)", r.items_skipped)
            if r.c13_failed:
                ctx.hit("skipped: histogram violates C13 (%s)" % r.c13_clause)
        case_mouts = mouts[mi : mi + len(r.items)]
        mi += len(r.items)
        known_only = False
        if r.fail is not None:
            failure = {"clause": r.fail[0], "impl": r.fail[1], "model": None, "detail": r.fail[1]}
            known_only = any(k.get("status") == "open" and core.match_known(ctx.prop_id, k, c, failure) for k in ctx.known)
            if known_only:
                # an open known finding: reported once as KNOWN-FINDING, not shrunk; the model (faithful to the
                # defect) is still compared below
                ctx.fail(c, r.fail[0], impl=r.fail[1], model=None, detail=r.fail[1])
        if r.fail is not None and not known_only:
            clause = r.fail[0]
            k0 = _kind(clause)

            def still(c2):
                if not valid_case(c2):
                    return False
                try:
                    r2 = run_case(c2)
                except InfraError:
                    return False
                return r2.fail is not None and _kind(r2.fail[0]) == k0 and r2.fail[0].split(":")[1][:12] == clause.split(":")[1][:12]

            c_min = c if ctx.replaying else shrink(c, still, budget=8 if "gen" in c else ctx.scale(200, 500))
            r2 = run_case(c_min)
            f = r2.fail or r.fail
            ctx.fail(c_min, f[0], impl=f[1], model=None, detail=f[1])
            continue
        for (reg, line, cs, rs, total, scale_q, xs, qs, skip), mo in zip(r.items, case_mouts):
            if not mo.startswith("ok "):
                raise InfraError("model rejected %r -> %r" % (line[:300], mo))
            mode = "f" if kind == "profile" else c["mode"]
            m = wire.dec_all(mo[3:])
            mc, mq, ma = dec_vals(mode, m[0]), dec_vals(mode, m[1]), dec_vals(mode, m[2])
            ctx.hit("count_at points", len(cs))
            ctx.hit("quantile levels" if kind == "hist" else "profile probes", len(rs))
            dis = None
            for i, (x, a, b) in enumerate(zip(xs, cs, mc)):
                if i in skip:
                    ctx.hit("count_at point next to an inexactly rounded centre of float128 bins (not compared)")
                    continue
                if not close(a, b, total):
                    dis = {"what": "count_at" if kind == "hist" else "estimate_values_below", "x": float(x), "impl": None if a is None else float(a), "model": None if b is None else float(b)}
                    break
            if dis is None and kind == "hist":
                for q, a, b in zip(qs, rs, mq):
                    if not close(a, b, scale_q):
                        dis = {"what": "quantile", "q": float(q), "impl": None if a is None else float(a), "model": None if b is None else float(b)}
                        break
            if dis is None and kind == "profile":
                for x, a, b in zip(xs, rs, ma):
                    if not close(a, b, total):
                        dis = {"what": "estimate_values_above", "x": float(x), "impl": None if a is None else float(a), "model": None if b is None else float(b)}
                        break
            if dis is not None:
                ctx.disagree(c, dis["impl"], dis["model"], what="%s differs from the model at %r (register %s)" % (dis["what"], dis.get("x", dis.get("q")), reg))
                break


# --------------------------------------------------------------------------- generators


def random_hist_case(ctx):
    rng = ctx.rng
    mode = "f" if rng.random() < 0.8 else "q"
    size = rng.choice([1, 2, 3, 5, 8, 20, 60, 150])
    base = c13.random_case(ctx, mode=mode, size=size, want=rng.choice(["upd", "upd", "upd", "add", "bulk", "dl", "mix"]))
    c = {"kind": "hist", "mode": mode, "prog": base["prog"], "family": base["family"], "grid": rng.choice([4, 16, 40]), "levels": rng.choice([4, 16, 50])}
    return c


def random_profile_case(ctx):
    rng = ctx.rng
    n = rng.choice([1, 2, 3, 5, 10, 30, 100, 400, 2000])
    shape = rng.choice(["uniform", "small", "negative", "skewed", "constant", "wide", "two"])
    if shape == "uniform":
        gen = lambda: rng.randint(0, 1000)
    elif shape == "small":
        gen = lambda: rng.randint(0, 6)
    elif shape == "negative":
        gen = lambda: rng.randint(-500, 50)
    elif shape == "skewed":
        gen = lambda: int(rng.expovariate(0.01)) - 20
    elif shape == "constant":
        k = rng.randint(-5, 5)
        gen = lambda: k
    elif shape == "wide":
        gen = lambda: rng.choice([-1, 1]) * rng.randint(0, 10**9)
    else:
        a, b = rng.randint(-100, 100), rng.randint(-100, 100)
        gen = lambda: rng.choice([a, b])
    pnull = rng.choice([0, 0, 0.1, 0.5])
    values = [None if rng.random() < pnull else gen() for _ in range(n)]
    if all(v is None for v in values):
        values[rng.randrange(n)] = gen()
    nn = [v for v in values if v is not None]
    lo, hi = min(nn), max(nn)
    probes = set()
    for _ in range(30):
        p = rng.randint(lo, hi)
        probes.add(p)
        if p + 0.5 <= hi:
            probes.add(p + 0.5)
    return {"kind": "profile", "values": values, "probes": sorted(probes), "family": "profile:" + shape}


CUT_COLUMNS = [
    [0, 3, 7], [0, 0, 5, 9], [-5, -2, 0], [-4, 0, 6], [0, None, 4, 9, 2], [-3, None, 0, 0], [5, 1, 0, 8, None, 3],
    [-1, -1, -7, 0, -2], [0, 1], [-1, 0], [2, 9, 4], [-2, -9, -4], [0, 0, 0], [7, 0], [0, -7], [3, 8, 0, None], [None, 0, -6, -1],
]


def midpoints(vals):
    d = sorted(set(v for v in vals if v is not None))
    return [(a + b) / 2 for a, b in zip(d, d[1:])]


def cut_cases(ctx, n_random):
    """Every cut of small integer columns into two batches whose profiles are added, in both orders; zero, negative
    and positive extremes fall into either batch."""
    rng = ctx.rng
    cols = [list(c) for c in CUT_COLUMNS]
    for _ in range(n_random):
        n = rng.randint(2, 7)
        sgn = rng.choice([1, -1, 1, -1, 0])
        col = [(rng.randint(0, 9) * sgn if sgn else rng.randint(-6, 6)) if rng.random() > 0.12 else None for _ in range(n)]
        col[rng.randrange(n)] = 0
        cols.append(col)
    for col in cols:
        for cut in range(1, len(col)):
            a, b = col[:cut], col[cut:]
            if all(v is None for v in col):
                continue
            for order in ("ab", "ba"):
                yield {"kind": "profile", "batches": [a, b], "order": order, "probes": midpoints(col), "probe_distinct": True,
                       "family": "profile:cut"}


def big_frame_cases(ctx):
    """Frames of more than one profiler batch (25000 rows): the batch profiles are added inside `DataFrame.profile`."""
    rng = ctx.rng
    for shape in ("zero-min", "zero-max", "mixed"):
        g = {"n": 25000 + rng.choice([1, 700, 9000]), "seed": rng.randint(0, 10**6), "shape": shape, "span": rng.choice([6, 40, 400]),
             "nulls": rng.choice([0, 7, 0])}
        vals = [v for v in gen_values(g) if v is not None]
        lo, hi = min(vals), max(vals)
        probes = sorted(set([lo, hi, 0] + [rng.randint(lo, hi) for _ in range(25)] + [rng.randint(lo, hi) + 0.5 for _ in range(10)]))
        yield {"kind": "profile", "gen": g, "probes": [p for p in probes if lo <= p <= hi], "family": "profile:batches"}


BOUNDARY = [
    # left tail of count_at: positive, large and negative centres
    {"kind": "hist", "mode": "f", "family": "boundary", "grid": 16, "levels": 16,
     "prog": [["new", 0, 3]] + [["upd", 0, float(v), 1] for v in (1000, 1001, 1002, 1003, 1004, 1005)]},
    {"kind": "hist", "mode": "f", "family": "boundary", "grid": 16, "levels": 16,
     "prog": [["new", 0, 3]] + [["upd", 0, float(v), 1] for v in (-1000, -1001, -1002, -1003, -1004, -1005)]},
    {"kind": "hist", "mode": "q", "family": "boundary", "grid": 16, "levels": 16,
     "prog": [["new", 0, 2]] + [["upd", 0, v, c] for v, c in ((0, 1), (1, 5), (10, 2), (11, 1), (30, 7))]},
    # a single value: min == max
    {"kind": "hist", "mode": "f", "family": "boundary", "grid": 4, "levels": 4, "prog": [["new", 0, 3], ["upd", 0, 5.0, 3]]},
    {"kind": "hist", "mode": "f", "family": "boundary", "grid": 4, "levels": 4, "prog": [["new", 0, 3]]},
    {"kind": "profile", "values": [5, 5, 5, None], "probes": [5], "family": "profile:boundary"},
    {"kind": "profile", "values": [0, 1, 2, 3, 10, None, 7, 7, 7, -4], "probes": [-4, -3.5, 0, 0.5, 7, 9.5, 10], "family": "profile:boundary"},
]


def run(ctx):
    ctx.note("rule", "histograms built by C13 programs on the real code, queried on grids derived from their own state; integer "
             "column profiles probed inside the observed range; non-trivial = at least one non-empty histogram or profile was queried")
    ctx.note("assumptions", [
        "Python's int() on total*value enters the model as a floor function (Float.floor / Rat.floor in the driver, a monotone parameter in the theorems)",
        "float results are compared and checked with relative tolerance 1e-9 (the property's 'up to rounding')",
        "for a histogram holding a single value (min = max) count_at returns 0 (the 'minimum' clause wins over the 'maximum' clause)",
        "numpy.histogram (left edges and counts of a column profile) is a parameter; the profile's bins and bounds are fed to the model as produced",
    ])
    # witnesses of repaired defects run as ordinary corpus cases (a reverted fix fails here first)
    for k in ctx.known:
        if k.get("status") == "fixed" and "witness" in k:
            w = core.unjson(k["witness"])
            w.setdefault("snap_every", 1)
            evaluate(ctx, [w])
            ctx.hit("corpus:fixed-finding-witness")
    evaluate(ctx, [dict(c) for c in BOUNDARY])
    cuts = list(cut_cases(ctx, ctx.scale(25, 400)))
    ctx.note("profile_cut_cases", len(cuts))
    for i in range(0, len(cuts), 100):
        evaluate(ctx, cuts[i : i + 100])
    for _ in range(ctx.scale(2, 12)):
        evaluate(ctx, list(big_frame_cases(ctx)))
    n_h = ctx.scale(900, 12000)
    n_p = ctx.scale(150, 2500)
    done_h = done_p = 0
    while (done_h < n_h or done_p < n_p) and ctx.time_left() > ctx.scale(5, 170) and not ctx.violations:
        cases = [random_hist_case(ctx) for _ in range(60)] if done_h < n_h else []
        done_h += len(cases)
        if done_p < n_p:
            cases += [random_profile_case(ctx) for _ in range(10)]
            done_p += 10
        evaluate(ctx, cases)
    ctx.note("random_histogram_cases", done_h)
    ctx.note("random_profile_cases", done_p)


def intensify(ctx):
    n = 0
    while ctx.time_left() > 5 and n < 2000 and not ctx.violations:
        evaluate(ctx, [random_hist_case(ctx) for _ in range(50)] + [random_profile_case(ctx) for _ in range(10)])
        n += 60


def replay(ctx, case):
    evaluate(ctx, [case])


def _k01(case, failure):
    """C14-K01: count_at's left tail (min < x <= first centre) is scaled by the first centre's value
    instead of its count.  Matches only bound/monotonicity failures that involve a left-tail point of a
    histogram whose first centre is neither the minimum nor within [0, first count]."""
    d = failure.get("detail") or {}
    clause = str(failure.get("clause", ""))
    if not (clause.startswith("count_at: estimate") or clause.startswith("profile: estimate")) or not isinstance(d, dict) or not d.get("left_tail"):
        return False
    lo, v0, f0 = d.get("min"), d.get("first_centre"), d.get("first_count")
    if lo is None or v0 is None or f0 is None or lo == v0 or 0 <= v0 <= f0:
        return False
    pts = [d[k] for k in ("x", "x1", "x2") if k in d]
    return any(lo < x <= v0 for x in pts)


KNOWN_PREDICATES = {"count_at_left_tail_uses_value": _k01}
