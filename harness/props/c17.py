"""C17 — Schema union and lookup are identity-based, ordered and non-mutating.

A case is a table of column definitions, a list of schemas over that table (registers) and a
program of operations (`add`, `find`, `col`, `pop`, `allnames`, `names`, `iter`; `mkiter` / `next` / `drain`: an
iterator obtained with `iter(schema)`, advanced step by step while other operations go on).  A lookup key is a string or
`["@", column, what]`: "the text of that attribute of that column" (its identity, `str()`, `repr()`, type name … and
near-misses of them), resolved on the objects when the case is run.  It is run

* on the real `orso.schema.RelationSchema` / `FlatColumn` objects (`execute`), with the property's
  **oracle** evaluated inline on the implementation's own state and outputs (operands are
  snapshotted around every operation, results are compared by object identity),
* on `Model/SchemaOps.lean` through the native driver (**correspondence**), and
* on a pure-Python mirror of the specification (`mirror`); Lean != mirror is a harness bug (exit 2).

Columns travel as their index in the table (`tag`), so "which object was returned" is compared
exactly; identity strings are only ever compared for equality inside one run.
"""
import itertools

from .. import wire
from ..core import InfraError, shrink

# ----------------------------------------------------------------------------- implementation

_ORSO = None


def _orso():
    global _ORSO
    if _ORSO is None:
        from orso.schema import ConstantColumn, FlatColumn, FunctionColumn, RelationSchema

        _ORSO = {"flat": FlatColumn, "const": ConstantColumn, "func": FunctionColumn, "schema": RelationSchema}
    return _ORSO


_COL_CACHE = {}


def _fresh(s):
    """An equal string that is an object of its own: names, aliases, identities and lookup keys all reach the
    implementation through here, so that comparing strings by `is` instead of `==` cannot pass -- from two characters on.
    (CPython shares the empty string and the one-character Latin-1 strings, and a one-character *literal* may or may not
    be that shared object; decoding always gives the shared one, so a case behaves the same whenever it is run.)"""
    return s.encode("utf-8", "surrogatepass").decode("utf-8", "surrogatepass") if isinstance(s, str) else s


def build_columns(case):
    """One Python object per table entry (cached per (index, definition) while unmodified)."""
    o = _orso()
    objs = []
    edited = any(op[0] == "edit" for op in case["prog"])  # objects that get edited are never shared between cases
    for idx, spec in enumerate(case["cols"]):
        ident, name, aliases = spec[0], spec[1], spec[2]
        kind = spec[3] if len(spec) > 3 else "flat"
        extras = spec[4] if len(spec) > 4 else None
        key = None
        if ident is not None and not edited:
            key = (idx, ident, name, None if aliases is None else tuple(aliases), kind, repr(sorted(extras.items())) if extras else None)
            c = _COL_CACHE.get(key)
            if c is not None:
                objs.append(c)
                continue
        kw = {"name": _fresh(name), "aliases": None if aliases is None else [_fresh(a) for a in aliases]}
        if ident is not None:
            kw["identity"] = _fresh(ident)
        if kind == "const":
            kw["value"] = 1
        for k, v in (extras or {}).items():
            kw[k] = [_fresh(x) for x in v] if isinstance(v, list) else _fresh(v)
        c = o[kind](**kw)
        if key is not None:
            if len(_COL_CACHE) > 20000:
                _COL_CACHE.clear()
            _COL_CACHE[key] = c
        objs.append(c)
    return objs


# ----------------------------------------------------------------------------- keys taken from a column's other attributes

# A name is a name or an alias and nothing else: a key that is *absent* as a name but equals some other text a column
# carries (its identity -- 16 random hex characters by default, or caller-chosen --, str(column), repr(column), its type,
# description, origin, class) must not find it.  `["@", t, what]` is "that text of column t", `what` = attribute, or
# attribute~variant for a near-miss of it.
ATTR_KEYS = ("identity", "str", "repr", "type", "type.name", "type.value", "description", "origin", "class", "default", "nullable")
ATTR_VARIANTS = ("upper", "lower", "swapcase", "space", "lead", "cut", "dbl")


def _attr_text(c, what):
    base, _, var = what.partition("~")
    if base == "identity":
        v = c.identity
    elif base == "str":
        v = str(c)
    elif base == "repr":
        v = repr(c)
    elif base == "type":
        v = str(c.type)
    elif base == "type.name":
        v = getattr(c.type, "name", c.type)
    elif base == "type.value":
        v = getattr(c.type, "value", c.type)
    elif base == "origin":
        v = c.origin[0] if c.origin else None
    elif base == "class":
        v = type(c).__name__
    elif base in ("description", "default", "nullable"):
        v = getattr(c, base)
    else:
        raise InfraError("unknown attribute key %r" % (what,))
    if not isinstance(v, str):
        v = str(v)
    if var == "":
        return v
    if var in ("upper", "lower", "swapcase"):
        return getattr(v, var)()
    if var == "space":
        return v + " "
    if var == "lead":
        return " " + v
    if var == "cut":
        return v[:-1]
    if var == "dbl":
        return v + v
    raise InfraError("unknown variant %r" % (what,))


def _is_attr_key(k, ncols):
    return (isinstance(k, list) and len(k) == 3 and k[0] == "@" and type(k[1]) is int and 0 <= k[1] < ncols and isinstance(k[2], str)
            and k[2].partition("~")[0] in ATTR_KEYS and k[2].partition("~")[2] in ("",) + ATTR_VARIANTS)


def resolve_prog(case, objs):
    """the program with every `["@", t, what]` key replaced by the text it stands for on this run's objects"""
    prog = case["prog"]
    if not any(op[0] in ("find", "col", "pop") and isinstance(op[2], list) for op in prog):
        return prog
    out = []
    for op in prog:
        if op[0] in ("find", "col", "pop") and isinstance(op[2], list):
            op = list(op)
            op[2] = _attr_text(objs[op[2][1]], op[2][2])
        out.append(op)
    return out


# ----------------------------------------------------------------------------- every syntactic form of the sum

# `["add", i, j]` is `regs[i] + regs[j]`; `["add", i, j, form]` writes the same sum another way.  Whatever the form, the
# statement is the same: a new schema, both operands as they were (the model knows one sum only).
SUM_FORMS = ("+", "__add__", "operator.add", "+=", "operator.iadd", "__iadd__", "reduce.add", "reduce.iadd", "sum", "__radd__", "fold+=")


def do_sum(a, b, form):
    import functools
    import operator

    if form == "+":
        return a + b
    if form == "__add__":
        return a.__add__(b)
    if form == "operator.add":
        return operator.add(a, b)
    if form == "+=":
        total = a  # the left operand is still referenced elsewhere (the register)
        total += b
        return total
    if form == "operator.iadd":
        return operator.iadd(a, b)
    if form == "__iadd__":
        f = getattr(type(a), "__iadd__", None)
        r = f(a, b) if f is not None else NotImplemented
        return a + b if r is NotImplemented else r
    if form == "reduce.add":
        return functools.reduce(operator.add, [a, b])
    if form == "reduce.iadd":
        return functools.reduce(operator.iadd, [a, b])
    if form == "sum":
        return sum([b], a)
    if form == "__radd__":
        f = getattr(type(b), "__radd__", None)
        r = f(b, a) if f is not None else NotImplemented
        return a + b if r is NotImplemented else r
    if form == "fold+=":
        total = None
        for part in (a, b):  # total = parts[0]; for part in parts[1:]: total += part
            if total is None:
                total = part
            else:
                total += part
        return total
    raise InfraError("unknown form of the sum %r" % (form,))


# ----------------------------------------------------------------------------- edits of a column object

# `["edit", t, how, arg]`: the caller changes column object t between two operations -- the alias list in place (the very
# same list object afterwards), by replacement, or the name.  The column's state is its current name + current aliases.
EDITS_IN_PLACE = ("append", "remove", "insert", "setitem", "delitem", "clear", "extend", "reverse")
EDITS = EDITS_IN_PLACE + ("replace", "rename")


def edit_spec(name, aliases, how, arg):
    """(name, aliases) after the edit -- the specification (aliases is a list here for every in-place edit)"""
    if how == "rename":
        return arg, aliases
    if how == "replace":
        return name, None if arg is None else list(arg)
    l = list(aliases)
    if how == "append":
        l = l + [arg]
    elif how == "remove":
        if arg in l:
            del l[l.index(arg)]
    elif how == "insert":
        l = [arg] + l
    elif how == "setitem":
        l = [arg] + l[1:] if l else l
    elif how == "delitem":
        l = l[1:]
    elif how == "clear":
        l = []
    elif how == "extend":
        l = l + list(arg)
    elif how == "reverse":
        l = l[::-1]
    else:
        raise InfraError("unknown edit %r" % (how,))
    return name, l


def do_edit(c, how, arg):
    """the edit, on the real object, the way a caller writes it"""
    if how == "rename":
        c.name = _fresh(arg)
    elif how == "replace":
        c.aliases = None if arg is None else [_fresh(x) for x in arg]
    elif how == "append":
        c.aliases.append(_fresh(arg))
    elif how == "remove":
        if arg in c.aliases:
            c.aliases.remove(_fresh(arg))
    elif how == "insert":
        c.aliases.insert(0, _fresh(arg))
    elif how == "setitem":
        if c.aliases:
            c.aliases[0] = _fresh(arg)
    elif how == "delitem":
        if c.aliases:
            del c.aliases[0]
    elif how == "clear":
        c.aliases.clear()
    elif how == "extend":
        c.aliases += [_fresh(x) for x in arg]
    elif how == "reverse":
        c.aliases.reverse()
    else:
        raise InfraError("unknown edit %r" % (how,))


_ALIASES_FIRST = None


def _aliases_first():
    """Order inside `all_names`, as extracted from the source on this run (the Lean model reads the
    same flag from Generated/SchemaOps.lean); the property itself does not fix this order."""
    global _ALIASES_FIRST
    if _ALIASES_FIRST is None:
        import json
        import os

        from ..extract import GEN_DIR

        try:
            _ALIASES_FIRST = bool(json.load(open(os.path.join(GEN_DIR, "generated.json")))["schema.all_names.aliases_first"])
        except Exception:
            _ALIASES_FIRST = True
    return _ALIASES_FIRST


def _all_names_spec(name, aliases):
    if aliases is None:
        return [name]
    return list(aliases) + [name] if _aliases_first() else [name] + list(aliases)


def spec_union(A, B, idents):
    """The statement, literally: left columns, then right-hand columns whose identity is not
    already present, each once and in order."""
    out = list(A)
    present = set(idents[t] for t in A)
    for t in B:
        if idents[t] not in present:
            present.add(idents[t])
            out.append(t)
    return out


def execute(case):
    """Run the program on the real objects; evaluate the property inline.

    Returns dict(outs, final, clause, at, idents).  `outs`/`final` use table indexes for columns.
    """
    o = _orso()
    RelationSchema = o["schema"]
    cols = case["cols"]
    objs = build_columns(case)
    idents = [c.identity for c in objs]
    prog = resolve_prog(case, objs)
    other_text = {}
    for t, c in enumerate(objs):
        other_text.setdefault(idents[t], "identity")
        if c.description is not None:
            other_text.setdefault(c.description, "description")
        for x in c.origin or ():
            other_text.setdefault(x, "origin")
    other_fold = {k.casefold().strip(): v for k, v in other_text.items() if isinstance(k, str)}
    iters = []  # [python iterator, names of its schema when it was obtained, how many it has yielded, register]
    tag_of = {id(c): t for t, c in enumerate(objs)}
    names = [c[1] for c in cols]
    aliases = [None if c[2] is None else list(c[2]) for c in cols]  # the columns' *current* state: edits move it
    alln = [_all_names_spec(n, a) for n, a in zip(names, aliases)]
    alln_lower = [[x.lower() for x in l] for l in alln]
    alln_fold = [[x.casefold() for x in l] for l in alln]
    alias_objs = [c.aliases for c in objs]
    regs = [RelationSchema(name=s[0], aliases=list(s[1]), columns=[objs[i] for i in s[2]]) for s in case["schemas"]]
    meta = [(s[0], list(s[1])) for s in case["schemas"]]
    state = [list(s[2]) for s in case["schemas"]]
    outs = []
    res = {"outs": outs, "final": None, "clause": None, "at": None, "idents": idents, "num_columns": None, "hits": [],
           "resolved": case if prog is case["prog"] else dict(case, prog=prog)}

    def tags(schema):
        return [tag_of.get(id(c), -1) for c in schema.columns]

    def fail(n, clause):
        _COL_CACHE.clear()  # never reuse objects a failing run may have touched
        res["clause"] = clause
        res["at"] = n
        return res

    def first_bearing(P, key, ci, fold=False):
        if ci:
            kl = key.casefold() if fold else key.lower()
            for t in P:
                if kl in (alln_fold if fold else alln_lower)[t]:
                    return t
        else:
            for t in P:
                if key in alln[t]:
                    return t
        return None

    def bearing_ok(t, P, key, ci):
        """"ignoring case": the code (and the model) normalise with str.lower; Unicode case folding identifies a few
        more strings ('ß'/'SS', 'ς'/'σ').  The statement does not choose, so where the two readings differ the
        oracle accepts either answer (the correspondence with the model still pins str.lower)."""
        want = first_bearing(P, key, ci)
        if t == want:
            return True
        return bool(ci) and t == first_bearing(P, key, ci, fold=True)

    ITER_CLAUSE = "an iterator did not yield the names its schema had when the iterator was obtained, each once and in order"
    for n, op in enumerate(prog):
        kind = op[0]
        if kind in ("mkiter", "next", "drain"):
            target = -1  # an iterator is not a schema: nothing at all may move
            try:
                if kind == "mkiter":
                    sch = regs[op[1]]
                    it = iter(sch)
                    if not hasattr(it, "__next__"):
                        outs.append(["foreign", type(it).__name__])
                        return fail(n, "iter(schema) is not an iterator")
                    iters.append([it, [names[u] for u in state[op[1]]], 0, op[1]])
                    outs.append(["iter", len(iters) - 1])
                    if tags(sch) != state[op[1]]:
                        return fail(n, "a lookup changed the schema's columns")
                else:
                    rec = iters[op[1]]
                    res["hits"].append("iter:%s:%s" % (kind, "schema-unchanged-since-obtained" if [names[u] for u in state[rec[3]]] == rec[1]
                                                      else "exhausted" if rec[2] >= len(rec[1]) else "schema-changed-since-obtained"))
                    if kind == "next":
                        try:
                            x = next(rec[0])
                            outs.append(["item", x] if isinstance(x, str) else ["foreign", type(x).__name__])
                            got = [x]
                        except StopIteration:
                            outs.append(["stop"])
                            got = []
                        want = rec[1][rec[2] : rec[2] + 1]
                        rec[2] = min(rec[2] + 1, len(rec[1]))
                    else:
                        got = [x for x in rec[0]]
                        outs.append(["rest", got] if all(isinstance(x, str) for x in got) else ["foreign", "list"])
                        want = rec[1][rec[2] :]
                        rec[2] = len(rec[1])
                    if got != want:
                        return fail(n, ITER_CLAUSE)
            except Exception as e:
                outs.append(["raised", type(e).__name__])
                return fail(n, "%s raised %s" % ("iter(schema)" if kind == "mkiter" else "advancing an iterator", type(e).__name__))
        elif kind == "edit":
            target = -1  # a column is not a schema: no schema's column list may move
            t, how, arg = op[1], op[2], op[3]
            c = objs[t]
            res["hits"].append("edit:%s:%s" % (how, "listed-in-%d-schemas" % min(3, sum(1 for st in state if t in st))))
            if any(rec[3] is not None and t in state[rec[3]] and rec[2] < len(rec[1]) for rec in iters):
                res["hits"].append("edit:while-an-iterator-over-a-schema-listing-the-column-is-under-way")
            try:
                do_edit(c, how, arg)
            except Exception as e:
                outs.append(["raised", type(e).__name__])
                return fail(n, "editing a column raised " + type(e).__name__)
            names[t], aliases[t] = edit_spec(names[t], aliases[t], how, arg)
            alln[t] = _all_names_spec(names[t], aliases[t])
            alln_lower[t] = [x.lower() for x in alln[t]]
            alln_fold[t] = [x.casefold() for x in alln[t]]
            if how in EDITS_IN_PLACE and c.aliases is not alias_objs[t]:
                raise InfraError("an edit in place changed the list object: %r" % (op,))
            alias_objs[t] = c.aliases
            if c.name != names[t] or c.aliases != aliases[t]:
                return fail(n, "an edit of a column did not leave it with the name and aliases written to it")
            outs.append(["edited"])
        elif kind == "add":
            i, j = op[1], op[2]
            form = op[3] if len(op) > 3 else "+"
            a, b = regs[i], regs[j]
            A, B = state[i], state[j]
            la, lb = a.columns, b.columns
            if form != "+":
                res["hits"].append("add:form:%s%s" % (form, ":right-brings-a-new-identity" if spec_union(A, B, idents) != A else ""))
            try:
                s = do_sum(a, b, form)
            except InfraError:
                raise
            except Exception as e:
                outs.append(["raised", type(e).__name__])
                return fail(n, "the sum raised " + type(e).__name__)
            if not isinstance(s, RelationSchema) or not isinstance(s.columns, list):
                outs.append(["foreign", type(s).__name__])
                return fail(n, "the sum is not a schema")
            R = tags(s)
            try:
                out = ["schema", s.name, list(s.aliases), R]
            except Exception:
                out = ["schema", repr(s.name), repr(s.aliases), R]
            outs.append(out)
            # modifies neither operand
            if a.columns is not la or b.columns is not lb or tags(a) != A or tags(b) != B:
                return fail(n, "the sum modified an operand's columns")
            if regs[i] is not a or regs[j] is not b:
                raise InfraError("the harness lost an operand")
            if s.columns is la or s.columns is lb:
                return fail(n, "the sum shares its column list with an operand")
            if s is a or s is b:
                return fail(n, "the sum is one of its operands")
            if R[: len(A)] != A:
                return fail(n, "the sum does not start with the left schema's columns")
            if R != spec_union(A, B, idents):
                return fail(n, "the sum's right-hand part is not the unseen identities, each once, in order")
            if s.name != meta[i][0] or list(s.aliases) != meta[i][1]:
                return fail(n, "the sum does not keep the left schema's name and aliases")
            regs.append(s)
            meta.append((meta[i][0], list(meta[i][1])))
            state.append(R)
            target = len(regs) - 1
        else:
            r = op[1]
            sch = regs[r]
            P = state[r]
            target = r
            try:
                if kind == "find":
                    got = sch.find_column(_fresh(op[2]), op[3]) if op[3] else sch.find_column(_fresh(op[2]))
                elif kind == "col":
                    got = sch.column(_fresh(op[2]))
                elif kind == "pop":
                    got = sch.pop_column(_fresh(op[2]))
                elif kind == "allnames":
                    got = sch.all_column_names()
                elif kind == "names":
                    got = sch.column_names
                    nc = sch.num_columns
                    if nc != len(sch.columns) and res.get("num_columns") is None:
                        res["num_columns"] = [n, nc, len(sch.columns)]
                elif kind == "iter":
                    got = [x for x in sch]
                else:
                    raise InfraError("bad op " + repr(op))
            except InfraError:
                raise
            except IndexError:
                got = IndexError
            except Exception as e:
                outs.append(["raised", type(e).__name__])
                return fail(n, "%s raised %s" % (kind, type(e).__name__))
            Q = tags(sch)
            if kind in ("find", "col", "pop") and isinstance(op[2], str):
                _lookalike_hits(res["hits"], kind, op[2], P, names, alln)
                _other_text_hits(res["hits"], kind, op[2], P, alln, alln_lower, other_text, other_fold, idents)
            if kind == "pop" and iters:
                for rec in iters:
                    if rec[3] == r and rec[2] < len(rec[1]):
                        res["hits"].append("iter:removal-while-an-iterator-is-under-way:%s" % (
                            "nothing-removed" if len(Q) == len(P) else "a-column-removed"))
            if kind in ("find", "col", "pop"):
                if got is IndexError:
                    out = ["IndexError"]
                    t = IndexError
                elif got is None:
                    t = None
                    out = ["pop" if kind == "pop" else "col", None]
                else:
                    t = tag_of.get(id(got), -1)
                    out = ["pop" if kind == "pop" else "col", t]
                outs.append(out)
                if t == -1:
                    return fail(n, "%s returned an object that is not a column of the schema" % kind)
            else:
                if not isinstance(got, list) or not all(isinstance(x, str) for x in got):
                    outs.append(["foreign", type(got).__name__])
                    return fail(n, "%s did not return a list of names" % kind)
                outs.append(["strs", list(got)])
            if kind == "pop":
                want = None
                for pos, u in enumerate(P):
                    if names[u] == op[2]:
                        want = pos
                        break
                if want is None:
                    if t is not None:
                        return fail(n, "removal of an absent name returned a column")
                    if Q != P:
                        return fail(n, "removal of an absent name changed the schema")
                else:
                    if t != P[want]:
                        return fail(n, "removal did not return the first column with that name")
                    if Q != P[:want] + P[want + 1 :]:
                        return fail(n, "removal did not delete exactly that column")
            else:
                if Q != P:
                    return fail(n, "a lookup changed the schema's columns")
                if kind == "find":
                    if t is IndexError or not bearing_ok(t, P, op[2], op[3]):
                        return fail(n, "lookup did not return the first column bearing the key (None when none does)")
                elif kind == "col":
                    k = op[2]
                    if isinstance(k, str):
                        if t is IndexError or t != first_bearing(P, k, False):
                            return fail(n, "column(name) disagrees with lookup by name")
                    elif not isinstance(k, bool):  # a bool index is compared with the model only
                        try:
                            exp = P[k]
                        except IndexError:
                            exp = IndexError
                        if t != exp:
                            return fail(n, "column(index) disagrees with positional access")
                elif kind in ("names", "iter"):
                    if got != [names[u] for u in P]:
                        return fail(n, "%s disagrees with the columns' names in order" % ("iteration" if kind == "iter" else "column_names"))
                else:  # allnames: per column, in column order, its name and aliases (any order inside a column)
                    pos = 0
                    ok = True
                    for u in P:
                        seg = got[pos : pos + len(alln[u])]
                        pos += len(alln[u])
                        if sorted(seg) != sorted(alln[u]):
                            ok = False
                            break
                    if not ok or pos != len(got):
                        return fail(n, "all_column_names is not the names and aliases of the columns in order")
            state[r] = Q
        # nothing else moved
        for q, sch2 in enumerate(regs):
            if q != target and tags(sch2) != state[q]:
                return fail(n, "%s changed another schema" % kind)
    # the column objects and the schemas' names/aliases are as they were built
    for t, c in enumerate(objs):
        if c.name != names[t] or c.identity != idents[t] or c.aliases != aliases[t]:
            for k in [k for k, v in _COL_CACHE.items() if v is c]:
                del _COL_CACHE[k]
            return fail(len(prog), "a column's name, aliases or identity was modified")
    for q, sch in enumerate(regs):
        if sch.name != meta[q][0] or list(sch.aliases) != meta[q][1]:
            return fail(len(prog), "a schema's name or aliases were modified")
    res["final"] = [list(s) for s in state]
    return res


def _lookalike_hits(out, kind, key, P, names, alln):
    """input distribution: names that look like something else (a position, a constant, a padded / non-ASCII number)
    and whether, for a name that reads as a position, that position holds another column than the one bearing the name"""
    if key in LOOKALIKE_SET:
        out.append("%s:key-looks-like-something-else" % kind)
    if key.isdecimal():
        out.append("%s:key-is-a-decimal-string" % kind)
        try:
            pos = int(key)
        except ValueError:
            return
        if pos < len(P):
            bearer = next((t for t in P if key in alln[t]), None)
            named = next((t for t in P if names[t] == key), None)
            want = named if kind == "pop" else bearer
            out.append("%s:decimal-key-below-width:%s" % (kind, "position-holds-the-%s" % ("named" if kind == "pop" else "bearer") if P[pos] == want
                                                          else "absent-name" if want is None else "position-holds-another-column"))


def _other_text_hits(out, kind, key, P, alln, alln_lower, other_text, other_fold, idents):
    """input distribution: keys that no column of the schema bears but that equal (or nearly equal) some *other* text a
    column of the case carries"""
    what = other_text.get(key)
    near = None if what is not None else other_fold.get(key.casefold().strip())
    if what is None and near is None:
        return
    borne = any(key in alln[t] for t in P)
    borne_ci = borne or any(key.lower() in alln_lower[t] for t in P)
    where = "of-a-column-of-the-schema" if (what or near) != "identity" or any(idents[t].casefold() == key.casefold().strip() for t in P) \
        else "of-a-column-elsewhere"
    out.append("%s:key-%s-the-%s-%s:%s" % (kind, "is" if what else "is-a-near-miss-of", what or near, where,
                                          "also-a-name" if borne else "a-name-only-ignoring-case" if borne_ci else "nobody's-name"))


# ----------------------------------------------------------------------------- mirror (pure spec)


def mirror(case, idents):
    names = [c[1] for c in case["cols"]]
    aliases = [None if c[2] is None else list(c[2]) for c in case["cols"]]
    alln = [_all_names_spec(c[1], c[2]) for c in case["cols"]]
    regs = [list(s[2]) for s in case["schemas"]]
    meta = [(s[0], list(s[1])) for s in case["schemas"]]
    outs = []
    iters = []  # [names when obtained, position]

    def first(P, key, ci):
        for t in P:
            if (key.lower() in [x.lower() for x in alln[t]]) if ci else (key in alln[t]):
                return t
        return None

    for op in case["prog"]:
        kind = op[0]
        if kind == "add":
            R = spec_union(regs[op[1]], regs[op[2]], idents)
            regs.append(R)
            meta.append(meta[op[1]])
            outs.append(["schema", meta[op[1]][0], list(meta[op[1]][1]), list(R)])
            continue
        if kind == "edit":
            t = op[1]
            names[t], aliases[t] = edit_spec(names[t], aliases[t], op[2], op[3])
            alln[t] = _all_names_spec(names[t], aliases[t])
            outs.append(["edited"])
            continue
        if kind == "mkiter":
            iters.append([[names[t] for t in regs[op[1]]], 0])
            outs.append(["iter", len(iters) - 1])
            continue
        if kind == "next":
            it = iters[op[1]]
            if it[1] < len(it[0]):
                outs.append(["item", it[0][it[1]]])
                it[1] += 1
            else:
                outs.append(["stop"])
            continue
        if kind == "drain":
            it = iters[op[1]]
            outs.append(["rest", it[0][it[1]:]])
            it[1] = len(it[0])
            continue
        P = regs[op[1]]
        if kind == "find":
            outs.append(["col", first(P, op[2], op[3])])
        elif kind == "col":
            k = op[2]
            if isinstance(k, str):
                outs.append(["col", first(P, k, False)])
            else:
                k = int(k)
                if -len(P) <= k < len(P):
                    outs.append(["col", P[k]])
                else:
                    outs.append(["IndexError"])
        elif kind == "pop":
            hit = [pos for pos, t in enumerate(P) if names[t] == op[2]]
            if hit:
                outs.append(["pop", P[hit[0]]])
                regs[op[1]] = P[: hit[0]] + P[hit[0] + 1 :]
            else:
                outs.append(["pop", None])
        elif kind == "allnames":
            outs.append(["strs", [x for t in P for x in alln[t]]])
        elif kind in ("names", "iter"):
            outs.append(["strs", [names[t] for t in P]])
        else:
            raise InfraError("bad op " + repr(op))
    return outs, regs


# ----------------------------------------------------------------------------- model line


def _strings(case):
    for c in case["cols"]:
        yield c[1]
        if c[2] is not None:
            yield from c[2]
    for op in case["prog"]:
        if op[0] in ("find", "col", "pop") and isinstance(op[2], str):
            yield op[2]
        if op[0] == "edit":
            if isinstance(op[3], str):
                yield op[3]
            elif isinstance(op[3], list):
                yield from op[3]


def model_line(case, idents):
    cols = [[idents[t], c[1], c[2]] for t, c in enumerate(case["cols"])]
    table = sorted({s for s in _strings(case) if not s.isascii()})
    lower = [[s, s.lower()] for s in table]
    # every form of the sum is the one sum of the model
    prog = [list(op[:3]) if op[0] == "add" else list(op) for op in case["prog"]]
    return "C17 run " + wire.line(cols, [list(s) for s in case["schemas"]], prog, lower)


# ----------------------------------------------------------------------------- validity, evaluation


def valid_case(c):
    try:
        if not isinstance(c, dict) or set(c) - {"cols", "schemas", "prog", "note"}:
            return False
        for col in c["cols"]:
            if not isinstance(col, list) or len(col) not in (3, 4, 5):
                return False
            if len(col) == 5 and not (isinstance(col[4], dict) and set(col[4]) <= {"description", "origin"}
                                      and isinstance(col[4].get("description", ""), str)
                                      and isinstance(col[4].get("origin", []), list) and all(isinstance(x, str) for x in col[4].get("origin", []))):
                return False
            if col[0] is not None and not isinstance(col[0], str):
                return False
            if not isinstance(col[1], str):
                return False
            if col[2] is not None and not (isinstance(col[2], list) and all(isinstance(x, str) for x in col[2])):
                return False
            if len(col) >= 4 and col[3] not in ("flat", "const", "func"):
                return False
        n = len(c["cols"])
        for s in c["schemas"]:
            if not isinstance(s, list) or len(s) != 3 or not isinstance(s[0], str):
                return False
            if not (isinstance(s[1], list) and all(isinstance(x, str) for x in s[1])):
                return False
            if not (isinstance(s[2], list) and all(type(x) is int and 0 <= x < n for x in s[2])):
                return False
        nregs = len(c["schemas"])
        niters = 0
        has_list = [col[2] is not None for col in c["cols"]]
        if not isinstance(c["prog"], list) or not c["prog"]:
            return False
        for op in c["prog"]:
            if not isinstance(op, list) or not op:
                return False
            k = op[0]
            if k == "edit":
                if len(op) != 4 or type(op[1]) is not int or not 0 <= op[1] < n or op[2] not in EDITS:
                    return False
                how, arg = op[2], op[3]
                if how in EDITS_IN_PLACE and not has_list[op[1]]:
                    return False  # `None.append(x)`: not a legal program
                if how in ("append", "remove", "insert", "setitem", "rename") and not isinstance(arg, str):
                    return False
                if how in ("delitem", "clear", "reverse") and arg is not None:
                    return False
                if how == "extend" and not (isinstance(arg, list) and all(isinstance(x, str) for x in arg)):
                    return False
                if how == "replace":
                    if arg is not None and not (isinstance(arg, list) and all(isinstance(x, str) for x in arg)):
                        return False
                    has_list[op[1]] = arg is not None
                continue
            if k == "mkiter":
                if len(op) != 2 or type(op[1]) is not int or not 0 <= op[1] < nregs:
                    return False
                niters += 1
                continue
            if k in ("next", "drain"):
                if len(op) != 2 or type(op[1]) is not int or not 0 <= op[1] < niters:
                    return False
                continue
            if k == "add":
                if len(op) not in (3, 4) or not all(type(x) is int and 0 <= x < nregs for x in op[1:3]):
                    return False
                if len(op) == 4 and op[3] not in SUM_FORMS:
                    return False
                nregs += 1
                continue
            if k not in ("find", "col", "pop", "allnames", "names", "iter"):
                return False
            if len(op) < 2 or type(op[1]) is not int or not 0 <= op[1] < nregs:
                return False
            if k == "find" and not (len(op) == 4 and (isinstance(op[2], str) or _is_attr_key(op[2], n)) and type(op[3]) is bool):
                return False
            if k == "pop" and not (len(op) == 3 and (isinstance(op[2], str) or _is_attr_key(op[2], n))):
                return False
            if k == "col" and not (len(op) == 3 and (isinstance(op[2], (str, int)) or _is_attr_key(op[2], n))):
                return False
            if k in ("allnames", "names", "iter") and len(op) != 2:
                return False
        return True
    except Exception:
        return False


def _norm(clause):
    return None if clause is None else "".join(ch for ch in clause if not ch.isdigit())


def _ci_class(key, names):
    """how `str.lower` (what the code uses) relates to Unicode case folding for this key and these names"""
    kl, kf = key.lower(), key.casefold()
    out = []
    if not key.isascii():
        out.append("key-non-ascii")
    if len(kl) != len(key):
        out.append("lower-changes-length")
    if kl != kf:
        out.append("lower!=casefold")
    if any(kf == x.casefold() and kl != x.lower() for x in names):
        out.append("casefold-equal-but-lower-distinct")
    if any(kl == x.lower() and key != x for x in names):
        out.append("matches-only-ignoring-case")
    return out


def _hits(ctx, c, raw=None):
    nbase = len(c["schemas"])
    alln = None
    for op in (raw or c)["prog"]:
        if op[0] in ("find", "col", "pop") and isinstance(op[2], list):
            ctx.hit("key-from-an-attribute:%s%s" % (op[2][2].partition("~")[0], ":near-miss" if "~" in op[2][2] else ""))
    for op in c["prog"]:
        k = op[0]
        if k in ("mkiter", "next", "drain", "edit"):
            ctx.hit("op:" + k)
            continue
        if k == "add" and op[1] < nbase and op[2] < nbase:
            A, B = c["schemas"][op[1]][2], c["schemas"][op[2]][2]
            ida, idb = [c["cols"][t][0] for t in A], [c["cols"][t][0] for t in B]
            if None not in ida and None not in idb:
                if len(set(ida)) < len(ida):
                    ctx.hit("add:left-repeats-an-identity")
                if len(set(idb)) < len(idb):
                    ctx.hit("add:right-repeats-an-identity")
                if set(A) & set(B):
                    ctx.hit("add:operands-share-a-column-object")
                if any(i in ida for t, i in zip(B, idb) if t not in A):
                    ctx.hit("add:same-identity-different-object")
                na, ia = {c["cols"][t][1] for t in A}, set(ida)
                if any(c["cols"][t][1] in na and i not in ia for t, i in zip(B, idb)):
                    ctx.hit("add:same-name-different-identity")
                if not A:
                    ctx.hit("add:empty-left")
                if not B:
                    ctx.hit("add:empty-right")
                if op[1] == op[2]:
                    ctx.hit("add:schema-plus-itself")
        if k == "find" and op[3] and not op[2].isascii():
            if alln is None:
                alln = [x for col in c["cols"] for x in ([col[1]] + list(col[2] or []))]
            for cl in _ci_class(op[2], alln):
                ctx.hit("ci:" + cl)
        if k in ("find", "col", "pop") and isinstance(op[2], str) and len(op[2]) > 1:
            ctx.hit("key-is-a-string-object-of-its-own:" + k)
        if k == "col":
            if type(op[2]) is int and not -2**63 <= op[2] < 2**63:
                ctx.hit("col:index-beyond-the-machine-word")
            k = "col:" + ("name" if isinstance(op[2], str) else "bool" if isinstance(op[2], bool) else "index")

        elif k == "find":
            k = "find:" + ("ci" if op[3] else "exact")
        ctx.hit("op:" + k)
    ctx.hit("columns:%d" % min(len(c["cols"]), 9))
    ctx.hit("registers:%d" % min(len(c["schemas"]), 5))


def evaluate(ctx, cases, stats=True):
    results = []
    lines = []
    for c in cases:
        r = execute(c)
        results.append(r)
        lines.append(model_line(r["resolved"], r["idents"]))
    mouts = ctx.model.batch(lines)
    for c, r, line, mo in zip(cases, results, lines, mouts):
        nontrivial = any(s[2] for s in c["schemas"])
        ctx.case(c, nontrivial, key=None if any(col[0] is None for col in c["cols"]) else line)
        if stats:
            _hits(ctx, r["resolved"], c)
            for h in r.get("hits") or ():
                ctx.hit(h)
        if not mo.startswith("ok "):
            raise InfraError("model rejected case %r: %r" % (c, mo))
        m = wire.dec_all(mo[3:])
        mir_outs, mir_regs = mirror(r["resolved"], r["idents"])
        if m[0] != mir_outs or m[1] != mir_regs:
            raise InfraError("Lean model and Python mirror differ on %r: model %r mirror %r" % (c, m, (mir_outs, mir_regs)))
        for out in m[0]:
            if out[0] == "IndexError":
                ctx.hit("outcome:IndexError")
            elif out[0] in ("col", "pop"):
                ctx.hit("outcome:%s:%s" % (out[0], "none" if out[1] is None else "found"))
        if r["clause"] is not None:
            clause = r["clause"]
            if not hasattr(ctx, "_c17_reported"):
                ctx._c17_reported = set()
            seen = ctx._c17_reported
            if _norm(clause) in seen and not ctx.replaying:
                ctx.hit("violation-dup:" + _norm(clause))
                continue
            seen.add(_norm(clause))

            def still(c2):
                if not valid_case(c2):
                    return False
                try:
                    return _norm(execute(c2)["clause"]) == _norm(clause)
                except InfraError:
                    return False

            c_min = c
            if not ctx.replaying:
                # first cut the program after the failing operation, then delta-debug
                cut = dict(c, prog=c["prog"][: (r["at"] if r["at"] is not None else len(c["prog"])) + 1])
                if still(cut):
                    c_min = cut
                    last = dict(c, prog=cut["prog"][-1:])
                    if still(last):
                        c_min = last
                # drop every operation the failure does not need (the generic shrinker spends its budget on the column
                # table first), then the schemas' columns, then delta-debug what is left
                i = 0
                while i < len(c_min["prog"]) and len(c_min["prog"]) > 1:
                    t = dict(c_min, prog=c_min["prog"][:i] + c_min["prog"][i + 1:])
                    if still(t):
                        c_min = t
                    else:
                        i += 1
                for q in range(len(c_min["schemas"])):
                    i = 0
                    while i < len(c_min["schemas"][q][2]):
                        sc = [list(x) for x in c_min["schemas"]]
                        sc[q][2] = sc[q][2][:i] + sc[q][2][i + 1:]
                        t = dict(c_min, schemas=sc)
                        if still(t):
                            c_min = t
                        else:
                            i += 1
                c_min = shrink(c_min, still, budget=600)
            r2 = execute(c_min)
            mo2 = None
            try:
                o2 = ctx.model.one(model_line(r2["resolved"], r2["idents"]))
                mo2 = wire.dec_all(o2[3:])[0] if o2.startswith("ok ") else o2
            except Exception:
                pass
            ctx.fail(c_min, r2["clause"] or clause, impl={"outs": r2["outs"], "failed_at_op": r2["at"]}, model=mo2)
        elif m[0] != r["outs"] or m[1] != r["final"]:
            ctx.disagree(c, {"outs": r["outs"], "regs": r["final"]}, {"outs": m[0], "regs": m[1]})
        elif r.get("num_columns") is not None:
            # not in the statement; `Gen.SchemaFns.num_columns` is proved to be the number of columns
            ctx.disagree(c, {"num_columns": r["num_columns"][1], "at_op": r["num_columns"][0]}, {"num_columns": r["num_columns"][2]})


def evaluate_all(ctx, gen, batch=4000, stats=True):
    n = 0
    buf = []
    for c in gen:
        buf.append(c)
        if len(buf) >= batch:
            evaluate(ctx, buf, stats)
            n += len(buf)
            buf = []
            if ctx.time_left() < 0:
                ctx.note("budget_exhausted", True)
                ctx._c17_cut = True
                buf = []
                break
    if buf:
        evaluate(ctx, buf, stats)
        n += len(buf)
    return n


# ----------------------------------------------------------------------------- generators

NAMES3 = ["a", "A", "b"]
KEYS = ["a", "A", "b", "B", "c", "i0", "I1"]  # i0, I1: the identity of the first column / of the second in another case
ALIASES6 = [None, [], ["a"], ["A"], ["b"], ["b", "a"]]
ALIASES3 = [None, ["a"], ["b"]]

# Names that look like something else: a position ('0', '1', '2' ... as in a header-less CSV), a negative index, a
# constant, a padded / signed / fractional / non-ASCII / superscript number, the empty string.  A name is a name:
# `column('1')` is the first column bearing '1', wherever it sits.  Every generator for column / find_column /
# pop_column draws from these too, in layouts where a name is *not* its own position.
DIGITS3 = ["1", "0", "2"]
DIGIT_KEYS = ["0", "1", "2", "3", "-1", " 1", "\uff11", "01"]
DIGIT_ALIASES4 = [None, ["0"], ["2"], ["1", "0"]]
DIGIT_ALIASES2 = [None, ["2"]]
LOOKALIKE = ["0", "1", "2", "3", "-1", "-0", "True", "False", "None", " 1", "1 ", "\uff11", "\u0661", "\u00b2", "1.0", "01", "+1", "1_0",
             "0x1", "1e0", "nan", ""]
LOOKALIKE_SET = frozenset(LOOKALIKE)


# what a `str` method mentioned in the source is likely to single out
_METHOD_WITNESSES = {
    "isdigit": ["0", "1", "\u00b2"], "isdecimal": ["0", "1", "\uff11"], "isnumeric": ["0", "1", "\u00bd"], "isalpha": ["a", "1"],
    "isalnum": ["a1", "_"], "isupper": ["A", "a"], "islower": ["a", "A"], "isspace": [" ", ""], "istitle": ["Ab", "ab"],
    "isidentifier": ["a", "_", "1a", "class"], "isascii": ["a", "\u00e9"], "isprintable": ["a", "\n"],
    "strip": [" a", "a ", "a"], "lstrip": [" a", "a"], "rstrip": ["a ", "a"], "upper": ["a", "A"], "casefold": ["\u00df", "ss"],
    "title": ["ab", "Ab"], "capitalize": ["ab", "Ab"], "swapcase": ["a", "A"], "split": ["a b", "a.b", "a"], "rsplit": ["a.b", "a"],
    "partition": ["a.b", "a"], "encode": ["\u00e9"], "format": ["{}", "{0}"], "zfill": ["1", "01"], "isoformat": [], "join": [",", "a,b"],
}
_OBSERVED = {"RelationSchema": {"__add__", "__iter__", "find_column", "all_column_names", "column_names", "column", "pop_column", "num_columns"},
             "FlatColumn": {"all_names"}}


def source_alphabet():
    """Names suggested by the source itself: every string literal in the bodies of the observed functions (a literal
    compared with a name, or handed to `startswith`, is a name somebody treats specially), each also doubled and with a
    letter on either side, and witnesses for the `str` methods the bodies call (`isdecimal` -> '0', '1', full-width 1).
    On the tree as it stands these functions hold no literal and call only `lower`, so the list is empty."""
    import ast
    import os

    from ..core import REPO

    lits, meths = [], []
    try:
        tree = ast.parse(open(os.path.join(REPO, "orso", "schema.py"), encoding="utf-8").read())
    except (OSError, SyntaxError):
        return [], []
    for cls in tree.body:
        if not (isinstance(cls, ast.ClassDef) and cls.name in _OBSERVED):
            continue
        for fn in cls.body:
            if not (isinstance(fn, ast.FunctionDef) and fn.name in _OBSERVED[cls.name]):
                continue
            doc = {id(b.value) for n in ast.walk(fn) if isinstance(n, (ast.FunctionDef, ast.ClassDef)) for b in n.body[:1]
                   if isinstance(b, ast.Expr) and isinstance(b.value, ast.Constant)}
            for n in ast.walk(fn):
                if isinstance(n, ast.Constant) and isinstance(n.value, str) and id(n) not in doc and len(n.value) <= 12:
                    lits.append(n.value)
                elif isinstance(n, ast.Constant) and type(n.value) is int and 0 <= n.value <= 99:
                    lits.append(str(n.value))
                elif isinstance(n, ast.Attribute) and n.attr in _METHOD_WITNESSES:
                    meths.append(n.attr)
                elif isinstance(n, ast.Call) and isinstance(n.func, ast.Name) and n.func.id in ("int", "float"):
                    meths.append("isdecimal")
    lits, meths = list(dict.fromkeys(lits)), list(dict.fromkeys(meths))
    names = []
    for l in lits:
        names += [l, l + l, l + "x", "x" + l]
    for m in meths:
        names += _METHOD_WITNESSES[m]
    names = list(dict.fromkeys(names))[:14]
    return names, [repr(l) for l in lits] + ["." + m for m in meths]


def observation(r, ncols, keys=KEYS):
    ops = []
    for k in keys:
        ops.append(["find", r, k, False])
        ops.append(["find", r, k, True])
        ops.append(["col", r, k])
    for i in range(-(ncols + 1), ncols + 2):
        ops.append(["col", r, i])
    ops.append(["col", r, True])
    ops.append(["col", r, False])
    ops += [["allnames", r], ["names", r], ["iter", r]]
    return ops


def schemas_over(kinds, nmax):
    for n in range(nmax + 1):
        yield from itertools.product(range(len(kinds)), repeat=n)


def gen_lookup_exhaustive(nmax, alias_opts, names=NAMES3, keys=KEYS):
    """Every schema of <= nmax columns over names x alias options; every lookup once."""
    kinds = [["i%d" % 0, n, a] for n in names for a in alias_opts]
    for sel in schemas_over(kinds, nmax):
        cols = [["i%d" % p, kinds[k][1], kinds[k][2]] for p, k in enumerate(sel)]
        yield {"cols": cols, "schemas": [["s", [], list(range(len(sel)))]], "prog": observation(0, len(sel), keys)}


def gen_pop_paths(nmax, alias_opts, depth, names=NAMES3, keys=("a", "A", "b", "c"), obs_keys=KEYS):
    """Every schema x every sequence of <= depth removals, a full observation after the last one
    (every prefix is itself enumerated) and a cheap one in between."""
    kinds = [[None, n, a] for n in names for a in alias_opts]
    keys = list(keys)
    for sel in schemas_over(kinds, nmax):
        if not sel:
            continue
        cols = [["i%d" % p, kinds[k][1], kinds[k][2]] for p, k in enumerate(sel)]
        for d in range(1, depth + 1):
            for path in itertools.product(keys, repeat=d):
                prog = []
                for k in path[:-1]:
                    prog.append(["find", 0, k, False])
                    prog.append(["pop", 0, k])
                    prog.append(["names", 0])
                prog.append(["find", 0, path[-1], True])
                prog.append(["pop", 0, path[-1]])
                prog += observation(0, len(sel), obs_keys)
                yield {"cols": cols, "schemas": [["s", ["t"], list(range(len(sel)))]], "prog": prog}


HISTORY_STARTS = [
    # table, registers 0 and 1
    {"cols": [["i0", "a", ["b"]], ["i1", "b", None], ["i0", "A", []], ["i2", "a", ["A"]]],
     "schemas": [["L", ["l"], [0, 1]], ["R", [], [2, 3, 1]]]},
    {"cols": [["i0", "b", ["a"]], ["i1", "a", None], ["i2", "a", ["b"]], ["i1", "B", ["c"]]],
     "schemas": [["L", [], [0, 1, 2]], ["R", ["r"], [3, 3, 0]]]},
    {"cols": [["i0", "a", None], ["i0", "a", None], ["i1", "A", ["a"]]],
     "schemas": [["L", [], [0, 1]], ["R", [], [2]]]},
    {"cols": [["i0", "A", ["a", "b"]], ["i1", "b", []]],
     "schemas": [["L", [], []], ["R", [], [0, 1, 0]]]},
]


def history_alphabet():
    return [
        ["find", 0, "a", False], ["find", 0, "A", True], ["find", 0, "b", False],
        ["col", 0, 0], ["col", 0, -1], ["col", 0, "a"], ["col", 0, 2],
        ["pop", 0, "a"], ["pop", 0, "b"], ["pop", 1, "a"],
        ["allnames", 0], ["names", 0], ["iter", 0],
        ["add", 0, 1], ["add", 1, 0],
        ["pop", 2, "a"], ["find", 2, "b", True], ["names", 2], ["add", 2, 0],
    ]


# header-less-CSV style names; after a removal or in a sum taken the other way round a name is no longer its position
DIGIT_STARTS = [
    {"cols": [["i0", "0", None], ["i1", "1", None], ["i2", "2", None], ["i3", "3", ["1"]]],
     "schemas": [["L", [], [0, 1, 2]], ["R", [], [3, 2, 1, 0]]], "keys": ("1", "0")},
    {"cols": [["i0", "1", ["0"]], ["i1", "0", None], ["i0", "2", []], ["i2", "1", ["2"]]],
     "schemas": [["L", ["l"], [0, 1]], ["R", [], [2, 3, 1]]], "keys": ("1", "2")},
]


def history_alphabet_digits():
    return [
        ["find", 0, "1", False], ["find", 0, "2", True], ["col", 0, "0"], ["col", 0, "1"], ["col", 0, "2"],
        ["col", 0, 0], ["col", 0, -1], ["col", 0, 1],
        ["pop", 0, "0"], ["pop", 0, "1"], ["pop", 1, "1"],
        ["allnames", 0], ["names", 0],
        ["add", 0, 1], ["add", 1, 0],
        ["pop", 2, "1"], ["col", 2, "2"], ["col", 2, "1"], ["names", 2], ["add", 2, 0],
    ]


def gen_histories(depths, starts, alpha=None):
    alpha = alpha or history_alphabet()
    for st in starts:
        for d in depths:
            for hist in itertools.product(alpha, repeat=d):
                nregs = 2
                niters = 0
                ok = True
                for op in hist:
                    if op[0] == "mkiter":
                        if op[1] >= nregs:
                            ok = False
                            break
                        niters += 1
                    elif op[0] in ("next", "drain"):
                        if op[1] >= niters:
                            ok = False
                            break
                    elif op[0] == "add":
                        if op[1] >= nregs or op[2] >= nregs:
                            ok = False
                            break
                        nregs += 1
                    elif op[0] == "edit":
                        pass
                    elif op[1] >= nregs:
                        ok = False
                        break
                if ok:
                    yield {"cols": st["cols"], "schemas": st["schemas"], "prog": [list(op) for op in hist]}


def gen_union_pairs(nid, nnames, amax, bmax, chain=False, names=NAMES3):
    """All pairs (a, b): columns from nid identities x nnames names, two objects per kind (the
    second object only on the right), so shared objects, equal copies, repeated identities and
    same-name/different-identity columns all occur.  With `chain`, all triples and both bracketings."""
    kinds = [("i%d" % i, names[n]) for i in range(nid) for n in range(nnames)]
    table = [[k[0], k[1], None] for k in kinds] + [[k[0], k[1], [names[2]]] for k in kinds]
    left = list(range(len(kinds)))
    right = list(range(len(table)))

    def lists(pool, nmax):
        for n in range(nmax + 1):
            yield from itertools.product(pool, repeat=n)

    if not chain:
        for a in lists(left, amax):
            for b in lists(right, bmax):
                prog = [["add", 0, 1], ["add", 1, 0], ["names", 2], ["find", 2, names[2], False], ["col", 2, names[0]], ["col", 3, names[0]],
                        ["col", 3, names[1]], ["pop", 2, names[0]], ["col", 2, names[1]], ["names", 0]]
                yield {"cols": table, "schemas": [["L", ["x"], list(a)], ["R", [], list(b)]], "prog": prog}
    else:
        for a in lists(left, amax):
            for b in lists(right, bmax):
                for c in lists(right, bmax):
                    prog = [["add", 0, 1], ["add", 3, 2], ["add", 1, 2], ["add", 0, 5], ["allnames", 4], ["names", 6], ["col", 4, names[0]],
                            ["col", 6, names[1 if nnames > 1 else 0]]]
                    yield {"cols": table, "schemas": [["L", [], list(a)], ["M", ["m"], list(b)], ["R", [], list(c)]], "prog": prog}


def gen_frame_interleavings(depth):
    """Non-mutation as a frame property: from every starting point build a+b, b+a and the sum of those sums, then
    every sequence of <= depth removals addressed to any of the five schemas, a lookup on every schema after each
    removal and the names of all five at the end (the oracle checks after *every* operation that no schema but the
    addressed one moved; the model must agree on every answer)."""
    for st in HISTORY_STARTS + DIGIT_STARTS:
        pre = [["add", 0, 1], ["add", 1, 0], ["add", 2, 3]]
        alpha = [["pop", r, k] for r in range(5) for k in st.get("keys", ("a", "b"))]
        for d in range(depth + 1):
            for path in itertools.product(alpha, repeat=d):
                prog = [list(p) for p in pre]
                for op in path:
                    prog.append(list(op))
                    for r in range(5):
                        prog.append(["find", r, op[2], False] if "keys" not in st else ["col", r, op[2]])
                for r in range(5):
                    prog.append(["names", r])
                prog.append(["add", 4, 0])
                prog.append(["allnames", 5])
                yield {"cols": st["cols"], "schemas": st["schemas"], "prog": prog}


def gen_sum_forms():
    """Every syntactic form of the sum (a + b, a.__add__(b), operator.add, a += b with the left operand still referenced
    elsewhere, operator.iadd, type(a).__iadd__ when defined, functools.reduce over operator.add / operator.iadd,
    sum([b], a), type(b).__radd__ when defined, a `total += part` fold) x every pair of schemas of <=2 columns over two
    identities with shared objects, equal copies and a third identity; then the same form again with the *result* as the
    left operand (a chain), the first operand once more, and a removal from the sum: after each step both operands must be
    as they were (list object, content) and the result a new schema."""
    table = [["i0", "a", None], ["i1", "b", None], ["i0", "a", ["b"]], ["i1", "b", ["a"]], ["i2", "a", []]]

    def lists(pool, nmax):
        for n in range(nmax + 1):
            yield from itertools.product(pool, repeat=n)

    for form in SUM_FORMS:
        for a in lists([0, 1], 2):
            for b in lists([0, 1, 2, 3, 4], 2):
                prog = [["add", 0, 1, form], ["names", 0], ["names", 1], ["add", 2, 1, form], ["add", 0, 2, form], ["add", 1, 0, form], ["names", 0],
                        ["allnames", 2], ["pop", 2, "a"], ["names", 0], ["names", 3], ["add", 0, 0, form]]
                yield {"cols": table, "schemas": [["L", ["x"], list(a)], ["R", [], list(b)]], "prog": prog}
    # two different forms one after the other on three schemas (a fold written one way, continued another way)
    for f1 in SUM_FORMS:
        for f2 in SUM_FORMS:
            for a, b, c in (([0], [1], [4]), ([], [2, 1], [0, 4]), ([0, 1], [3], [])):
                prog = [["add", 0, 1, f1], ["add", 3, 2, f2], ["names", 0], ["names", 3], ["add", 1, 2, f2], ["add", 0, 5, f1], ["names", 1], ["names", 4], ["names", 6]]
                yield {"cols": table, "schemas": [["L", [], a], ["M", ["m"], b], ["R", [], c]], "prog": prog}


def history_alphabet_forms():
    """sums written every way, interleaved with lookups and removals on the operands and on the results"""
    return [
        ["find", 0, "a", False], ["pop", 0, "a"], ["pop", 2, "b"], ["pop", 1, "a"], ["names", 0], ["names", 2],
        ["add", 0, 1, "+="], ["add", 1, 0, "__iadd__"], ["add", 2, 0, "+="], ["add", 2, 1, "reduce.iadd"], ["add", 0, 0, "operator.iadd"],
        ["add", 0, 1, "fold+="], ["add", 0, 1, "__radd__"], ["add", 1, 0, "sum"], ["add", 0, 2, "__add__"],
    ]


EDIT_COLS = [["i0", "a", ["x"]], ["i1", "b", []], ["i2", "a", None]]


def _edit_alphabet(full):
    ed = []
    for t in (0, 1):
        ed += [["edit", t, "append", "y"], ["edit", t, "remove", "x"], ["edit", t, "setitem", "y"], ["edit", t, "replace", ["y"]], ["edit", t, "rename", "y"]]
        if full:
            ed += [["edit", t, "insert", "y"], ["edit", t, "delitem", None], ["edit", t, "clear", None], ["edit", t, "extend", ["y", "z"]],
                   ["edit", t, "reverse", None], ["edit", t, "replace", None], ["edit", t, "rename", "b"], ["edit", t, "remove", "y"]]
    ed += [["edit", 2, "replace", ["y"]], ["edit", 2, "rename", "y"]]
    if full:
        ed += [["edit", 2, "append", "y"], ["edit", 2, "replace", []]]
    look = [["find", 0, "y", False], ["find", 0, "Y", True], ["allnames", 0], ["pop", 0, "a"], ["add", 0, 1]]
    if full:
        look += [["col", 0, "y"], ["find", 0, "x", False], ["find", 1, "y", False], ["pop", 0, "y"], ["add", 1, 0, "+="], ["find", 2, "y", False],
                 ["mkiter", 0], ["next", 0]]
    return ed + look


def gen_alias_edits(depth_full, depth_small):
    """In-place edits of column attributes between lookups.  Three column objects (aliases ['x'], [], None) listed by two
    schemas (the second in another order: the objects are shared); every sequence of <= depth steps over: edit a column's
    alias list in place (append, remove, insert, item assignment, del, clear, +=, reverse), replace it (another list,
    None), rename the column; look a key up (exact, ignoring case, column()), list all names, remove a column, sum the two
    schemas, obtain / advance an iterator -- once from a cold start and once after every column's names have been looked
    at (a lookup of an absent key scans them all); at the end every key is looked up in both schemas and the names are
    listed.  The reference reads the column's *current* name and aliases."""
    final = []
    for r in (0, 1):
        for k in ("x", "y", "a", "b", "z"):
            final += [["find", r, k, False], ["find", r, k.upper(), True]]
        final += [["col", r, "y"], ["allnames", r], ["names", r]]
    final.append(["iter", 0])
    warmup = [["find", 0, "zz", False], ["find", 1, "ZZ", True], ["allnames", 0]]
    schemas = [["L", [], [0, 1, 2]], ["R", [], [1, 0]]]
    for full, depth in ((True, depth_full), (False, depth_small)):
        alpha = _edit_alphabet(full)
        for d in range(1, depth + 1):
            if not full and d <= depth_full:
                continue
            for seq in itertools.product(alpha, repeat=d):
                if not any(op[0] == "edit" for op in seq):
                    continue
                for warm in (False, True):
                    c = {"cols": EDIT_COLS, "schemas": schemas, "prog": (warmup if warm else []) + [list(op) for op in seq] + final}
                    if valid_case(c):
                        yield c


def history_alphabet_iter():
    """lookups, removals and sums with an iteration (or two) under way"""
    return [
        ["find", 0, "a", False], ["pop", 0, "a"], ["pop", 0, "b"], ["pop", 1, "a"], ["add", 0, 1], ["names", 0], ["pop", 2, "a"],
        ["mkiter", 0], ["next", 0], ["drain", 0], ["mkiter", 2], ["next", 1],
    ]


ITER_LAYOUTS = [["a"], ["a", "b"], ["a", "b", "c"], ["a", "a", "b"], ["a", "b", "a"], ["a", "b", "c", "d"]]


def gen_iter_interleavings(depth, layouts=None):
    """An iteration in progress interleaved with everything else: the iterator is obtained first (`iter(schema)`, what a
    `for name in schema:` loop does), then every sequence of <= depth steps over: advance it, remove any of the schema's
    columns by name, remove from the other schema (which holds the same column objects in reverse order), build the sum,
    obtain a second iterator (over the schema as it is then, or over the sum) and advance that; at the end every iterator
    is drained and the schema listed.  The reference is an iterator over the names *as they were when it was obtained*."""
    for names in layouts or ITER_LAYOUTS:
        n = len(names)
        cols = [["i%d" % p, nm, None] for p, nm in enumerate(names)]
        schemas = [["L", [], list(range(n))], ["R", [], list(range(n - 1, -1, -1))]]
        distinct = list(dict.fromkeys(names))
        alpha = [["next", 0]] + [["pop", 0, x] for x in distinct] + [["pop", 1, distinct[0]], ["add", 0, 1], ["mkiter", 0], ["next", 1],
                                                                        ["mkiter", 2], ["drain", 0]]
        for d in range(depth + 1):
            for seq in itertools.product(alpha, repeat=d):
                nregs, niters, ok = 2, 1, True
                for op in seq:
                    if op[0] == "add":
                        nregs += 1
                    elif op[0] == "mkiter":
                        if op[1] >= nregs:
                            ok = False
                            break
                        niters += 1
                    elif op[0] in ("next", "drain") and op[1] >= niters:
                        ok = False
                        break
                if not ok:
                    continue
                prog = [["mkiter", 0]] + [list(op) for op in seq] + [["drain", k] for k in range(niters)] + [["next", 0], ["names", 0], ["iter", 0]]
                yield {"cols": cols, "schemas": schemas, "prog": prog}


ATTR_PROBES = ["identity", "identity~upper", "identity~lower", "identity~swapcase", "identity~space", "identity~lead", "identity~cut", "identity~dbl",
               "str", "repr", "type", "type.name", "type.value", "type.name~lower", "description", "description~upper", "origin", "class",
               "class~lower", "default", "nullable"]


def gen_absent_attribute_keys(nmax):
    """Absent keys that equal some *other* text of a column.  Every schema of <= nmax columns over names {a, b} x identities
    {a, b, A, x} (identities that read like names, in either case, and one that is nobody's name) x aliases {None, [b]}; the
    first column also carries a description ('x') and an origin (['b', 'o']).  Keys: the names, the identities, their case
    variants, the schema's own name, and -- for every column -- its identity, str(), repr(), type, type name and value,
    description, origin, class, default, nullable, with near-misses.  Every key is looked up (exact, ignoring case, through
    column()); then every column's identity is used as the argument of a removal, the lookups repeated after it."""
    kinds = [[ident, name, al] for name in ("a", "b") for ident in ("a", "b", "A", "x") for al in (None, ["b"])]
    for sel in schemas_over(kinds, nmax):
        cols = [list(kinds[k]) for k in sel]
        if cols:
            cols[0] = cols[0] + ["flat", {"description": "x", "origin": ["b", "o"]}]
        n = len(cols)
        keys = ["a", "b", "A", "B", "x", "X", "x ", "o", "O", "c", "L", "l"] + [["@", t, a] for t in range(n) for a in ATTR_PROBES]
        prog = []
        for k in keys:
            prog += [["find", 0, k, False], ["find", 0, k, True], ["col", 0, k]]
        prog.append(["allnames", 0])
        for t in range(n):
            prog += [["pop", 0, ["@", t, "identity"]], ["names", 0]]
            for u in range(n):
                prog += [["find", 0, ["@", u, "identity"], False], ["col", 0, ["@", u, "identity~upper"]], ["find", 0, ["@", u, "identity~upper"], True]]
        prog.append(["allnames", 0])
        yield {"cols": cols, "schemas": [["L", ["l"], list(range(n))]], "prog": prog}


def gen_default_identity_keys():
    """The same for identities nobody chose (16 random hex characters, new on every run): the key is "whatever the identity
    of column t is"; also through a sum and after a removal."""
    for names in (["a"], ["a", "b"], ["b", "a", "a"], ["0", "1"]):
        n = len(names)
        cols = [[None, nm, None if p % 2 else ["c"]] + (["func"] if p == 1 else []) for p, nm in enumerate(names)]
        schemas = [["L", [], list(range(n))], ["R", [], [n - 1]]]
        probes = ["identity", "identity~upper", "identity~cut", "identity~space", "str", "repr", "type.value", "class"]
        for first in (None, "a", "b"):
            prog = [["add", 1, 0]]
            if first is not None:
                prog.append(["pop", 0, first])
            for r in (0, 1, 2):
                for t in range(n):
                    for a in probes:
                        prog += [["find", r, ["@", t, a], False], ["find", r, ["@", t, a], True], ["col", r, ["@", t, a]]]
                    prog += [["pop", r, ["@", t, "identity"]], ["names", r]]
                prog.append(["allnames", r])
            yield {"cols": cols, "schemas": schemas, "prog": prog}


UNI = ["a", "A", "b", "B", "ab", "aB", "Ab", "é", "É", "ß", "ẞ", "SS", "ss", "İ", "i̇", "i", "I", "ı", "Σ", "σ", "ς",
       "ΑΣ", "ας", "ασ", "ǅ", "ǆ", "Ǆ", "日本", "", " ", "a ", "K", "k", "ﬁ", "FI", "fi", "\U0001f600", "name", "Name", "NAME",
       "0", "1", "2", "-1", "True", "None", " 1", "\uff11", "1.0", "\u00b2"]


def random_case(ctx, big=False):
    rng = ctx.rng
    ascii_only = rng.random() < 0.5
    pool = [s for s in UNI if s.isascii()] if ascii_only else UNI
    pool = rng.sample(pool, rng.randint(2, min(len(pool), 8 if not big else 14)))
    ncols = rng.randint(0, 6 if not big else 14)
    # one case in four: names that look like something else -- positions as text (a header-less CSV names its columns
    # '0', '1', '2', ...: mostly in natural order here, so that only a removal or a sum taken the other way round makes
    # a name differ from its position), negative indexes, constants, padded / non-ASCII digits
    csv = rng.random() < 0.25
    if csv:
        ascii_only = False
        pool = [str(i) for i in range(max(ncols, 2))] + rng.sample(LOOKALIKE, rng.randint(1, 5))
    idpool = ["i%d" % i for i in range(rng.randint(1, max(1, ncols)))]
    if rng.random() < 0.25:
        # caller-chosen identities that read like names ('total'): a key that is nobody's name may be somebody's identity
        idpool = rng.sample(pool, min(len(pool), len(idpool)))
    cols = []
    for _ in range(ncols):
        r = rng.random()
        ident = None if r < 0.25 else rng.choice(idpool)
        r = rng.random()
        if r < 0.2:
            al = None
        elif r < 0.4:
            al = []
        else:
            al = [rng.choice(pool) for _ in range(rng.randint(1, 3))]
        col = [ident, rng.choice(pool), al]
        if csv and rng.random() < 0.7:
            col[1] = str(len(cols))
        r = rng.random()
        if r < 0.06:
            col.append("const")
        elif r < 0.12:
            col.append("func")
        cols.append(col)
    nregs = rng.randint(1, 4)
    schemas = []
    for q in range(nregs):
        k = rng.randint(0, min(ncols, 5 if not big else 10)) if ncols else 0
        if csv and rng.random() < 0.5:
            sel = list(range(k))  # natural order: name == position until something is removed
        elif rng.random() < 0.6:
            sel = rng.sample(range(ncols), k)
        else:
            sel = [rng.randrange(ncols) for _ in range(k)]
        schemas.append([rng.choice(pool), [rng.choice(pool) for _ in range(rng.randint(0, 2))], sel])
    prog = []
    n = nregs

    def key():
        if ncols and rng.random() < 0.1:
            what = rng.choice(ATTR_KEYS[:3] + ATTR_KEYS[:1] * 3 + ATTR_KEYS)
            if rng.random() < 0.4:
                what += "~" + rng.choice(ATTR_VARIANTS)
            return ["@", rng.randrange(ncols), what]
        r = rng.random()
        if r > 0.93 and cols:
            ident = rng.choice(cols)[0]  # some column's identity (of this schema or another) as the key
            if ident is not None:
                return rng.choice([ident, ident, ident.upper(), ident + " "])
        base = rng.choice(pool) if r < 0.8 else rng.choice(LOOKALIKE if csv else UNI if not ascii_only else ["zz", "c", "B", "0", "1", "-1", "None"])
        r = rng.random()
        if r < 0.15:
            return base.upper()
        if r < 0.3:
            return base.lower()
        if r < 0.4:
            return base.swapcase()
        return base

    niters = 0
    with_iters = rng.random() < 0.4
    with_edits = ncols > 0 and rng.random() < 0.35
    with_forms = rng.random() < 0.4
    has_list = [c[2] is not None for c in cols]
    for _ in range(rng.randint(1, 12 if not big else 40)):
        r = rng.random()
        q = rng.randrange(n)
        if with_edits and rng.random() < 0.25:
            # the caller edits a column object between two operations
            t = rng.randrange(ncols)
            how = rng.choice(EDITS)
            if how in EDITS_IN_PLACE and not has_list[t]:
                how = "replace"
            if how == "replace":
                arg = None if rng.random() < 0.2 else [rng.choice(pool) for _ in range(rng.randint(0, 2))]
                has_list[t] = arg is not None
            elif how == "extend":
                arg = [rng.choice(pool) for _ in range(rng.randint(0, 2))]
            elif how in ("delitem", "clear", "reverse"):
                arg = None
            elif how == "remove" and cols[t][2] and rng.random() < 0.7:
                arg = rng.choice(cols[t][2])
            else:
                arg = rng.choice(pool)
            prog.append(["edit", t, how, arg])
        elif with_iters and rng.random() < 0.3:
            # an iteration under way: obtain an iterator, advance one, drain one -- between the other operations
            if niters == 0 or rng.random() < 0.25:
                prog.append(["mkiter", q])
                niters += 1
            else:
                prog.append([rng.choice(["next", "next", "next", "drain"]), rng.randrange(niters)])
        elif r < 0.2:
            prog.append(["add", rng.randrange(n), rng.randrange(n)] + ([rng.choice(SUM_FORMS)] if with_forms else []))
            n += 1
        elif r < 0.4:
            prog.append(["find", q, key(), rng.random() < 0.5])
        elif r < 0.55:
            kk = rng.choice([key(), key(), rng.randint(-8, 8), rng.randint(-2, 2), True, False,
                             rng.choice([2**31, 2**63 - 1, 2**63, 2**64, -2**63, -2**63 - 1, 10**30])])
            prog.append(["col", q, kk])
        elif r < 0.8:
            prog.append(["pop", q, key()])
        else:
            prog.append([rng.choice(["allnames", "names", "iter"]), q])
    prog += [["drain", k] for k in range(niters)]
    return {"cols": cols, "schemas": schemas, "prog": prog}


# ----------------------------------------------------------------------------- random identities


def check_identity_format(ctx):
    """`FlatColumn()` without an identity gets `random_string()`: a 16-character lower-case hex
    string whatever the random bits are (checked with the bit source pinned to boundary values;
    identities are never compared across runs)."""
    import orso.tools as tools
    from orso.schema import FlatColumn

    hexd = set("0123456789abcdef")
    real = tools.getrandbits
    probes = [0, 1, 15, 16, 255, 16**6, 16**9 - 1, 16**9, 16**10 - 1, 16**15, 16**15 - 1, 2**63, 2**64 - 1]
    probes += [ctx.rng.getrandbits(ctx.rng.choice([1, 8, 20, 36, 40, 60, 64])) for _ in range(200)]
    try:
        for v in probes:
            tools.getrandbits = lambda n, v=v: v & ((1 << n) - 1)
            for w in (16, 1, 2, 7, 8, 15, 17, 32):
                s = tools.random_string(w) if w != 16 else tools.random_string()
                case = {"random_string": {"width": w, "bits": v}}
                ctx.case(case, True)
                ctx.hit("identity-format")
                if not isinstance(s, str) or len(s) != w or not set(s) <= hexd:
                    ctx.fail(case, "random identity is not a hex string of the requested width", impl=s, model=None)
                    return
    finally:
        tools.getrandbits = real
    seen = set()
    for _ in range(300):
        ident = FlatColumn(name="x").identity
        if not isinstance(ident, str) or len(ident) != 16 or not set(ident) <= hexd:
            ctx.fail({"default_identity": True}, "random identity is not a hex string of the requested width", impl=ident, model=None)
            return
        seen.add(ident)
    ctx.hit("default-identities-distinct:%s" % (len(seen) == 300))


# ----------------------------------------------------------------------------- foreign right operands


class _Duck:
    """not a RelationSchema, but it has a list of columns"""

    def __init__(self, columns):
        self.columns = columns
        self.name = "duck"
        self.aliases = ["quack"]


def check_foreign_operands(ctx):
    """`schema + x` for an x that is not a schema.  The statement quantifies over pairs of schemas, so what the sum
    *is* here is not demanded (today: AttributeError for anything without `.columns`, the union for anything with
    one); what is demanded is the part of the statement that does not depend on the right operand being a schema:
    the left operand is not modified, whether the sum raises or not, and a right operand that has a column list
    keeps it."""
    o = _orso()
    cols = [o["flat"](name=n, identity=i, aliases=a) for n, i, a in (("a", "i0", ["b"]), ("b", "i1", None), ("a", "i0", []))]
    lefts = [[], [0], [0, 1], [0, 2, 1]]
    rights = [("None", lambda: None), ("int", lambda: 5), ("str", lambda: "ab"), ("list-of-columns", lambda: [cols[1]]),
              ("dict", lambda: {"columns": [cols[1]]}), ("tuple", lambda: ()), ("object", lambda: object()),
              ("duck-with-columns", lambda: _Duck([cols[1], cols[1], cols[2]])), ("duck-empty", lambda: _Duck([])),
              ("column", lambda: cols[0])]
    for sel in lefts:
        for label, mk in rights:
            a = o["schema"](name="L", aliases=["l"], columns=[cols[i] for i in sel])
            la = a.columns
            x = mk()
            xcols = x.columns if isinstance(x, _Duck) else None
            xbefore = list(xcols) if xcols is not None else None
            case = {"foreign_right": label, "left": list(sel)}
            try:
                r = a + x
                outcome = "returned:" + type(r).__name__
            except Exception as e:  # noqa: BLE001 - any exception is an acceptable refusal
                r = None
                outcome = "raised:" + type(e).__name__
            ctx.case(case, bool(sel))
            ctx.hit("foreign-right:%s:%s" % (label, outcome))
            if a.columns is not la or [id(c) for c in a.columns] != [id(cols[i]) for i in sel] or a.name != "L" or a.aliases != ["l"]:
                ctx.fail(case, "the sum with a right operand that is not a schema modified the left operand", impl={"outcome": outcome, "left_after": [c.name for c in a.columns]}, model=None)
                return
            if xcols is not None and (x.columns is not xcols or [id(c) for c in xcols] != [id(c) for c in xbefore]):
                ctx.fail(case, "the sum modified the column list of a right operand that is not a schema", impl={"outcome": outcome, "right": "changed"}, model=None)
                return
            if isinstance(x, _Duck) and isinstance(r, o["schema"]):
                # a right operand with a column list: the union, by the same rule
                tag = {id(c): t for t, c in enumerate(cols)}
                got = [tag.get(id(c), -1) for c in r.columns]
                B = [tag[id(c)] for c in xbefore]
                want = spec_union(list(sel), B, [c.identity for c in cols])
                if got != want or r.columns is la or r.name != "L" or list(r.aliases) != ["l"]:
                    ctx.fail(case, "the sum with a right operand that only has a column list is not the union by the same rule",
                             impl={"columns": got, "name": r.name}, model={"columns": want, "name": "L"})
                    return


# ----------------------------------------------------------------------------- entry points


def load_corpus():
    """corpus/C17/*.json: boundary seeds and minimised past failures, run first."""
    import glob
    import json
    import os

    from ..core import VERIF, unjson

    cases = []
    for f in sorted(glob.glob(os.path.join(VERIF, "corpus", "C17", "*.json"))):
        data = unjson(json.load(open(f)))
        for c in data if isinstance(data, list) else [data]:
            if not valid_case(c):
                raise InfraError("corpus file %s holds an invalid case: %r" % (f, c))
            cases.append(c)
    return cases



def run(ctx):
    ctx.note("rule", "a case = column table + schemas + program, run on RelationSchema/FlatColumn objects, on the Lean "
             "register machine and on a Python mirror; non-trivial = some schema has a column; distinct by the model line")
    q = ctx.tier == "quick"

    class Scopes(list):
        def append(self, text):
            if getattr(ctx, "_c17_cut", False):
                text = "STOPPED EARLY (time budget), partial: " + text
                ctx._c17_cut = False
            list.append(self, text)

    scopes = Scopes()
    try:
        import json
        import os

        from ..extract import GEN_DIR

        differs = json.load(open(os.path.join(GEN_DIR, "generated.json"))).get("schema.fn.differs_from_model") or {}
        if differs:
            # the extractor ran the changed translation against the model on the small scope (Lemmas/SchemaBattery.lean)
            ctx.note("translated_function_differs_from_model", differs)
    except Exception:
        pass
    check_identity_format(ctx)
    check_foreign_operands(ctx)
    corpus = load_corpus()
    evaluate(ctx, corpus)
    ctx.hit("corpus", len(corpus))
    n = evaluate_all(ctx, gen_lookup_exhaustive(3, ALIASES6))
    scopes.append("every schema of <=3 columns over names {a,A,b} x aliases %r x every lookup "
                  "(find exact/ci and column(name) for keys %r, column(i) for -n-1..n+1, True, False, all names, names, iteration): %d schemas" % (ALIASES6, KEYS, n))
    n = evaluate_all(ctx, gen_lookup_exhaustive(3, DIGIT_ALIASES4, DIGITS3, DIGIT_KEYS))
    n2 = evaluate_all(ctx, gen_lookup_exhaustive(2, [None], LOOKALIKE, LOOKALIKE))
    scopes.append("names that look like positions: every schema of <=3 columns over names %r x aliases %r x every lookup (keys %r, so "
                  "column('1') where '1' is not at position 1): %d schemas; every schema of <=2 columns over the look-alike names %r, "
                  "each looked up under every one of them: %d schemas" % (DIGITS3, DIGIT_ALIASES4, DIGIT_KEYS, n, LOOKALIKE, n2))
    src_names, src_why = source_alphabet()
    ctx.note("names_suggested_by_the_source", {"from": src_why, "names": src_names})
    if src_names:
        n = evaluate_all(ctx, gen_lookup_exhaustive(2, [None], src_names, src_names + ["zz"]))
        n2 = evaluate_all(ctx, gen_pop_paths(2, [None], 2, src_names[:8], src_names[:6] + ["zz"], src_names + ["zz"]))
        scopes.append("names suggested by the source (string literals and str methods in the observed functions: %s): every schema of <=2 "
                      "columns over the names %r, each looked up under every one of them: %d schemas; <=2 removals with full observation: %d "
                      "histories" % (", ".join(src_why), src_names, n, n2))
    n = evaluate_all(ctx, gen_absent_attribute_keys(2))
    n2 = evaluate_all(ctx, gen_default_identity_keys())
    scopes.append("absent keys that equal some other text of a column: every schema of <=2 columns over names {a,b} x identities {a,b,A,x} x "
                  "aliases {None,[b]} (first column with description 'x', origin ['b','o']); keys: names, identities, case variants, the schema's "
                  "name, and per column %r; each key looked up exactly, ignoring case and through column(); then every identity as the argument "
                  "of a removal, lookups repeated: %d schemas; the same with default (random) identities, through a sum and after a removal: %d "
                  "programs" % (ATTR_PROBES, n, n2))
    n = evaluate_all(ctx, gen_iter_interleavings(3))
    n2 = evaluate_all(ctx, gen_iter_interleavings(4 if q else 5, [["a", "b", "c"]] if q else ITER_LAYOUTS[1:5]))
    n3 = evaluate_all(ctx, gen_histories(range(1, 4), HISTORY_STARTS, history_alphabet_iter()))
    n4 = evaluate_all(ctx, gen_histories([4], HISTORY_STARTS[: 1 if q else 4], history_alphabet_iter()))
    scopes.append("an iteration in progress: the iterator obtained first, then every sequence of <=3 steps (advance it, remove each column by "
                  "name, remove from the schema that holds the same columns reversed, build the sum, obtain and advance a second iterator over "
                  "the schema or the sum), all iterators drained at the end, over the layouts %r: %d programs; <=%d steps over %s: %d programs; "
                  "every history of depth <=3 over %d operations (lookup, removals, sum, obtain / advance / drain an iterator) from %d starting "
                  "points: %d; of depth 4 from %d: %d" % (ITER_LAYOUTS, n, 4 if q else 5, "a,b,c" if q else "four layouts", n2,
                                                          len(history_alphabet_iter()), len(HISTORY_STARTS), n3, 1 if q else 4, n4))
    n = evaluate_all(ctx, gen_alias_edits(2, 3 if q else 4))
    scopes.append("column objects edited between lookups: three columns (aliases ['x'], [], None) shared by two schemas, every sequence of <=2 "
                  "steps over %d operations (alias list edited in place: append, remove, insert, item assignment, del, clear, +=, reverse; "
                  "replaced by a list / None; the column renamed; lookups exact / ignoring case / column(), all names, removal, sum, += , iterator) "
                  "and of <=%d steps over %d of them, each from a cold start and after every column's names were looked at, every key looked up "
                  "in both schemas at the end: %d programs" % (len(_edit_alphabet(True)), 3 if q else 4, len(_edit_alphabet(False)), n))
    n = evaluate_all(ctx, gen_sum_forms())
    n2 = evaluate_all(ctx, gen_histories(range(1, 4 if q else 5), HISTORY_STARTS, history_alphabet_forms()))
    scopes.append("every syntactic form of the sum (%s; __iadd__ / __radd__ through the class when it defines them, a + b otherwise): every pair "
                  "of schemas of <=2 columns over 2(+1) identities x every form, then the result as the left operand of the same form, the "
                  "operand once more, a removal from the sum; every pair of forms on three schemas: %d programs; every history of depth <=%d over "
                  "%d operations (lookups, removals, sums in eight forms on operands and results) from %d starting points: %d"
                  % (", ".join(SUM_FORMS), n, 3 if q else 4, len(history_alphabet_forms()), len(HISTORY_STARTS), n2))
    n = evaluate_all(ctx, gen_union_pairs(3, 1, 3, 3))
    n2 = evaluate_all(ctx, gen_union_pairs(2, 2, 2 if q else 3, 2 if q else 3))
    scopes.append("every pair of schemas of <=3 columns over 3 identities (two objects each) and of <=%d columns over 2 identities x 2 names, "
                  "a+b and b+a, then a removal from the sum: %d pairs" % (2 if q else 3, n + n2))
    n = evaluate_all(ctx, gen_union_pairs(2, 2, 2, 2, names=DIGITS3))
    scopes.append("every pair of schemas of <=2 columns over 2 identities x names '1','0' (alias '2'), a+b and b+a, column(name) on both sums "
                  "(a sum taken the other way round lists the names in another order), a removal, column(name) again: %d pairs" % n)
    n = evaluate_all(ctx, gen_union_pairs(2 if q else 3, 1, 2, 2, chain=True))
    scopes.append("every triple of schemas of <=2 columns over %d identities, (a+b)+c and a+(b+c): %d triples" % (2 if q else 3, n))
    n = evaluate_all(ctx, gen_pop_paths(3, ALIASES3, 2 if q else 3))
    scopes.append("every schema of 1..3 columns over names {a,A,b} x aliases %r x every sequence of <=%d removals (keys a,A,b,c), "
                  "lookups in between, full observation at the end: %d histories" % (ALIASES3, 2 if q else 3, n))
    n = evaluate_all(ctx, gen_pop_paths(3, DIGIT_ALIASES2, 2 if q else 3, DIGITS3, ("0", "1", "2", "3"), DIGIT_KEYS))
    scopes.append("every schema of 1..3 columns over names %r x aliases %r x every sequence of <=%d removals (keys '0'..'3'), full observation "
                  "at the end (column(name) for %r after the positions shifted): %d histories" % (DIGITS3, DIGIT_ALIASES2, 2 if q else 3, DIGIT_KEYS, n))
    n2 = evaluate_all(ctx, gen_pop_paths(2, [None, ["ab"]], 2, ["ab", "-1", "True"], ("ab", "-1", "True", "zz"), ["ab", "AB", "-1", "True", "true", "zz"]))
    scopes.append("every schema of 1..2 columns over the names 'ab', '-1', 'True' (names, keys and identities of two characters or more are "
                  "string objects of their own: `is` in place of `==` cannot pass) x every sequence of <=2 removals: %d histories" % n2)
    n = evaluate_all(ctx, gen_histories(range(1, 4), HISTORY_STARTS))
    scopes.append("every history of depth <=3 over %d operations (find, find-ci, column, pop, all names, names, iteration, union, "
                  "operations on the sum) from %d two-schema starting points: %d histories" % (len(history_alphabet()), len(HISTORY_STARTS), n))
    n = evaluate_all(ctx, gen_histories(range(1, 4), DIGIT_STARTS, history_alphabet_digits()))
    scopes.append("every history of depth <=3 over %d operations from %d starting points whose columns are named '0','1','2','3' "
                  "(natural order on the left, reversed on the right): %d histories" % (len(history_alphabet_digits()), len(DIGIT_STARTS), n))
    n = evaluate_all(ctx, gen_frame_interleavings(2 if q else 3))
    scopes.append("frame: from each of the %d starting points a+b, b+a and the sum of the two sums, then every sequence of <=%d removals "
                  "addressed to any of the five schemas with a lookup on every schema after each: %d programs" % (len(HISTORY_STARTS + DIGIT_STARTS), 2 if q else 3, n))
    if not q:
        n = evaluate_all(ctx, gen_lookup_exhaustive(4, ALIASES3))
        scopes.append("every schema of <=4 columns over names {a,A,b} x aliases %r x every lookup: %d schemas" % (ALIASES3, n))
    ctx.exhaustive = False
    n_random = ctx.scale(6000, 120000)
    evaluate_all(ctx, (random_case(ctx, big=(i % 5 == 4)) for i in range(n_random)))
    n4 = evaluate_all(ctx, gen_histories([4], HISTORY_STARTS[: 1 if q else 4]), stats=q)
    scopes.append("every history of depth 4 over the same operations from %d starting point(s): %d histories" % (1 if q else 4, n4))
    ctx.note("exhaustive_scope", list(scopes))


def intensify(ctx):
    evaluate_all(ctx, (random_case(ctx, big=(i % 3 == 2)) for i in range(30000)))


def replay(ctx, case):
    if "random_string" in case or "default_identity" in case:
        check_identity_format(ctx)
        return
    if "foreign_right" in case:
        check_foreign_operands(ctx)
        return
    if not valid_case(case):
        raise InfraError("not a C17 case: %r" % (case,))
    evaluate(ctx, [case])


KNOWN_PREDICATES = {}
