"""C16 — Schemas and columns survive persistence round-trips unchanged.

Case kinds (every case is JSON; Python values outside JSON travel as {"__py__": <class>, "v": <text>}):
  schema : RelationSchema(name, aliases, columns, primary_key) -> from_dict(to_dict(s))
           oracle: every attribute the statement lists is equal (type-sensitively), dataclass equality,
           the restored schema validates the given records like the original and reports the same
           description;                                     model: Persist.fromDict (toDict s), vcols, describe
  json   : one column -> FlatColumn.from_json(c.to_json())  model: Persist.jsonRoundTrip
  flat   : one column of any column class -> to_flatcolumn()  (the eleven attributes)
                                                            model: Persist.toFlat
  flat2  : flatten, assign attributes, flatten again (the second flat column shows the current attributes)
           seventh pass: flat / flat2 also carry statistics, counts and defaults of other kinds ({"__py__": "np" | "pdts" | "pdtd" |
           "tuple" | "int"}: numpy scalars, pandas objects, tuples, big ints); these stay outside the model (oracle only)
  snap   : sequences on one schema: to_dict -> from_dict -> modify the schema and the first restored schema ->
           the dictionary is unchanged (to_dict returns a snapshot) and loading it again restores the schema as it
           was written; modifying a dictionary to_dict returned leaves the schema alone; to_dict of the restored
           schema is the dictionary again                    model: Persist.fromDict (toDict s) on the schema as written
  json2  : one column: to_json -> from_json -> modify both columns -> from_json of the same JSON again restores
           the column as written, and it serialises to the same JSON   model: Persist.jsonRoundTrip
  session: a schema with a history (fifth pass): build -> validate records (directly / through DataFrame.append) -> edit in
           place (a column's nullable / type / name / aliases / default / statistics / identity; add / remove / replace a column;
           reverse / re-list the columns), optionally a second round of edits after the first battery -> to_dict / from_dict and
           to_json / from_json per column -> the same battery of records (conforming, each column missing / null / of every type it
           ever had / of no type, an excess key, the empty record) to the original, its restored copy, an equal schema edited the
           same way that never validated, a schema freshly constructed from the current (name, type, nullable), and the copy
           restored before the second round: all give the same outcome (accept / exception class and the columns it names); the
           description likewise.  model: Persist.fromDict (toDict s) on the edited schema (edits inside the model's domain)
  init   : keyword arguments -> FlatColumn(**kw), then FlatColumn(**attributes of it) again
           (correspondence only: the constructor's normalisation and its idempotence)
                                                            model: Persist.init, init ∘ rawOf

The oracle is evaluated on the implementation's own objects; the model sees the column *as the
implementation constructed it* (so the casts of defaults, C07's subject, are not re-modelled), except
for `init`, whose raw defaults stay inside the small domain Model/PersistPy.lean models.
"""
import copy
import dataclasses
import datetime
import decimal
import math
import warnings

from .. import wire
from ..core import InfraError, load_known, match_known, shrink
from . import c05

BASE = ["ARRAY", "BLOB", "BOOLEAN", "DATE", "DECIMAL", "DOUBLE", "INTEGER", "INTERVAL", "STRUCT", "TIMESTAMP", "TIME",
        "VARCHAR", "NULL", "JSONB"]
SCALAR = [b for b in BASE if b not in ("ARRAY", "DECIMAL")]
ELEMENT_MEMBERS = BASE + ["_MISSING_TYPE"]
# the attributes the statement lists for a column, and for flattening
LISTED = ["name", "type", "length", "precision", "scale", "element_type", "nullable", "default", "aliases", "description",
          "disposition", "identity", "highest_value", "lowest_value", "null_count"]
FLAT_LISTED = ["identity", "name", "type", "precision", "scale", "element_type", "nullable", "default", "aliases",
               "description", "highest_value", "lowest_value", "null_count"]
FIELDS = ["name", "default", "type", "element_type", "description", "disposition", "aliases", "nullable", "expectations",
          "identity", "length", "precision", "scale", "origin", "highest_value", "lowest_value", "null_count"]
COLUMN_CLASSES = ["FlatColumn", "FunctionColumn", "ConstantColumn", "SparseColumn", "RLEColumn", "DictionaryColumn"]

# --------------------------------------------------------------------------- values


def to_py(v):
    """value spec -> Python value"""
    if isinstance(v, list):
        return [to_py(x) for x in v]
    if isinstance(v, dict):
        if "__py__" in v:
            k, t = v["__py__"], v["v"]
            if k == "date":
                return datetime.date.fromisoformat(t)
            if k == "datetime":
                return datetime.datetime.fromisoformat(t)
            if k == "time":
                return datetime.time.fromisoformat(t)
            if k == "timedelta":
                return datetime.timedelta(microseconds=int(t))
            if k == "Decimal":
                return decimal.Decimal(t)
            if k == "bytes":
                return bytes.fromhex(t)
            if k == "float":
                return float(t)
            if k in ("np", "pdts", "pdtd", "tuple", "int"):
                return _other_kind(k, t)
            raise InfraError("bad value spec %r" % (v,))
        return {k: to_py(x) for k, x in v.items()}
    return v


def py(kind, text):
    return {"__py__": kind, "v": text}


def _other_kind(k, t):
    """seventh pass: values of kinds the per-type pools do not hold - numpy scalars ("<dtype>|<text>"), pandas Timestamp /
    Timedelta, tuples, integers beyond JSON"""
    import numpy

    if k == "tuple":
        return tuple(to_py(x) for x in t)
    if k == "int":
        return int(t)
    if k == "pdts":
        import pandas

        text, _, tz = t.partition("|")
        return pandas.Timestamp(text, tz=tz or None)
    if k == "pdtd":
        import pandas

        return pandas.NaT if t == "NaT" else pandas.Timedelta(int(t), unit="ns")
    dt, _, text = t.partition("|")
    if dt.startswith("datetime64"):
        return numpy.array(text, dtype=dt)[()]
    if dt.startswith("timedelta64"):
        return numpy.array("NaT" if text == "NaT" else int(text), dtype=dt)[()]
    if dt == "bool_":
        return numpy.bool_(text == "True")
    if dt == "str_":
        return numpy.str_(text)
    if dt == "bytes_":
        return numpy.bytes_(bytes.fromhex(text))
    ty = numpy.dtype(dt).type
    if dt.startswith(("int", "uint")):
        return ty(int(text))
    if dt.startswith("complex"):
        return ty(complex(text))
    with warnings.catch_warnings():
        warnings.simplefilter("ignore")
        return ty(float(text))


_PLAIN_CLASSES = (type(None), bool, int, float, str, bytes, list, tuple, dict, datetime.datetime, datetime.date, datetime.time,
                  datetime.timedelta, decimal.Decimal)


def enc_val(v):
    """Python value -> wire value (Model/PersistPy.lean's encoding)"""
    if type(v) not in _PLAIN_CLASSES:
        # a subclass (numpy.float64 is a float, numpy.str_ a str, pandas.Timestamp a datetime) is not the value the model knows
        return {"__t": "other:" + type(v).__name__, "v": repr(v)[:80]}
    if v is None or isinstance(v, (bool, int, float, str, bytes)):
        return v
    if isinstance(v, (list, tuple)):
        return [enc_val(x) for x in v]
    if isinstance(v, datetime.datetime):
        return {"__t": "datetime", "v": v.isoformat()}
    if isinstance(v, datetime.date):
        return {"__t": "date", "v": v.isoformat()}
    if isinstance(v, datetime.time):
        return {"__t": "time", "v": v.isoformat()}
    if isinstance(v, datetime.timedelta):
        d = {"__t": "timedelta", "v": str(v // datetime.timedelta(microseconds=1))}
        if not v:
            d["__falsy__"] = True
        return d
    if isinstance(v, decimal.Decimal):
        d = {"__t": "Decimal", "v": str(v.normalize()) if v.is_finite() else str(v)}  # equal Decimals travel equal
        if not v:
            d["__falsy__"] = True
        return d
    if isinstance(v, dict):
        return {str(k): enc_val(x) for k, x in v.items()}
    return {"__t": "other:" + type(v).__name__, "v": repr(v)[:80]}


def same_value(a, b):
    """type-sensitive equality: same class and equal; floats by representation (NaN equals NaN)"""
    if type(a) is not type(b):
        return False
    if isinstance(a, float):
        return repr(a) == repr(b)
    mod = type(a).__module__ or ""
    if mod.startswith("numpy"):
        import numpy

        if isinstance(a, numpy.generic):  # same dtype (for datetime64 / timedelta64: same unit) and same bits: NaT and NaN equal themselves
            return a.dtype == b.dtype and a.tobytes() == b.tobytes()
    if mod.startswith("pandas"):
        if a is b:  # pandas.NaT
            return True
        try:
            return bool(a == b) and getattr(a, "value", None) == getattr(b, "value", None) and str(getattr(a, "tz", None)) == str(getattr(b, "tz", None)) \
                and getattr(a, "unit", None) == getattr(b, "unit", None)
        except Exception:
            return False
    if isinstance(a, decimal.Decimal) and a.is_nan():
        return a is b or (b.is_nan() and str(a) == str(b))
    if isinstance(a, (list, tuple)):
        return len(a) == len(b) and all(same_value(x, y) for x, y in zip(a, b))
    if isinstance(a, dict):
        return list(a) == list(b) and all(same_value(a[k], b[k]) for k in a)
    return a == b


def show(v):
    r = repr(v)
    return r if len(r) < 120 else r[:117] + "..."


# --------------------------------------------------------------------------- columns


def _orso():
    import orso.schema as S
    from orso.types import OrsoTypes

    return S, OrsoTypes


def kwargs_of(spec):
    """column spec -> keyword arguments for the constructor"""
    S, OrsoTypes = _orso()
    kw = {}
    for k, v in spec.items():
        if k == "cls" or k == "extra":
            continue
        if k in ("type", "element_type"):
            if v is None:
                kw[k] = None
            elif v[0] == "member":
                kw[k] = OrsoTypes[v[1]]
            elif v[0] == "text":
                kw[k] = v[1]
            elif v[0] == "int0":
                kw[k] = 0
            else:
                raise InfraError("bad type spec %r" % (v,))
        elif k == "disposition":
            if v is None:
                kw[k] = None
            elif v[0] == "member":
                kw[k] = S.ColumnDisposition[v[1]]
            else:
                kw[k] = v[1]
        elif k in ("default", "highest_value", "lowest_value") or (isinstance(v, dict) and "__py__" in v):
            kw[k] = to_py(v)
        else:
            kw[k] = copy.deepcopy(v)  # the column must not share its lists with the case
    return kw


EXTRA = {
    "FlatColumn": {},
    "FunctionColumn": {"binding": None, "configuration": ()},
    "ConstantColumn": {"value": 3, "length": 4},
    "SparseColumn": {"values": [0, 1, 0, 2], "default_value": 0},
    "RLEColumn": {"values": [1, 1, 2]},
    "DictionaryColumn": {"values": ["a", "b", "a"]},
}


def construct(spec):
    S, _ = _orso()
    cls = getattr(S, spec.get("cls", "FlatColumn"))
    kw = kwargs_of(spec)
    extra = dict(EXTRA[spec.get("cls", "FlatColumn")])
    if spec.get("cls") == "FunctionColumn":
        extra["binding"] = lambda: 1
    extra.update(kw)
    with warnings.catch_warnings():
        warnings.simplefilter("ignore")
        return cls(**extra)


def enc_ty(t):
    _, OrsoTypes = _orso()
    if isinstance(t, OrsoTypes):
        return t.name
    if isinstance(t, int) and not isinstance(t, bool) and t == 0:
        return 0
    return {"__other__": show(t)}


def enc_col(c):
    """a constructed column -> the wire dictionary of its seventeen attributes"""
    S, _ = _orso()

    def opt_int(x):
        return x if x is None or (isinstance(x, int) and not isinstance(x, bool) and x >= 0) else {"__other__": show(x)}

    def strs(x):
        return list(x) if isinstance(x, list) and all(isinstance(s, str) for s in x) else {"__other__": show(x)}

    d = c.disposition
    return {
        "name": c.name if isinstance(c.name, str) else {"__other__": show(c.name)},
        "default": enc_val(c.default),
        "type": enc_ty(c.type),
        "element_type": None if c.element_type is None else enc_ty(c.element_type),
        "description": c.description if c.description is None or isinstance(c.description, str) else {"__other__": show(c.description)},
        "disposition": None if d is None else (d.name if isinstance(d, S.ColumnDisposition) else {"__other__": show(d)}),
        "aliases": None if c.aliases is None else strs(c.aliases),
        "nullable": c.nullable if isinstance(c.nullable, bool) else {"__other__": show(c.nullable)},
        "expectations": [] if c.expectations == [] else {"__other__": show(c.expectations)},
        "identity": c.identity if isinstance(c.identity, str) else {"__other__": show(c.identity)},
        "length": opt_int(c.length),
        "precision": opt_int(c.precision),
        "scale": opt_int(c.scale),
        "origin": strs(c.origin),
        "highest_value": enc_val(c.highest_value),
        "lowest_value": enc_val(c.lowest_value),
        "null_count": opt_int(c.null_count),
    }


def has_other(x):
    if isinstance(x, dict):
        if "__other__" in x:
            return True
        t = x.get("__t")
        if isinstance(t, str) and t.startswith("other:"):
            return True
        return any(has_other(v) for v in x.values())
    if isinstance(x, list):
        return any(has_other(v) for v in x)
    return False


def raw_wire(spec, identity_seen):
    """column spec -> the keyword dictionary the model's `init` op reads"""
    out = {}
    for k, v in spec.items():
        if k in ("cls", "extra"):
            continue
        if k in ("type", "element_type"):
            if v is None:
                if k == "type":
                    return None  # type=None: from_name(None), outside the model
                out[k] = None
            elif v[0] == "int0":
                out[k] = 0
            else:
                out[k] = [v[0], v[1]]
        elif k == "disposition":
            out[k] = None if v is None else [v[0], v[1]]
        elif k in ("default", "highest_value", "lowest_value") or (isinstance(v, dict) and "__py__" in v):
            out[k] = enc_val(to_py(v))
        else:
            out[k] = v
    return out


def attr_diffs(orig, got, attrs):
    """[(attribute, original, restored)] for the listed attributes that are not type-sensitively equal"""
    S, OrsoTypes = _orso()
    out = []
    for a in attrs:
        x, y = getattr(orig, a), getattr(got, a)
        if isinstance(x, (OrsoTypes, S.ColumnDisposition)):
            ok = x is y
        else:
            ok = same_value(x, y)
        if not ok:
            out.append((a, x, y))
    return out


# --------------------------------------------------------------------------- behaviour of a schema


def describe(schema):
    from orso import DataFrame

    try:
        with warnings.catch_warnings():
            warnings.simplefilter("ignore")
            d = DataFrame(rows=[], schema=schema).description
        return ["ok", [list(t) for t in d]]
    except Exception as e:
        return ["raised", type(e).__name__]


def validate_outcome(schema, tags):
    rec = {k: c05.POOL[t] for k, t in tags.items()}
    out = c05.impl_validate(schema, rec)
    if out[0] == "raised":
        return out
    return [out[0]] + [list(x) for x in out[1:]]


# --------------------------------------------------------------------------- running one case


def run_schema(case):
    """-> (failures [(clause, detail)], impl summary, model line or None, compare-with-model payload)"""
    S, _ = _orso()
    cols = [construct(sp) for sp in case["cols"]]
    s = S.RelationSchema(name=case["name"], aliases=list(case["aliases"]), columns=cols, primary_key=case["pk"])
    fails = []
    line = None
    encs = [enc_col(c) for c in cols]
    if not has_other(encs):
        line = "C16 dict " + wire.line(case["name"], list(case["aliases"]), case["pk"], encs, "fresh")
    try:
        with warnings.catch_warnings():
            warnings.simplefilter("ignore")
            d = s.to_dict()
            r = S.RelationSchema.from_dict(d)
    except Exception as e:
        cls = type(e).__name__
        fails.append(("dict: from_dict(to_dict(schema)) raised %s" % cls, {"op": "dict", "raised": cls, "message": str(e)[:200]}))
        return fails, ["err", "ValueError" if isinstance(e, ValueError) else cls], line, None
    for a in ("name", "aliases", "primary_key"):
        if not same_value(getattr(s, a), getattr(r, a)):
            fails.append(("dict: the schema's %s is not restored" % a, {"op": "dict", "attr": "schema." + a,
                                                                        "orig": show(getattr(s, a)), "got": show(getattr(r, a))}))
    if len(r.columns) != len(s.columns):
        fails.append(("dict: the restored schema has another number of columns", {"op": "dict"}))
    else:
        for i, (a, b) in enumerate(zip(s.columns, r.columns)):
            if type(b) is not S.FlatColumn:
                fails.append(("dict: a restored column is not a FlatColumn", {"op": "dict", "col": i}))
            for attr, x, y in attr_diffs(a, b, LISTED):
                fails.append(("dict: column attribute %s differs after the round trip" % attr,
                              {"op": "dict", "col": i, "attr": attr, "orig": show(x), "got": show(y), "orig_class": type(x).__name__}))
        if not fails and not (r == s):
            fails.append(("dict: restored schema != original (dataclass equality)", {"op": "dict"}))
        if not fails:
            # use -> use again: the same dictionary loads to the same schema a second time, the restored schema is
            # written as the same dictionary, and flattening a restored column shows the original's attributes
            try:
                with warnings.catch_warnings():
                    warnings.simplefilter("ignore")
                    r_again = S.RelationSchema.from_dict(d)
                    d_again = r.to_dict()
                    flats = [c.to_flatcolumn() for c in r.columns]
            except Exception as e:
                cls = type(e).__name__
                fails.append(("dict: a second from_dict / to_dict / to_flatcolumn on the restored schema raised %s" % cls,
                              {"op": "dict", "raised": cls, "message": str(e)[:200]}))
            else:
                for what, x, y in _schema_diffs(s, r_again):
                    fails.append(("dict: loading the same dictionary a second time gives another schema",
                                  {"op": "dict", "attr": what, "orig": show(x), "got": show(y)}))
                    break
                if not same_value(d_again, d):
                    fails.append(("dict: the restored schema is written as another dictionary", {"op": "dict", "orig": show(d), "got": show(d_again)}))
                for i, (a, f) in enumerate(zip(s.columns, flats)):
                    for attr, x, y in attr_diffs(a, f, FLAT_LISTED):
                        fails.append(("flat: flattening a restored column changes %s" % attr,
                                      {"op": "dict+flat", "col": i, "attr": attr, "orig": show(x), "got": show(y)}))
    # behaviour
    d0, d1 = describe(s), describe(r)
    if d0 != d1:
        fails.append(("dict: the restored schema reports another description", {"op": "dict", "orig": d0, "got": d1}))
    for tags in case.get("records", []):
        v0, v1 = validate_outcome(s, tags), validate_outcome(r, tags)
        if v0 != v1:
            fails.append(("dict: the restored schema validates a record differently",
                          {"op": "dict", "record": tags, "orig": show(v0), "got": show(v1)}))
            break
    impl = None
    if len(r.columns) == len(s.columns):
        from orso.types import OrsoTypes

        def vty(t):  # Validate.Column.type: None = untyped member; the int 0 reads as the text "0"
            if t is OrsoTypes._MISSING_TYPE:
                return None
            e = enc_ty(t)
            return "0" if e == 0 and not isinstance(e, bool) else e

        vc = [[c.name, vty(c.type), c.nullable] for c in r.columns]
        desc = None if d1[0] != "ok" else [[t[0], t[1], t[4], t[5], t[6]] for t in d1[1]]
        impl = [["ok", r.name, r.aliases, r.primary_key, [enc_col(c) for c in r.columns]], vc, desc]
    return fails, impl, line, "dict"


def run_json(case):
    S, _ = _orso()
    c = construct(case["col"])
    enc = enc_col(c)
    line = None if has_other(enc) else "C16 json " + wire.line(enc, "fresh")
    fails = []
    try:
        j = c.to_json()
    except Exception as e:
        cls = type(e).__name__
        fails.append(("json: to_json raised %s" % cls, {"op": "json", "stage": "to_json", "raised": cls, "message": str(e)[:200]}))
        return fails, ["err", cls], line, "json"
    try:
        with warnings.catch_warnings():
            warnings.simplefilter("ignore")
            r = S.FlatColumn.from_json(j)
    except Exception as e:
        cls = type(e).__name__
        fails.append(("json: from_json(to_json(column)) raised %s" % cls, {"op": "json", "stage": "from_json", "raised": cls,
                                                                           "message": str(e)[:200]}))
        return fails, ["err", "ValueError" if isinstance(e, ValueError) else cls], line, "json"
    for attr, x, y in attr_diffs(c, r, LISTED):
        fails.append(("json: column attribute %s differs after the round trip" % attr,
                      {"op": "json", "attr": attr, "orig": show(x), "got": show(y), "orig_class": type(x).__name__,
                       "nonfinite": isinstance(x, float) and not math.isfinite(x)}))
    if not fails and not (r == c) and not _has_nan(c):
        fails.append(("json: restored column != original (dataclass equality)", {"op": "json"}))
    return fails, ["ok", enc_col(r)], line, "json"


def _has_nan(c):
    return any(isinstance(getattr(c, a), float) and getattr(c, a) != getattr(c, a) for a in ("default", "highest_value", "lowest_value"))


def _cls(v):
    return type(v).__module__ + "." + type(v).__name__


def _how(x, y):
    """'' when the flat column's value is not even == the column's; otherwise the weaker change is named: the statement says the
    flat column *keeps* the value, and a value of another class is another value to every reader that dispatches on the class
    (to_json, the casts, arrow conversion) - the two are reported as separate clauses so the stronger one is always shown"""
    try:
        with warnings.catch_warnings():
            warnings.simplefilter("ignore")
            eq = (x == y)
            eq = bool(eq) if not hasattr(eq, "all") else bool(eq.all())
            if not eq and bool(x != x) and bool(y != y):
                eq = True  # NaN for NaN, NaT for NaT
    except Exception:
        eq = False
    if eq and type(x) is not type(y):
        return " (to an equal value of another class)"
    return ""


def run_flat(case):
    S, _ = _orso()
    c = construct(case["col"])
    enc = enc_col(c)
    line = None if has_other(enc) else "C16 flat " + wire.line(enc, "fresh")
    fails = []
    try:
        with warnings.catch_warnings():
            warnings.simplefilter("ignore")
            f = c.to_flatcolumn()
    except Exception as e:
        cls = type(e).__name__
        fails.append(("flat: to_flatcolumn raised %s" % cls, {"op": "flat", "raised": cls, "message": str(e)[:200]}))
        return fails, ["err", "ValueError" if isinstance(e, ValueError) else cls], line, "flat"
    for attr, x, y in attr_diffs(c, f, FLAT_LISTED):
        fails.append(("flat: flattening changes %s%s" % (attr, _how(x, y)), {"op": "flat", "attr": attr, "orig": show(x), "got": show(y),
                                                                             "orig_class": _cls(x), "got_class": _cls(y)}))
    return fails, ["ok", enc_col(f)], line, "flat"


MUTABLE = ["nullable", "aliases", "description", "default", "lowest_value", "highest_value", "null_count"]
OTHER_KIND_COUNTS = ("null_count", "precision", "scale")  # numeric attributes flattening hands over; a profiler's counts are numpy integers


def run_flat2(case):
    """flatten, assign some attributes (statistics are recorded after construction, aliases and nullability are
    adjusted by planners), flatten again: the second flat column keeps the column's *current* attributes."""
    S, _ = _orso()
    c = construct(case["col"])
    donor = construct(dict(case["col"], **case["then"]))
    fails = []
    try:
        with warnings.catch_warnings():
            warnings.simplefilter("ignore")
            f1 = c.to_flatcolumn()
            for attr, x, y in attr_diffs(c, f1, FLAT_LISTED):
                fails.append(("flat: flattening changes %s%s" % (attr, _how(x, y)), {"op": "flat", "attr": attr, "orig": show(x), "got": show(y),
                                                                                     "orig_class": _cls(x), "got_class": _cls(y)}))
            for k in case["then"]:
                if k in ("lowest_value", "highest_value", "null_count"):
                    # a statistic is recorded on the column as the profiler hands it over: the value itself, not what a
                    # constructor call would have made of it (seventh pass: a constructor that rewrites numpy statistics)
                    v = case["then"][k]
                    setattr(c, k, to_py(v) if k != "null_count" or isinstance(v, dict) else v)
                else:
                    setattr(c, k, getattr(donor, k))
            enc = enc_col(c)
            line = None if has_other(enc) else "C16 flat " + wire.line(enc, "fresh")
            f2 = c.to_flatcolumn()
    except Exception as e:
        cls = type(e).__name__
        fails.append(("flat: to_flatcolumn raised %s" % cls, {"op": "flat", "raised": cls, "message": str(e)[:200]}))
        return fails, ["err", "ValueError" if isinstance(e, ValueError) else cls], None, "flat"
    for attr, x, y in attr_diffs(c, f2, FLAT_LISTED):
        fails.append(("flat: flattening an updated column again changes %s%s" % (attr, _how(x, y)),
                      {"op": "flat2", "attr": attr, "orig": show(x), "got": show(y), "orig_class": _cls(x), "got_class": _cls(y)}))
    return fails, ["ok", enc_col(f2)], line, "flat"


def _build_schema(case):
    S, _ = _orso()
    return S.RelationSchema(name=case["name"], aliases=list(case["aliases"]), columns=[construct(sp) for sp in case["cols"]],
                            primary_key=case["pk"])


def _schema_diffs(orig, got):
    """[(what, original, restored)]: the schema's own attributes, then every listed attribute of every column"""
    out = []
    for a in ("name", "aliases", "primary_key"):
        if not same_value(getattr(orig, a), getattr(got, a)):
            out.append(("schema." + a, getattr(orig, a), getattr(got, a)))
    if len(orig.columns) != len(got.columns):
        out.append(("number of columns", len(orig.columns), len(got.columns)))
        return out
    for i, (a, b) in enumerate(zip(orig.columns, got.columns)):
        for attr, x, y in attr_diffs(a, b, LISTED):
            out.append(("columns[%d].%s" % (i, attr), x, y))
    return out


def _edit_schema(s, edit, donors):
    """modify a schema in place: lists are appended to (not replaced), attributes assigned"""
    if "aliases_append" in edit:
        s.aliases.append(edit["aliases_append"])
    if "pk" in edit:
        s.primary_key = edit["pk"]
    if "name" in edit:
        s.name = edit["name"]
    i = edit.get("col")
    if i is not None and i < len(s.columns):
        c = s.columns[i]
        for k in edit.get("then", {}):
            setattr(c, k, getattr(donors[i], k))
        if "col_alias_append" in edit and isinstance(c.aliases, list):
            c.aliases.append(edit["col_alias_append"])
    if edit.get("drop_last") and s.columns:
        s.columns.pop()


def _edit_restored(r, edit, donors):
    """modify a restored schema by assignment only (its lists may be the dictionary's own lists)"""
    if "aliases_append" in edit:
        r.aliases = list(r.aliases) + [edit["aliases_append"]]
    if "pk" in edit:
        r.primary_key = edit["pk"]
    if "name" in edit:
        r.name = edit["name"]
    i = edit.get("col")
    if i is not None and i < len(r.columns):
        c = r.columns[i]
        for k in edit.get("then", {}):
            setattr(c, k, getattr(donors[i], k))
        if "col_alias_append" in edit and isinstance(c.aliases, list):
            c.aliases = list(c.aliases) + [edit["col_alias_append"]]
    if edit.get("drop_last") and r.columns:
        r.columns = r.columns[:-1]


def _edit_dict(d, edit):
    """modify the dictionary to_dict returned, in place"""
    if isinstance(d.get("aliases"), list):
        d["aliases"].append(edit.get("aliases_append", "zz"))
    d["primary_key"] = edit.get("pk", "zz")
    d["name"] = edit.get("name", "zz")
    cols = d.get("columns")
    if isinstance(cols, list) and cols:
        c0 = cols[min(edit.get("col") or 0, len(cols) - 1)]
        if isinstance(c0, dict):
            if isinstance(c0.get("aliases"), list):
                c0["aliases"].append(edit.get("col_alias_append", "zz"))
            if isinstance(c0.get("origin"), list):
                c0["origin"].append("zz")
            c0["nullable"] = not c0.get("nullable")
            c0["type"] = "INTEGER" if c0.get("type") != "INTEGER" else "VARCHAR"
        cols.pop()


def run_snap(case):
    S, _ = _orso()
    edit = case["edit"]
    fails = []
    with warnings.catch_warnings():
        warnings.simplefilter("ignore")
        s = _build_schema(case)
        orig = _build_schema(case)  # an equal schema built independently: the state at the time of writing
        i = edit.get("col")
        donors = {}
        if i is not None and i < len(case["cols"]):
            donors[i] = construct(dict(case["cols"][i], **edit.get("then", {})))
        encs = [enc_col(c) for c in orig.columns]
        line = None if has_other(encs) else "C16 dict " + wire.line(case["name"], list(case["aliases"]), case["pk"], encs, "fresh")
        try:
            d = s.to_dict()
            snapshot = copy.deepcopy(d)
            r1 = S.RelationSchema.from_dict(d)
            first = _schema_diffs(orig, r1)
            if first:
                # the plain round trip already differs: that is the `schema` kind's business (and the known findings')
                return [], None, None, None
            d_again = r1.to_dict()
            if not same_value(d_again, snapshot):
                fails.append(("dict: the restored schema is written as another dictionary", {"op": "snap", "orig": show(snapshot), "got": show(d_again)}))
            _edit_schema(s, edit, donors)
            _edit_restored(r1, edit, donors)
            if not same_value(d, snapshot):
                fails.append(("dict: the dictionary to_dict returned changed when the schema was modified afterwards",
                              {"op": "snap", "orig": show(snapshot), "got": show(d)}))
            r2 = S.RelationSchema.from_dict(copy.deepcopy(snapshot) if fails else d)
            for what, x, y in _schema_diffs(orig, r2):
                fails.append(("dict: loading the dictionary again (after the schema and the first restored schema were modified) "
                              "does not restore the schema as it was written", {"op": "snap", "attr": what, "orig": show(x), "got": show(y)}))
                break
            if not fails and not (r2 == orig) and not any(_has_nan(c) for c in orig.columns):
                fails.append(("dict: restored schema != original (dataclass equality)", {"op": "snap"}))
            # write -> modify -> write again: the second dictionary describes the schema as it is now
            r3 = S.RelationSchema.from_dict(s.to_dict())
            for what, x, y in _schema_diffs(s, r3):
                fails.append(("dict: after the schema was modified, writing and loading it again does not give the modified schema",
                              {"op": "snap", "attr": what, "orig": show(x), "got": show(y)}))
                break
            # the other direction: the dictionary is the caller's to modify
            s2 = _build_schema(case)
            d2 = s2.to_dict()
            _edit_dict(d2, edit)
            for what, x, y in _schema_diffs(orig, s2):
                fails.append(("dict: modifying the dictionary to_dict returned changes the schema",
                              {"op": "snap", "attr": what, "orig": show(x), "got": show(y)}))
                break
        except Exception as e:
            cls = type(e).__name__
            fails.append(("dict: a to_dict / from_dict sequence raised %s" % cls, {"op": "snap", "raised": cls, "message": str(e)[:200]}))
            return fails, None, None, None
    from orso.types import OrsoTypes

    def vty(t):
        if t is OrsoTypes._MISSING_TYPE:
            return None
        e = enc_ty(t)
        return "0" if e == 0 and not isinstance(e, bool) else e

    impl = [["ok", r2.name, r2.aliases, r2.primary_key, [enc_col(c) for c in r2.columns]], [[c.name, vty(c.type), c.nullable] for c in r2.columns], None]
    return fails, impl, line, "dict"


def run_json2(case):
    S, _ = _orso()
    fails = []
    with warnings.catch_warnings():
        warnings.simplefilter("ignore")
        c = construct(case["col"])
        orig = construct(case["col"])
        donor = construct(dict(case["col"], **case["then"]))
        enc = enc_col(orig)
        line = None if has_other(enc) else "C16 json " + wire.line(enc, "fresh")
        try:
            j = c.to_json()
            r1 = S.FlatColumn.from_json(j)
        except Exception:
            return [], None, None, None  # the `json` kind reports it (known findings K01)
        if attr_diffs(orig, r1, LISTED):
            return [], None, None, None  # the `json` kind reports it (known findings K02)
        try:
            j1 = r1.to_json()
            if j1 != j:
                fails.append(("json: the restored column is written as other JSON", {"op": "json2", "orig": show(j), "got": show(j1)}))
            for k in case["then"]:
                setattr(c, k, getattr(donor, k))
                setattr(r1, k, getattr(donor, k))
            r2 = S.FlatColumn.from_json(j)
        except Exception as e:
            cls = type(e).__name__
            fails.append(("json: a to_json / from_json sequence raised %s" % cls, {"op": "json2", "raised": cls, "message": str(e)[:200]}))
            return fails, None, None, None
        try:
            r3 = S.FlatColumn.from_json(c.to_json())
        except Exception:
            r3 = None  # the assigned values may be ones JSON does not carry (K01)
        if r3 is not None:
            for attr, x, y in attr_diffs(c, r3, [k for k in ("nullable", "aliases", "description", "null_count") if k in case["then"]]):
                fails.append(("json: after the column was modified, writing and loading it again does not give the modified column",
                              {"op": "json2", "attr": attr, "orig": show(x), "got": show(y)}))
                break
        for attr, x, y in attr_diffs(orig, r2, LISTED):
            fails.append(("json: loading the JSON again (after the column and the first restored column were modified) does not restore "
                          "the column as it was written", {"op": "json2", "attr": attr, "orig": show(x), "got": show(y)}))
            break
    return fails, ["ok", enc_col(r2)], line, "json"


def run_init(case):
    """correspondence only: FlatColumn(**kw) and the re-construction from its attributes"""
    S, _ = _orso()
    try:
        c = construct(case["col"])
    except Exception as e:
        cls = type(e).__name__
        first = ["err", "ValueError" if isinstance(e, ValueError) else cls]
        raw = raw_wire(case["col"], None)
        line = None if raw is None else "C16 init " + wire.line(raw, "fresh")
        return [], [first, None], line, "init"
    raw = raw_wire(case["col"], c.identity)
    line = None if raw is None else "C16 init " + wire.line(raw, c.identity)
    try:
        with warnings.catch_warnings():
            warnings.simplefilter("ignore")
            c2 = S.FlatColumn(**{f: getattr(c, f) for f in FIELDS})
        second = ["ok", enc_col(c2)]
    except Exception as e:
        second = ["err", "ValueError" if isinstance(e, ValueError) else type(e).__name__]
    return [], [["ok", enc_col(c)], second], line, "init"


HAND = ("twice", "dict-mutated-after-load", "missing-keys", "extra-keys", "entries", "none-keys", "copies")


def run_hand(case):
    """Sequences and hand-written dictionaries (fourth pass).  The reference is what the unchanged tree does, as the
    theorems state it (`generated_schema_from_dict_eq_model` / `fromDictE`, `generated_schema_from_dict_by_hand`,
    `declared_defaults`): `name` / `columns` absent -> KeyError, `aliases` absent -> [], `primary_key` absent -> None, a column
    entry that is a name -> FlatColumn(name=...) with the declared defaults, an entry that is neither a dictionary nor a name is
    skipped, unknown keys are ignored, an explicit None for an Optional attribute is the absent key."""
    import copy
    import pickle

    S, _ = _orso()
    which = case["which"]
    fails = []

    def bad(clause, **detail):
        fails.append(("hand: " + clause, dict(detail, op="hand", which=which)))

    with warnings.catch_warnings():
        warnings.simplefilter("ignore")
        try:
            col = construct(case["col"])
            other = S.FlatColumn(name="zz", identity="id-zz", aliases=["q"])
            s = S.RelationSchema(name="t", aliases=["u", "u"], columns=[col, other], primary_key=col.name)
            d = s.to_dict()
            r0 = S.RelationSchema.from_dict(copy.deepcopy(d))
        except Exception:
            return [], None, None, None   # outside this kind's domain (the plain kinds report it)
        if _schema_diffs(s, r0):
            return [], None, None, None   # the plain round trip differs already (reported by the schema kind)
        try:
            if which == "twice":
                d2 = s.to_dict()
                if not same_value(d, d2):
                    bad("to_dict called twice gives two different dictionaries")
                pairs = [(d["aliases"], s.aliases), (d["aliases"], d2["aliases"]), (d["columns"], s.columns), (d["columns"], d2["columns"])]
                for i, c in enumerate(s.columns):
                    pairs += [(d["columns"][i], d2["columns"][i]), (d["columns"][i]["aliases"], c.aliases),
                              (d["columns"][i]["aliases"], d2["columns"][i]["aliases"]), (d["columns"][i]["origin"], c.origin)]
                for x, y in pairs:
                    if x is y and isinstance(x, (list, dict)):
                        bad("to_dict hands out a list / dictionary it shares with the schema or with an earlier result")
                        break
                d["aliases"].append("w"), d["columns"][0]["aliases"].append("w"), d["columns"].pop()
                if not same_value(s.to_dict(), d2):
                    bad("editing the dictionary to_dict returned changes what to_dict returns next")
            elif which == "dict-mutated-after-load":
                r = S.RelationSchema.from_dict(d)
                d["name"], d["primary_key"] = "other", "other"
                d["columns"][0]["name"] = "other"
                d["columns"][0]["nullable"] = not d["columns"][0]["nullable"]
                d["columns"].clear()
                for what, x, y in _schema_diffs(r0, r):
                    bad("changing the dictionary after from_dict changes the loaded schema", attr=what, orig=show(x), got=show(y))
                    break
            elif which == "missing-keys":
                m = S.RelationSchema.from_dict({"name": "t", "columns": copy.deepcopy(d["columns"])})
                if m.aliases != [] or m.primary_key is not None:
                    bad("absent aliases / primary_key keys are not the declared defaults", got=show([m.aliases, m.primary_key]))
                if _schema_diffs(S.RelationSchema(name="t", columns=list(s.columns)), m):
                    bad("a dictionary without aliases / primary_key loads other columns")
                for k in ("name", "columns"):
                    dd = copy.deepcopy(d)
                    del dd[k]
                    try:
                        S.RelationSchema.from_dict(dd)
                        bad("a dictionary without the %s key is accepted" % k)
                    except KeyError:
                        pass
                def is_declared_default(k, v):
                    if k in ("name", "type", "identity", "element_type"):
                        return False
                    return v is None or (k == "nullable" and v is True) or (k in ("aliases", "expectations", "origin") and v == [])

                cd = {k: v for k, v in d["columns"][0].items() if not is_declared_default(k, v)}
                m2 = S.FlatColumn.from_dict(cd)
                for attr, x, y in attr_diffs(r0.columns[0], m2, LISTED):
                    bad("a column dictionary without the keys that hold the declared default loads another column", attr=attr,
                        orig=show(x), got=show(y))
            elif which == "extra-keys":
                dd = copy.deepcopy(d)
                dd["zzz"] = 1
                for c in dd["columns"]:
                    c["zzz"] = [1]
                for what, x, y in _schema_diffs(r0, S.RelationSchema.from_dict(dd)):
                    bad("unknown keys change the loaded schema", attr=what, orig=show(x), got=show(y))
                    break
            elif which == "entries":
                m = S.RelationSchema.from_dict({"name": "t", "columns": [col.name, 5, None, copy.deepcopy(d["columns"][0]), ("x",)]})
                if len(m.columns) != 2:
                    bad("column entries [name, 5, None, dictionary, tuple] load %d columns (a name and a dictionary are loaded, the rest skipped)"
                        % len(m.columns))
                else:
                    ref = S.FlatColumn(name=col.name, identity=m.columns[0].identity)
                    for attr, x, y in attr_diffs(ref, m.columns[0], LISTED):
                        bad("a column entry that is a name does not load as FlatColumn(name=...)", attr=attr, orig=show(x), got=show(y))
                    for attr, x, y in attr_diffs(r0.columns[0], m.columns[1], LISTED):
                        bad("a dictionary entry next to other entries loads another column", attr=attr, orig=show(x), got=show(y))
            elif which == "none-keys":
                cd = copy.deepcopy(d["columns"][0])
                # (the element type is left as written: an ARRAY's explicit null element type is what F09 reads, `from_dict_only_repairs`)
                absent = {k: v for k, v in cd.items() if v is not None or k == "element_type"}
                a, b = S.FlatColumn.from_dict(cd), S.FlatColumn.from_dict(absent)
                for attr, x, y in attr_diffs(a, b, LISTED):
                    bad("an explicit None differs from the absent key", attr=attr, orig=show(x), got=show(y))
            elif which == "copies":
                for nm, f in (("copy.deepcopy", copy.deepcopy), ("pickle", lambda x: pickle.loads(pickle.dumps(x))), ("copy.copy", copy.copy)):
                    c2 = f(s)
                    if _schema_diffs(s, c2) or not same_value(c2.to_dict(), d):
                        bad("%s of a schema is not written as the same dictionary" % nm)
                    for what, x, y in _schema_diffs(s, S.RelationSchema.from_dict(c2.to_dict())):
                        bad("the %s of a schema does not round-trip" % nm, attr=what)
                        break
        except Exception as e:
            bad("%s raised %s" % (which, type(e).__name__), message=str(e)[:200])
    return fails, None, None, None


# --------------------------------------------------------------------------- sessions: a schema with a history (fifth pass)

SESSION_OPS = ("set", "type", "rename", "alias", "add", "remove", "replace", "reverse", "relist")
SESSION_SET = ["nullable", "aliases", "description", "default", "lowest_value", "highest_value", "null_count", "identity"]
SESSION_VIA = ("validate", "append", "both", "none")
TYPE_MEMBERS = BASE + ["_MISSING_TYPE"]


def _session_apply(s, e):
    """one in-place edit of a schema (columns are mutable dataclasses, `columns` a plain list)"""
    S, OrsoTypes = _orso()
    op, cols = e["op"], s.columns
    i = e.get("col")
    if op in ("set", "type", "rename", "alias", "remove", "replace") and not (i is not None and i < len(cols)):
        return
    if op == "set":
        setattr(cols[i], e["attr"], copy.deepcopy(to_py(e["value"])))
    elif op == "type":
        cols[i].type = OrsoTypes[e["to"]]
    elif op == "rename":
        cols[i].name = e["to"]
    elif op == "alias":
        if isinstance(cols[i].aliases, list):
            cols[i].aliases.append(e["append"])
    elif op == "add":
        cols.append(construct(e["spec"]))
    elif op == "remove":
        del cols[i]
    elif op == "replace":
        cols[i] = construct(e["spec"])
    elif op == "reverse":
        cols.reverse()
    elif op == "relist":
        s.columns = list(cols)


def _session_use(s, frame, via, recs):
    """the schema is in use: records are validated against it, directly and / or through DataFrame.append"""
    for tags in recs:
        if via in ("validate", "both"):
            validate_outcome(s, tags)
        if via in ("append", "both") and frame is not None:
            try:
                frame.append({k: c05.POOL[t] for k, t in tags.items()})
            except Exception:
                pass


def _vread(s):
    return [(c.name, c.type, c.nullable) for c in s.columns]


def run_session(case):
    """build -> validate some records -> edit in place -> to_dict / from_dict (and to_json / from_json per column) -> the same
    battery of records to the original, to the restored schema, to an equal schema that never validated (same edits) and to a
    schema freshly constructed from the current name / type / nullable of the columns: the four give the same outcome."""
    S, _ = _orso()
    from orso import DataFrame

    fails = []
    via = case["via"]
    with warnings.catch_warnings():
        warnings.simplefilter("ignore")
        warm, cold = _build_schema(case), _build_schema(case)
        frame = None
        if via in ("append", "both"):
            try:
                frame = DataFrame(rows=[], schema=warm)
            except Exception:
                frame = None
        restored = None
        rw = None
        typed_edit = False
        for phase, steps in enumerate((case["steps"], case.get("steps2") or [])):
            if phase == 1 and not steps:
                break
            _session_use(warm, frame, via, case["warm"])
            for e in steps:
                typed_edit = typed_edit or e["op"] in ("type", "add", "replace")
                try:
                    _session_apply(warm, e)
                    _session_apply(cold, e)
                    if restored is not None:
                        _session_apply(restored, e)
                except Exception as ex:
                    raise InfraError("session edit %r failed: %r" % (e, ex))
                if case.get("rewarm"):
                    _session_use(warm, frame, via, case["warm"])
            # the reference: an equal schema with the same edits and no history
            try:
                rc = S.RelationSchema.from_dict(cold.to_dict())
            except Exception:
                return fails, None, None, None  # the edited declaration itself does not load (e.g. a default of the old type)
            if _vread(rc) != _vread(cold):
                # C16.restored_validates_same_any_state: whatever state the columns are in, a dictionary that loads shows
                # validate the same (name, type, nullable) - also without any history
                fails.append(("session: the schema restored after in-place edits differs in the name, type or nullability of a column",
                              {"op": "session", "phase": phase, "original": show([[c.name, enc_ty(c.type), c.nullable] for c in cold.columns]),
                               "other": show([[c.name, enc_ty(c.type), c.nullable] for c in rc.columns])}))
                return fails, None, None, None
            try:
                rw = S.RelationSchema.from_dict(warm.to_dict())
            except Exception as ex:
                cls = type(ex).__name__
                fails.append(("session: from_dict(to_dict(schema)) raised %s for a schema that had validated records, not for an equal "
                              "schema that had not" % cls, {"op": "session", "raised": cls, "message": str(ex)[:200]}))
                return fails, None, None, None
            try:
                fresh = S.RelationSchema(name=warm.name, columns=[S.FlatColumn(name=c.name, type=c.type, nullable=c.nullable) for c in warm.columns])
                if _vread(fresh) != _vread(warm):
                    fresh = None
            except Exception:
                fresh = None
            try:
                rj = S.RelationSchema(name=warm.name, columns=[S.FlatColumn.from_json(c.to_json()) for c in warm.columns])
                if _vread(rj) != _vread(warm):
                    fails.append(("session: the columns restored through to_json / from_json after in-place edits differ in name, type or nullability",
                                  {"op": "session", "phase": phase, "original": show([[c.name, enc_ty(c.type), c.nullable] for c in warm.columns]),
                                   "other": show([[c.name, enc_ty(c.type), c.nullable] for c in rj.columns])}))
                    rj = None
            except Exception:
                rj = None  # JSON does not carry every value (K01)
            others = [("its restored copy (from_dict(to_dict(schema)))", rw),
                      ("an equal schema, edited the same way, that never validated a record", cold),
                      ("a schema freshly constructed from the columns' current name, type and nullability", fresh),
                      ("the schema whose columns went through to_json / from_json", rj)]
            if restored is not None:
                others.append(("the copy restored earlier and edited the same way", restored))
            seen = set()
            for tags in case["records"]:
                v0 = c05.canon(validate_outcome(warm, tags))
                for what, o in others:
                    if o is None or what in seen:
                        continue
                    v1 = c05.canon(validate_outcome(o, tags))
                    if v0 != v1:
                        seen.add(what)
                        fails.append(("session: a schema that validated records and was then edited in place judges a record differently from "
                                      + what, {"op": "session", "phase": phase, "record": tags, "original": show(v0), "other": show(v1),
                                               "columns_now": [[c.name, enc_ty(c.type), c.nullable] for c in warm.columns]}))
            d0 = describe(warm)
            for what, o in others[:2] if not typed_edit else others[1:2]:
                d1 = describe(o)
                if d0 != d1:
                    fails.append(("session: a schema that validated records and was then edited in place reports another description than "
                                  + what, {"op": "session", "phase": phase, "original": d0, "other": d1}))
            if restored is None:
                restored = rw
    from orso.types import OrsoTypes

    def vty(t):
        if t is OrsoTypes._MISSING_TYPE:
            return None
        e = enc_ty(t)
        return "0" if e == 0 and not isinstance(e, bool) else e

    line = None
    # the driver's caster models casts of values of the type's own class only: a type assigned in place next to a default of
    # the old type, or a raw value assigned as default / statistic, is outside its domain
    in_domain = all(e["op"] != "type" and not (e["op"] == "set" and e["attr"] in ("default", "highest_value", "lowest_value"))
                    for e in case["steps"])
    try:
        encs = [enc_col(c) for c in cold.columns]
        if not has_other(encs) and not (case.get("steps2") or []):
            line = "C16 dict " + wire.line(cold.name, list(cold.aliases), cold.primary_key, encs, "fresh")
    except Exception:
        line = None
    impl = [["ok", rw.name, rw.aliases, rw.primary_key, [enc_col(c) for c in rw.columns]], [[c.name, vty(c.type), c.nullable] for c in rw.columns], None]
    # outside the caster's domain only what validate reads is compared, and only when the model's load succeeds
    # (C16.restored_validates_same_any_state is conditional on that)
    return fails, impl, line, "dict" if in_domain else "dict-vcols"


def _valid_session(c):
    if c.get("via") not in SESSION_VIA or not isinstance(c.get("rewarm", False), bool):
        return False
    for key in ("warm", "records"):
        for tags in c[key]:
            if not isinstance(tags, dict) or not all(isinstance(k, str) and t in c05.POOL for k, t in tags.items()):
                return False
    for steps in (c["steps"], c.get("steps2") or []):
        if not isinstance(steps, list):
            return False
        for e in steps:
            if not isinstance(e, dict) or e.get("op") not in SESSION_OPS:
                return False
            if "col" in e and not (isinstance(e["col"], int) and not isinstance(e["col"], bool) and e["col"] >= 0):
                return False
            op = e["op"]
            if op in ("set", "type", "rename", "alias", "remove", "replace") and "col" not in e:
                return False
            if op == "set":
                if e.get("attr") not in SESSION_SET or "value" not in e:
                    return False
                v = to_py(e["value"])
                a = e["attr"]
                if a == "nullable" and not isinstance(v, bool):
                    return False
                if a == "aliases" and not (isinstance(v, list) and all(isinstance(x, str) for x in v)):
                    return False
                if a == "identity" and not isinstance(v, str):
                    return False
                if a == "description" and not (v is None or isinstance(v, str)):
                    return False
                if a == "null_count" and not (v is None or (isinstance(v, int) and not isinstance(v, bool) and v >= 0)):
                    return False
            if op == "type" and e.get("to") not in TYPE_MEMBERS:
                return False
            if op == "rename" and not isinstance(e.get("to"), str):
                return False
            if op == "alias" and not isinstance(e.get("append"), str):
                return False
            if op in ("add", "replace"):
                if not valid_case({"kind": "flat", "col": e.get("spec")}) or e["spec"].get("cls", "FlatColumn") != "FlatColumn":
                    return False
    return True


RUNNERS = {"session": run_session, "hand": run_hand, "schema": run_schema, "json": run_json, "flat": run_flat, "flat2": run_flat2, "snap": run_snap, "json2": run_json2,
           "init": run_init}
EDIT_KEYS = {"aliases_append", "pk", "name", "col", "then", "col_alias_append", "drop_last"}


def valid_case(c):
    try:
        if not isinstance(c, dict) or c.get("kind") not in RUNNERS:
            return False
        specs = c["cols"] if c["kind"] in ("schema", "snap", "session") else [c["col"]]
        if c["kind"] == "hand" and c.get("which") not in HAND:
            return False
        if c["kind"] == "session" and not _valid_session(c):
            return False
        if c["kind"] in ("schema", "snap", "session"):
            if not isinstance(c["name"], str) or not isinstance(c["aliases"], list) or not all(isinstance(a, str) for a in c["aliases"]):
                return False
            if not (c["pk"] is None or isinstance(c["pk"], str)):
                return False
            for tags in c.get("records", []):
                if not isinstance(tags, dict) or not all(t in c05.POOL for t in tags.values()):
                    return False
        for sp in specs:
            if not isinstance(sp, dict) or not isinstance(sp.get("name"), str):
                return False
            if sp.get("cls", "FlatColumn") not in COLUMN_CLASSES:
                return False
            for k in sp:
                if k not in FIELDS and k != "cls":
                    return False
            if "expectations" in sp or not isinstance(sp.get("identity", ""), str):
                return False
            for k in ("aliases", "origin"):
                if k in sp and sp[k] is not None and not (isinstance(sp[k], list) and all(isinstance(a, str) for a in sp[k])):
                    return False
            for k in ("length", "precision", "scale", "null_count"):
                if k in sp and sp[k] is not None and not (isinstance(sp[k], int) and not isinstance(sp[k], bool) and sp[k] >= 0):
                    if not (c["kind"] in ("flat", "flat2") and k in OTHER_KIND_COUNTS and isinstance(sp[k], dict)
                            and sp[k].get("__py__") == "np" and str(sp[k].get("v", "")).startswith(("int", "uint"))
                            and to_py(sp[k]) >= 0):
                        return False
            if "nullable" in sp and not isinstance(sp["nullable"], bool):
                return False
            if "description" in sp and not (sp["description"] is None or isinstance(sp["description"], str)):
                return False
            if c["kind"] != "init":
                construct(sp)  # the original must be constructible
        if c["kind"] in ("flat2", "json2"):
            if not isinstance(c.get("then"), dict) or not c["then"] or not all(k in MUTABLE for k in c["then"]):
                return False
            if not valid_case({"kind": "flat", "col": dict(c["col"], **c["then"])}):
                return False
        if c["kind"] == "snap":
            e = c.get("edit")
            if not isinstance(e, dict) or not e or not set(e) <= EDIT_KEYS:
                return False
            for k in ("aliases_append", "name", "col_alias_append"):
                if k in e and not isinstance(e[k], str):
                    return False
            if "pk" in e and not (e["pk"] is None or isinstance(e["pk"], str)):
                return False
            if "col" in e and not (isinstance(e["col"], int) and not isinstance(e["col"], bool) and 0 <= e["col"]):
                return False
            if "then" in e:
                if "col" not in e or e["col"] >= len(specs) or not isinstance(e["then"], dict) or not all(k in MUTABLE for k in e["then"]):
                    return False
                if not valid_case({"kind": "flat", "col": dict(specs[e["col"]], **e["then"])}):
                    return False
        return True
    except Exception:
        return False


def failing_clauses(case):
    return [f[0] for f in RUNNERS[case["kind"]](case)[0]]


def _plain(x):
    if isinstance(x, dict) and "__other__" in x:
        return ["__other__", x["__other__"]]
    if isinstance(x, dict):
        return {k: _plain(v) for k, v in x.items()}
    if isinstance(x, (list, tuple)):
        return [_plain(v) for v in x]
    return x


def model_init_expected(m):
    return m


def evaluate(ctx, cases):
    runs = []
    lines, idx = [], []
    checked = []
    for c in cases:
        if valid_case(c):
            checked.append(c)
            continue
        # a case of the fixed lists whose *original* column the constructor of this tree refuses: that is a statement about
        # the constructor, not a harness fault -- the constructor call is compared with the model instead (kind `init`)
        subs = []
        if isinstance(c, dict) and c.get("kind") in RUNNERS and c.get("kind") != "init":
            for sp in (c.get("cols") if c["kind"] in ("schema", "snap", "session") else [c.get("col")]) or []:
                sub = {"kind": "init", "col": {k: v for k, v in sp.items() if k != "cls"}} if isinstance(sp, dict) else None
                if sub is not None and valid_case(sub):
                    try:
                        construct(sp)
                    except Exception:
                        subs.append(sub)
        if not subs:
            raise InfraError("generator produced an invalid case %r" % (c,))
        ctx.hit("original-not-constructible:checked-as-constructor-call")
        checked.extend(subs)
    cases = checked
    for i, c in enumerate(cases):
        fails, impl, line, op = RUNNERS[c["kind"]](c)
        runs.append((fails, impl, op))
        if line is not None:
            idx.append(i)
            lines.append(line)
            if c["kind"] == "init" and impl[0][0] == "ok":
                # second line: the constructor applied to the attributes of the model's own result is checked in Lean;
                # here the implementation's re-construction is compared with the first result
                pass
    mouts = dict(zip(idx, ctx.model.batch(lines)))
    open_known = [k for k in ctx.known if k.get("status") == "open"]
    for i, c in enumerate(cases):
        fails, impl, op = runs[i]
        specs = c["cols"] if c["kind"] in ("schema", "snap", "session") else [c["col"]]
        ctx.case(c, nontrivial=len(specs) > 0)
        if c["kind"] == "snap":
            for k in c["edit"]:
                ctx.hit("edit:" + k)
        if c["kind"] == "session":
            ctx.hit("session-via:" + c["via"])
            ctx.hit("session-steps:%d%s" % (len(c["steps"]), "+%d" % len(c["steps2"]) if c.get("steps2") else ""))
            for e in c["steps"] + (c.get("steps2") or []):
                ctx.hit("session-edit:" + e["op"] + (":" + e["attr"] if e["op"] == "set" else ""))
            if op is None and impl is None and not fails:
                ctx.hit("sequence-skipped:edited-declaration-does-not-load(session)")
        if op is None and impl is None and not fails and c["kind"] in ("snap", "json2"):
            ctx.hit("sequence-skipped:plain-round-trip-differs(%s)" % c["kind"])
        ctx.hit("kind:" + c["kind"])
        if c["kind"] == "hand":
            ctx.hit("hand:" + c["which"])
        for sp in specs:
            ctx.hit("class:" + sp.get("cls", "FlatColumn"))
            t = sp.get("type", "absent")
            ctx.hit("type-form:" + ("absent" if t == "absent" else "None" if t is None else t[0] + ":" + _form(t)))
            for k in ("aliases", "default", "description", "disposition", "highest_value", "null_count", "length", "origin"):
                if sp.get(k) not in (None, [], "absent") and k in sp:
                    ctx.hit("with:" + k)
            if sp.get("nullable") is False:
                ctx.hit("with:non-nullable")
        m = None
        if i in mouts:
            mo = mouts[i]
            if not mo.startswith("ok "):
                raise InfraError("model rejected case %r: %r" % (c, mo))
            m = wire.dec_all(mo[3:])
            ctx.hit("compared-with-model")
        for clause, detail in fails:
            failure = {"clause": clause, "impl": None, "model": None, "detail": detail}
            c_min = c
            if any(v.get("sig") == clause for v in ctx.violations):
                ctx.fail(c, clause, detail=detail)  # counted as a duplicate; no second minimisation of the same clause
                continue
            if not ctx.replaying and not any(match_known(ctx.prop_id, k, c, failure) for k in open_known):
                def still(c2, clause=clause):
                    return valid_case(c2) and clause in failing_clauses(c2)

                start = c
                if c["kind"] == "session" and isinstance(detail, dict) and "record" in detail:
                    # the battery down to the record that is judged differently, before the generic minimisation
                    one = dict(c, records=[detail["record"]])
                    if still(one):
                        start = one
                c_min = shrink(start, still, budget=200)
                d2 = [f[1] for f in RUNNERS[c_min["kind"]](c_min)[0] if f[0] == clause]
                detail = d2[0] if d2 else detail
            ctx.fail(c_min, clause, impl=_plain(impl) if c_min is c else None, model=m if c_min is c else None, detail=detail)
            ctx.hit("oracle-fail:" + clause.split(":")[0])
        if m is None:
            continue
        # correspondence
        if op == "init":
            first, second = impl
            if not wire.same(_plain(first), m[0]):
                ctx.disagree(c, first, m[0], "FlatColumn(**kwargs) differs from the model's init")
            elif first[0] == "ok" and second is not None and not wire.same(_plain(second), _plain(first)):
                # init_idempotent is a theorem of the model: the implementation leaves it here
                ctx.disagree(c, second, first, "re-constructing a column from its attributes changes it (model: init_idempotent)")
            ctx.hit("init:" + first[0])
        elif op == "dict":
            if impl is not None:
                if m[0][0] == "err" or len(m) != 3:
                    ctx.disagree(c, impl[0], m, "from_dict(to_dict(s)) succeeds, the model raises")
                else:
                    if not wire.same(_plain(impl[0]), m[0]):
                        ctx.disagree(c, impl[0], m[0], "restored schema differs from the model's")
                    elif not wire.same(_plain(impl[1]), m[1]):
                        ctx.disagree(c, impl[1], m[1], "what validate reads of the restored schema differs from the model's")
                    elif len(impl) > 2 and impl[2] is not None and not wire.same(_plain(impl[2]), m[2]):
                        ctx.disagree(c, impl[2], m[2], "description of the restored schema differs from the model's")
        elif op == "dict-vcols":
            if m[0][0] == "err" or len(m) != 3:
                ctx.hit("session-outside-model-domain:model-load-raises")
            elif not wire.same(_plain(impl[1]), m[1]):
                ctx.disagree(c, impl[1], m[1], "what validate reads of the schema restored after in-place edits differs from the model's")
            else:
                ctx.hit("session-outside-model-domain:vcols-compared")
        elif op is None and impl is None:
            pass
        elif op is None:
            # from_dict raised
            if m[0][0] != "err" or m[0][1] != impl[1]:
                ctx.disagree(c, impl, m[0], "from_dict(to_dict(s)) raises, the model does not (or another class)")
        else:
            if not wire.same(_plain(impl), m[0]):
                ctx.disagree(c, impl, m[0], "%s result differs from the model's" % op)


def _form(t):
    if t[0] == "int0":
        return "0"
    s = t[1].upper()
    for pre, f in (("DECIMAL(", "DECIMAL(p,s)"), ("VARCHAR[", "VARCHAR[n]"), ("BLOB[", "BLOB[n]"), ("ARRAY<", "ARRAY<T>")):
        if s.startswith(pre):
            return f
    return s if s in BASE else "alias/other"


# --------------------------------------------------------------------------- generators

DEFAULTS = {
    "BOOLEAN": [True, "yes", "no", False],
    "INTEGER": [7, "12", 0, "0", -5, 2**70, 2**63],
    "DOUBLE": [1.5, "2.5", 0.0, 5, -0.0, py("float", "nan"), py("float", "inf")],
    "DECIMAL": ["1.5", py("Decimal", "2.50"), 3, py("Decimal", "0")],
    "VARCHAR": ["abc", "", "0", "é日\U0001f600", "x" * 40],
    "BLOB": [py("bytes", "6162ff"), "text", py("bytes", "")],
    "DATE": ["2020-01-02", py("date", "2024-02-29"), py("datetime", "2020-01-02T03:04:05")],
    "TIMESTAMP": ["2020-01-02 03:04:05", py("datetime", "2020-01-02T03:04:05.123456"), 1600000000, py("date", "2020-01-02"),
                  "2020-01-02T03:04:05.250Z"],
    "TIME": ["2020-01-02 03:04:05", py("time", "03:04:05")],
    "INTERVAL": [5, py("timedelta", "86405000000"), py("timedelta", "0")],
    "STRUCT": [{"a": 1}, '{"a":1}'],
    "JSONB": ['{"a":1}', py("bytes", "7b7d")],
    "ARRAY": [[1, 2], "[1, 2]", [], ["a", None]],
    "NULL": [5, "x"],
}
STATS = {
    "BOOLEAN": [True, False],
    "INTEGER": [9, -1, 0, 2**70, -(2**63) - 1],
    "DOUBLE": [1.5, -2.25, 0.0, py("float", "nan"), py("float", "-inf")],
    "DECIMAL": [py("Decimal", "1.50"), py("Decimal", "-3")],
    "VARCHAR": ["a", "zz", ""],
    "BLOB": [py("bytes", "00ff"), py("bytes", "")],
    "DATE": [py("date", "2020-01-02"), py("date", "1999-12-31")],
    "TIMESTAMP": [py("datetime", "2020-01-02T03:04:05"), py("datetime", "2021-01-02T03:04:05.5")],
    "TIME": [py("time", "03:04:05")],
    "INTERVAL": [py("timedelta", "5000000")],
    "STRUCT": [None],
    "JSONB": [None],
    "ARRAY": [None, [1]],
    "NULL": [None],
    None: [5, "x", 1.5, None],
}
# raw defaults inside the domain Model/PersistPy.lean models (for the `init` op)
MODELLED_DEFAULTS = {
    "BOOLEAN": [True, False], "INTEGER": [7, "12", 0, "-3", 2**70, "x"], "DOUBLE": [1.5, 0.0], "DECIMAL": [py("Decimal", "2.50")],
    "VARCHAR": ["abc", ""], "BLOB": [py("bytes", "6162ff")], "DATE": ["2020-01-02", py("date", "2024-02-29")],
    "TIMESTAMP": ["2020-01-02T03:04:05", py("datetime", "2020-01-02T03:04:05")], "TIME": [py("time", "03:04:05")],
    "INTERVAL": [py("timedelta", "86405000000")], "STRUCT": [py("bytes", "7b7d")], "JSONB": [py("bytes", "7b7d")],
    "ARRAY": [[1, 2], []], "NULL": [5, "x"],
}


def type_forms(thorough=False):
    """(type spec or 'absent', base type or None)"""
    out = [("absent", None), (["member", "_MISSING_TYPE"], None), (None, None),
           # the int 0 that from_name gives for '0' / VARIANT / MISSING (C06's reading): written as 0, read back as 0
           (["int0"], None), (["text", "VARIANT"], None)]
    for b in BASE:
        out.append((["member", b], b))
        out.append((["text", b], b))
        out.append((["text", b.lower()], b))
    for p, s in [(10, 2), (38, 38), (0, 0), (38, 0), (28, 21), (5, 5)] + ([(p, s) for p in range(0, 39, 6) for s in range(0, p + 1, 5)] if thorough else []):
        out.append((["text", "DECIMAL(%d,%d)" % (p, s)], "DECIMAL"))
    out.append((["text", "decimal(10, 2)"], "DECIMAL"))
    for n in [0, 1, 12, 255, 65535] + ([10**20, 7, 40] if thorough else []):
        out.append((["text", "VARCHAR[%d]" % n], "VARCHAR"))
        out.append((["text", "BLOB[%d]" % n], "BLOB"))
    for t in SCALAR:
        out.append((["text", "ARRAY<%s>" % t], "ARRAY"))
    out.append((["text", "array<integer>"], "ARRAY"))
    for a, b in (("LIST", "ARRAY"), ("NUMERIC", "DOUBLE"), ("BSON", "JSONB")):
        out.append((["text", a], b))
    return out


TOGGLES = ["aliases", "default", "description", "disposition", "statistics", "non-nullable"]


def column_spec(name, form, base, toggles, rng=None, pick=0):
    sp = {"name": name, "identity": "id-" + name}
    if form != "absent":
        sp["type"] = form
    if "aliases" in toggles:
        sp["aliases"] = ["al_" + name, "x"] if pick % 2 == 0 else ["only"]
    if "default" in toggles and base is not None:
        ds = DEFAULTS[base]
        sp["default"] = rng.choice(ds) if rng else ds[pick % len(ds)]
    if "description" in toggles:
        sp["description"] = "the column %s" % name if pick % 3 else ""
    if "disposition" in toggles:
        sp["disposition"] = ["member", "NAME" if pick % 2 else "AGE"]
    if "statistics" in toggles:
        st = STATS[base]
        sp["highest_value"] = rng.choice(st) if rng else st[pick % len(st)]
        sp["lowest_value"] = rng.choice(st) if rng else st[(pick + 1) % len(st)]
        sp["null_count"] = pick % 4
    if "non-nullable" in toggles:
        sp["nullable"] = False
    return sp


def records_for(cols, rng, n=4):
    """value-tag records (C05's pool) for the column names"""
    names = [sp["name"] for sp in cols]
    tags = [t for t in c05.POOL if t != "int70"]
    out = []
    for _ in range(n):
        rec = {}
        for nm in names:
            r = rng.random()
            if r < 0.12:
                continue
            rec[nm] = "none" if r < 0.3 else rng.choice(tags)
        if rng.random() < 0.15:
            rec["zz_extra"] = rng.choice(tags)
        out.append(rec)
    return out


def decision_records(name):
    """every value kind of C05's pool, null, and the missing column, for a one-column schema"""
    return [{name: t} for t in c05.POOL if t != "int70"] + [{}, {name: "none", "zz": "int"}]


def exhaustive_cases(ctx):
    thorough = ctx.tier == "thorough"
    forms = type_forms(thorough)
    n = 0
    for fi, (form, base) in enumerate(forms):
        for mask in range(1 << len(TOGGLES)):
            toggles = [t for b, t in enumerate(TOGGLES) if mask >> b & 1]
            if not thorough and fi % 4 != mask % 4 and mask not in (0, 63) and bin(mask).count("1") != 1:
                continue  # quick tier: every form x {none, each single, all} + a quarter of the other subsets
            picks = range(len(DEFAULTS[base])) if (base and toggles == ["default"]) else \
                (range(len(STATS[base])) if toggles == ["statistics"] else [fi + mask])
            for pick in picks:
                sp = column_spec("c", form, base, toggles, pick=pick)
                n += 1
                yield {"kind": "schema", "name": "t", "aliases": ["tt"] if mask & 1 else [], "pk": "c" if mask & 2 else None,
                       "cols": [sp], "records": decision_records("c") if mask in (0, 32) else [{"c": "int"}, {"c": "none"}, {}]}
                yield {"kind": "json", "col": sp}
                yield {"kind": "flat", "col": sp}
    # every column class for flattening, over every base type with and without each attribute
    for cls in COLUMN_CLASSES:
        for fi, (form, base) in enumerate(forms):
            for toggles in ([], TOGGLES, ["default"], ["statistics"], ["aliases", "description"]):
                sp = column_spec("f", form, base, toggles, pick=fi)
                sp["cls"] = cls
                if fi % 3 == 0:
                    sp["length"] = 5
                    sp["origin"] = ["src"]
                yield {"kind": "flat", "col": sp}
    # an ARRAY column whose element type is given by keyword: every member, including the ones the ARRAY<T>
    # name form cannot express (ARRAY, DECIMAL, untyped) - seeded change C16-w2s1
    for form in (["member", "ARRAY"], ["text", "ARRAY"], ["text", "LIST"], ["text", "ARRAY<INTEGER>"]):
        # ... and element types given as literals: a name, a lower-case name, the int 0 / '0' / 'VARIANT' (stored as the int 0)
        for ets in [["member", et] for et in ELEMENT_MEMBERS] + [["text", "INTEGER"], ["text", "varchar"], ["text", "0"], ["int0"],
                                                                  ["text", "VARIANT"]]:
            for toggles in ([], ["aliases", "non-nullable"]):
                sp = dict(column_spec("e", form, "ARRAY", toggles), element_type=ets)
                yield {"kind": "schema", "name": "t", "aliases": [], "pk": None, "cols": [sp], "records": [{"e": "none"}, {}]}
                yield {"kind": "json", "col": sp}
                yield {"kind": "flat", "col": sp}
    # flatten, update, flatten again (seeded change C16-s2: a memoised flat copy goes stale)
    for cls in COLUMN_CLASSES:
        for fi, (form, base) in enumerate(forms):
            if not thorough and fi % 3 != COLUMN_CLASSES.index(cls) % 3:
                continue
            for t0, t1 in (([], ["statistics"]), (["aliases"], ["aliases", "non-nullable"]), (TOGGLES, ["description", "statistics"]),
                           ([], ["default", "description"])):
                sp = column_spec("g", form, base, t0, pick=fi)
                sp["cls"] = cls
                sp2 = column_spec("g", form, base, t1, pick=fi + 1)
                then = {k: sp2[k] for k in MUTABLE if k in sp2 and sp2[k] != sp.get(k)}
                if then:
                    yield {"kind": "flat2", "col": sp, "then": then}
    # sequences on one schema / one column: write, load, modify, load again (state shared between the written form, the
    # schema and the restored schema; loaders that remember an earlier result)
    edits = [
        {"aliases_append": "later"}, {"pk": "other"}, {"name": "renamed"}, {"col": 0, "col_alias_append": "later"},
        {"col": 0, "then": None}, {"drop_last": True},
        {"aliases_append": "later", "pk": None, "name": "", "col": 0, "col_alias_append": "x", "then": None, "drop_last": True},
    ]
    for fi, (form, base) in enumerate(forms):
        if not thorough and fi % 2:
            continue
        for ei, e in enumerate(edits):
            t0 = [TOGGLES, ["aliases"], [], ["statistics", "aliases"]][(fi + ei) % 4]
            sp = column_spec("s", form, base, t0, pick=fi)
            sp2 = column_spec("s", form, base, ["statistics", "description", "non-nullable"], pick=fi + 1)
            then = {k: sp2[k] for k in MUTABLE if k in sp2 and sp2[k] != sp.get(k)}
            e = dict(e)
            if "then" in e:
                e["then"] = then
                if not then:
                    del e["then"]
            other = column_spec("o", ["member", "INTEGER"], "INTEGER", ["aliases"], pick=fi)
            yield {"kind": "snap", "name": "t", "aliases": ["tt"] if ei % 2 else [], "pk": "s" if ei % 3 == 0 else None,
                   "cols": [sp, other] if ei % 2 == 0 else [sp], "records": [], "edit": e}
        for t0 in ([], TOGGLES, ["default", "aliases"]):
            sp = column_spec("j", form, base, t0, pick=fi)
            sp2 = column_spec("j", form, base, ["description", "non-nullable", "aliases"], pick=fi + 1)
            then = {k: sp2[k] for k in MUTABLE if k in sp2 and sp2[k] != sp.get(k)}
            if then:
                yield {"kind": "json2", "col": sp, "then": then}
    # boundaries: declared parameters exactly 0 and at the DECIMAL limits given by keyword (written next to a bare type
    # name); integers at the edges of what JSON carries
    for form in (["member", "DECIMAL"], ["text", "DECIMAL"], ["text", "decimal"]):
        for p, sc in ((0, 0), (1, 0), (12, 0), (28, 0), (29, 0), (38, 0), (38, 38), (28, 21), (1, 1), (100, 0), (0, 5)):
            sp = dict(column_spec("b", form, "DECIMAL", []), precision=p, scale=sc)
            yield {"kind": "schema", "name": "t", "aliases": [], "pk": None, "cols": [sp], "records": [{"b": "none"}]}
            yield {"kind": "json", "col": sp}
            yield {"kind": "flat", "col": sp}
        for only in ({"precision": 0}, {"scale": 0}, {"precision": 12}, {"scale": 3}):
            sp = dict(column_spec("b", form, "DECIMAL", []), **only)
            yield {"kind": "schema", "name": "t", "aliases": [], "pk": None, "cols": [sp], "records": []}
            yield {"kind": "json", "col": sp}
            yield {"kind": "flat", "col": sp}
    for form, base in ((["member", "VARCHAR"], "VARCHAR"), (["text", "BLOB"], "BLOB"), (["member", "INTEGER"], "INTEGER"), ("absent", None)):
        for n in (0, 1, 2**31, 2**63 - 1, 2**63, 2**64 - 1, 2**64):
            for k in ("length", "null_count"):
                sp = dict(column_spec("b", form, base, []), **{k: n})
                yield {"kind": "schema", "name": "t", "aliases": [], "pk": None, "cols": [sp], "records": []}
                yield {"kind": "json", "col": sp}
                yield {"kind": "flat", "col": sp}
    # defaults at the edge of what the DECIMAL cast keeps (28 / 29 / 38 significant digits), given as text and as Decimal
    for form in (["member", "DECIMAL"], ["text", "DECIMAL"], ["text", "DECIMAL(38,21)"], ["text", "DECIMAL(10,2)"]):
        for dv in ("1234567.123456789012345678901", "12345678.123456789012345678901", "0.1", "1e-21", "99999999999999999.999999999999999999999",
                   py("Decimal", "12345678.123456789012345678901"), py("Decimal", "-0.000000000000000000001")):
            sp = dict(column_spec("b", form, "DECIMAL", []), default=dv)
            yield {"kind": "schema", "name": "t", "aliases": [], "pk": None, "cols": [sp], "records": []}
            yield {"kind": "flat", "col": sp}
            yield {"kind": "flat", "col": dict(sp, cls="ConstantColumn")}
    # temporal defaults with a sub-second part / given as another temporal class, through every route
    for form, base, dvs in ((["text", "TIMESTAMP"], "TIMESTAMP", [py("datetime", "2024-02-29T23:59:59.999999"), "2024-02-29T23:59:59.999999",
                                                                 py("date", "2024-02-29")]),
                            (["text", "DATE"], "DATE", [py("datetime", "2024-02-29T23:59:59.999999"), "2024-02-29 23:59"]),
                            (["text", "TIME"], "TIME", [py("time", "23:59:59.999999"), py("time", "00:00:00"), py("time", "12:30:00"),
                                                        py("datetime", "2024-02-29T23:59:59.999999"), "2024-02-29 23:59:59"])):
        for dv in dvs:
            sp = dict(column_spec("b", form, base, []), default=dv)
            yield {"kind": "schema", "name": "t", "aliases": [], "pk": None, "cols": [sp], "records": []}
            yield {"kind": "json", "col": sp}
            yield {"kind": "flat", "col": sp}
            yield {"kind": "json2", "col": sp, "then": {"nullable": False}}
    # the constructor: raw keyword arguments inside the modelled domain
    for fi, (form, base) in enumerate(forms):
        for toggles in ([], ["aliases", "description", "non-nullable"], ["disposition"], ["statistics"]):
            sp = column_spec("i", form, base, toggles, pick=fi)
            if fi % 2:
                sp.pop("identity")
            yield {"kind": "init", "col": sp}
            if "disposition" in toggles:
                for d in (["text", "name"], ["text", "age"], ["text", "NAME"], ["text", "zz"], None):
                    yield {"kind": "init", "col": dict(sp, disposition=d)}
        if base:
            for dv in MODELLED_DEFAULTS[base]:
                yield {"kind": "init", "col": dict(column_spec("i", form, base, [], pick=fi), default=dv)}
        for et in (["member", "DATE"], ["text", "INTEGER"], ["text", "varchar"], ["text", "nonsense"], ["text", "0"], None):
            yield {"kind": "init", "col": dict(column_spec("i", form, base, [], pick=fi), element_type=et)}
        for extra in ({"precision": 7}, {"scale": 3}, {"length": 9}, {"precision": 7, "scale": 3, "length": 9}, {"aliases": None}):
            yield {"kind": "init", "col": dict(column_spec("i", form, base, [], pick=fi), **extra)}
    for bad in ("STRING", "nonsense", "DECIMAL(39,1)", "ARRAY<ARRAY<INTEGER>>", "VARIANT", "0", "MISSING", ""):
        yield {"kind": "init", "col": {"name": "i", "identity": "id", "type": ["text", bad]}}
        yield {"kind": "init", "col": {"name": "i", "identity": "id", "type": ["text", bad], "default": 5}}
    yield {"kind": "init", "col": {"name": "i", "identity": "id", "type": ["int0"]}}
    yield {"kind": "init", "col": {"name": "i", "identity": "id", "type": ["int0"], "default": 5}}
    # fourth pass: sequences on one schema / dictionary and hand-written dictionaries, on one column of every type form
    for fi, (form, base) in enumerate(forms):
        for wi, which in enumerate(HAND):
            toggles = TOGGLES if (fi + wi) % 3 == 0 else ([TOGGLES[(fi + wi) % len(TOGGLES)]] if (fi + wi) % 3 == 1 else [])
            sp = column_spec(HAND_NAMES[(fi + wi) % len(HAND_NAMES)], form, base, list(toggles), pick=fi)
            yield {"kind": "hand", "which": which, "col": sp}
    # names a loader must not normalise: leading / trailing blanks, control characters, very long, outside the BMP, combining
    for ni, nm in enumerate(HAND_NAMES):
        form, base = forms[(7 * ni) % len(forms)]
        sp = column_spec(nm, form, base, ["aliases", "description"], pick=ni)
        sp["aliases"] = [nm, nm + " ", nm]          # order and duplicates are part of the attribute
        sp["description"] = nm
        yield {"kind": "schema", "name": nm, "aliases": [nm, " " + nm, nm], "cols": [sp], "pk": nm, "records": []}
        yield {"kind": "json", "col": sp}
        yield {"kind": "flat", "col": sp}
    # fifth pass: a schema with a history - validate, edit in place, write / load, validate again (seeded change C16-w7s1:
    # validate reads a plan cached on the instance and keyed on too little)
    for c in session_exhaustive(forms, thorough):
        yield c


HAND_NAMES = ["c", "é", "日本 語", " lead", "trail ", "\tx\n", "tab\tname", "x" * 5000, "\U0001F600", "e\u0301", "a.b", "名" * 300, ""]
NAMES = ["a", "b", "col", "Col", "name", "type", "é", "日本", "with space", "x" * 30, "0", "", " lead", "trail ", "\U0001F600"]


def _base_of(form, forms):
    for f, b in forms:
        if f == form:
            return b
    return None


def random_column(rng, name, forms):
    form, base = rng.choice(forms)
    toggles = [t for t in TOGGLES if rng.random() < 0.4]
    sp = column_spec(name, form, base, toggles, rng=rng, pick=rng.randrange(100))
    r = rng.random()
    if r < 0.1:
        sp["aliases"] = None
    if rng.random() < 0.15:
        sp["origin"] = [rng.choice(NAMES) for _ in range(rng.randint(1, 2))]
    if rng.random() < 0.15:
        sp[rng.choice(["precision", "scale", "length"])] = rng.choice([0, 1, 5, 28, 38, 100])
    if rng.random() < 0.25 and base == "ARRAY":
        sp["element_type"] = ["member", rng.choice(ELEMENT_MEMBERS)]
    if rng.random() < 0.1:
        sp["identity"] = rng.choice(["", "é", "id id", "0123456789abcdef"])
    return sp


def random_case(ctx, forms):
    rng = ctx.rng
    if rng.random() < 0.12:
        return random_session(rng, forms)
    r = rng.random()
    if r < 0.42:
        n = rng.choice([0, 1, 1, 2, 3, 4, 5])
        names = rng.sample(NAMES, n)
        cols = [random_column(rng, nm, forms) for nm in names]
        return {"kind": "schema", "name": rng.choice(["t", "", "schema é", "a.b"]), "aliases": [rng.choice(NAMES) for _ in range(rng.choice([0, 0, 1, 2]))],
                "pk": rng.choice([None, None, "a", names[0] if names else "zz", ""]), "cols": cols, "records": records_for(cols, rng, 3)}
    if r < 0.53:
        n = rng.choice([1, 1, 2, 3])
        names = rng.sample(NAMES, n)
        cols = [random_column(rng, nm, forms) for nm in names]
        edit = {}
        if rng.random() < 0.5:
            edit["aliases_append"] = rng.choice(NAMES)
        if rng.random() < 0.4:
            edit["pk"] = rng.choice([None, "zz", names[-1]])
        if rng.random() < 0.3:
            edit["name"] = rng.choice(["", "renamed"])
        if rng.random() < 0.6:
            i = rng.randrange(n)
            edit["col"] = i
            sp2 = random_column(rng, names[i], [(cols[i].get("type", "absent"), _base_of(cols[i].get("type", "absent"), forms))])
            then = {k: sp2[k] for k in MUTABLE if k in sp2 and sp2[k] != cols[i].get(k)}
            if then:
                edit["then"] = then
            if rng.random() < 0.5:
                edit["col_alias_append"] = rng.choice(NAMES)
        if rng.random() < 0.3 or not edit:
            edit["drop_last"] = True
        return {"kind": "snap", "name": rng.choice(["t", "", "schema é"]), "aliases": [rng.choice(NAMES) for _ in range(rng.choice([0, 1, 2]))],
                "pk": rng.choice([None, names[0], ""]), "cols": cols, "records": [], "edit": edit}
    sp = random_column(rng, rng.choice(NAMES), forms)
    if r < 0.62:
        sp2 = random_column(rng, sp["name"], [(sp.get("type", "absent"), _base_of(sp.get("type", "absent"), forms))])
        then = {k: sp2[k] for k in MUTABLE if k in sp2 and sp2[k] != sp.get(k)}
        return {"kind": "json2", "col": sp, "then": then} if then else {"kind": "json", "col": sp}
    if r < 0.74:
        return {"kind": "json", "col": sp}
    sp["cls"] = rng.choice(COLUMN_CLASSES)
    if rng.random() < 0.35:  # seventh pass: a value of another kind among the attributes
        attr, v = random_other_kind(rng, sp)
        if r < 0.85:
            return {"kind": "flat", "col": dict(sp, **{attr: v})}
        return {"kind": "flat2", "col": sp, "then": {attr: v}}
    if r < 0.85:
        return {"kind": "flat", "col": sp}
    sp2 = random_column(rng, sp["name"], [(sp.get("type", "absent"), _base_of(sp.get("type", "absent"), forms))])
    then = {k: sp2[k] for k in MUTABLE if k in sp2 and sp2[k] != sp.get(k)}
    return {"kind": "flat2", "col": sp, "then": then} if then else {"kind": "flat", "col": sp}



# --------------------------------------------------------------------------- seventh pass: attribute values of other kinds


def np_(dtype, text):
    return py("np", "%s|%s" % (dtype, text))


DT_UNITS = ["Y", "M", "W", "D", "h", "m", "s", "ms", "us", "ns", "ps", "fs", "as"]
DT_TEXT = {"Y": "2024", "M": "2024-03", "W": "2024-03-07", "D": "2024-03-05", "h": "2024-03-05T10", "m": "2024-03-05T10:20",
           "s": "2024-03-05T10:20:30", "ms": "2024-03-05T10:20:30.123", "us": "2024-03-05T10:20:30.123456",
           "ns": "2024-03-05T10:20:30.123456789", "ps": "1970-01-02T00:00:00.123456789012", "fs": "1970-01-01T00:00:01.123456789012345",
           "as": "1970-01-01T00:00:01.123456789012345678"}


def other_values():
    """value specs of the kinds a profiler, numpy, arrow or pandas hand over (and a few more): [(label, spec)]"""
    out = []
    for dt, texts in (("int8", ["-128", "0", "7"]), ("int16", ["300"]), ("int32", ["-70000"]), ("int64", ["9223372036854775807", "0", "3"]),
                      ("uint8", ["255"]), ("uint16", ["65535"]), ("uint32", ["4000000000"]), ("uint64", ["18446744073709551615", "0"]),
                      ("float16", ["0.1", "nan", "inf"]), ("float32", ["0.1", "nan", "-0.0", "16777217"]),
                      ("float64", ["2.5", "nan", "-inf", "-0.0"]), ("longdouble", ["0.1"]), ("complex128", ["(1+2j)"]),
                      ("bool_", ["True", "False"]), ("str_", ["z\u00e9", ""]), ("bytes_", ["00ff", ""])):
        for t in texts:
            out.append(("np:" + dt, np_(dt, t)))
    for u in DT_UNITS:
        out.append(("np:datetime64[%s]" % u, np_("datetime64[%s]" % u, DT_TEXT[u])))
        out.append(("np:timedelta64[%s]" % u, np_("timedelta64[%s]" % u, "90061")))
    out.append(("np:datetime64:before-epoch", np_("datetime64[ns]", "1969-12-31T23:59:59.999999999")))
    out.append(("np:datetime64:year-beyond-datetime", np_("datetime64[us]", "12000-01-01T00:00:00")))
    out.append(("np:datetime64:epoch", np_("datetime64[ns]", "1970-01-01T00:00:00")))
    for u in ("D", "us", "ns", "as"):
        out.append(("np:NaT", np_("datetime64[%s]" % u, "NaT")))
        out.append(("np:NaT", np_("timedelta64[%s]" % u, "NaT")))
    out.append(("np:timedelta64:zero", np_("timedelta64[ns]", "0")))
    out.append(("pandas:Timestamp", py("pdts", "2024-03-05T10:20:30.123456789")))
    out.append(("pandas:Timestamp", py("pdts", "2024-03-05T10:20:30")))
    out.append(("pandas:Timestamp:tz", py("pdts", "2024-03-05T10:20:30.000000001|Europe/London")))
    out.append(("pandas:Timedelta", py("pdtd", "90061000000001")))
    out.append(("pandas:NaT", py("pdtd", "NaT")))
    for k, t in (("Decimal", "1E+30"), ("Decimal", "NaN"), ("Decimal", "-Infinity"), ("Decimal", "0.10"), ("date", "0001-01-01"),
                 ("date", "9999-12-31"), ("time", "23:59:59.999999"), ("time", "10:20:30+02:00"),
                 ("datetime", "2024-03-05T10:20:30.123456+05:30"), ("datetime", "9999-12-31T23:59:59.999999"),
                 ("timedelta", "-1"), ("float", "nan"), ("float", "-inf"), ("float", "-0.0"), ("int", str(-(2**200))),
                 ("int", str(2**64)), ("bytes", "00"), ("int", "1704067200123456789")):
        out.append((k, py(k, t)))
    out.append(("nested", [np_("int64", "1"), [np_("datetime64[ns]", DT_TEXT["ns"])], {"k": np_("float32", "0.1")}]))
    out.append(("nested", py("tuple", [np_("datetime64[ns]", DT_TEXT["ns"]), py("Decimal", "1.0"), None])))
    out.append(("nested", {"low": np_("datetime64[ns]", DT_TEXT["ns"]), "n": [py("float", "nan"), py("tuple", [])]}))
    out.append(("nested", py("tuple", [])))
    return out


OTHER_TYPES = ["absent", ["member", "TIMESTAMP"], ["member", "INTEGER"], ["member", "VARCHAR"], ["member", "DOUBLE"], ["member", "DATE"],
               ["member", "INTERVAL"], ["text", "DECIMAL(10,2)"], ["member", "BLOB"], ["member", "BOOLEAN"], ["member", "TIME"],
               ["text", "ARRAY<INTEGER>"], ["member", "STRUCT"]]


def _other_spec(name, cls, ty, attr, v):
    sp = {"name": name, "identity": "id-" + name, "cls": cls}
    if ty != "absent":
        sp["type"] = ty
    return sp, {attr: v}


def other_kind_cases(ctx):
    """every value of `other_values` as lowest_value / highest_value (any column type: statistics are not cast) and as the default
    (every column type whose cast accepts it: what the constructor made of it must flatten to itself), numpy integers as null_count /
    precision / scale - through every column class, given to the constructor (`flat`) and assigned afterwards (`flat2`)."""
    thorough = ctx.tier == "thorough"
    vals = other_values()
    n = 0
    for vi, (label, v) in enumerate(vals):
        for ci, cls in enumerate(COLUMN_CLASSES):
            for ai, attr in enumerate(("lowest_value", "highest_value")):
                if not thorough and cls != "FlatColumn" and (vi + ci + ai) % 2:
                    continue
                ty = OTHER_TYPES[(vi + ci + ai) % len(OTHER_TYPES)]
                sp, then = _other_spec("o", cls, ty, attr, v)
                n += 1
                if n % 2:
                    yield label, {"kind": "flat", "col": dict(sp, **then)}
                else:
                    yield label, {"kind": "flat2", "col": dict(sp, highest_value=7), "then": then}
        # both bounds and the count of one kind, as a profiler leaves them
        for ci, cls in enumerate(COLUMN_CLASSES):
            sp, _ = _other_spec("o", cls, OTHER_TYPES[(vi + ci) % len(OTHER_TYPES)], "lowest_value", v)
            sp.update(highest_value=v, null_count=np_("int64", "3"), description="seen", aliases=["s"])
            yield label, {"kind": "flat", "col": sp}
        # as the default: through the cast of every column type that takes it
        for ti, ty in enumerate(OTHER_TYPES):
            cls = COLUMN_CLASSES[(vi + ti) % len(COLUMN_CLASSES)] if thorough or ti % 2 else "FlatColumn"
            sp, then = _other_spec("o", cls, ty, "default", v)
            yield label, {"kind": "flat", "col": dict(sp, **then)}
    for dt in ("int8", "int16", "int32", "int64", "uint8", "uint16", "uint32", "uint64"):
        for cls in COLUMN_CLASSES:
            for attr in OTHER_KIND_COUNTS:
                for t in ("0", "3"):
                    ty = ["member", "DECIMAL"] if attr != "null_count" else ["member", "INTEGER"]
                    sp, then = _other_spec("o", cls, ty, attr, np_(dt, t))
                    yield "np:" + dt + ":count", {"kind": "flat", "col": dict(sp, **then)}
                    if attr == "null_count":
                        yield "np:" + dt + ":count", {"kind": "flat2", "col": sp, "then": then}


def checked_other_kind_cases(ctx):
    for label, c in other_kind_cases(ctx):
        try:
            _construct_all(c)
        except Exception as e:  # the cast of this column type refuses the value as a default: not a column
            ctx.hit("other-kind:skipped:default-refused-by-cast:" + type(e).__name__)
            continue
        attrs = [k for k in list(c["col"]) + list(c.get("then", {})) if k in ("default", "lowest_value", "highest_value") + OTHER_KIND_COUNTS
                 and isinstance((c.get("then") or {}).get(k, c["col"].get(k)), (dict, list))]
        ctx.hit("other-kind:" + label)
        for a in set(attrs):
            ctx.hit("other-kind-as:" + a)
        yield c


def random_other_kind(rng, sp):
    """a random column with one of its statistics / its default / its count replaced by a value of another kind"""
    label, v = rng.choice(other_values())
    attr = rng.choice(["lowest_value", "highest_value", "lowest_value", "highest_value", "default", "null_count"])
    if attr == "null_count":
        v = np_(rng.choice(["int8", "int32", "int64", "uint16", "uint64"]), str(rng.choice([0, 1, 3, 100])))
    return attr, v

# --------------------------------------------------------------------------- sessions: generators


def _right_tag(base):
    return c05.RIGHT.get(base, ["int"])[0]


def session_battery(layout, before=None):
    """records for a layout [(name, [base types the column had or has])]: conforming, each column missing / null / a value
    of each type it ever had / a value of no type, an excess key, the layout before the edits, the empty record"""
    base_rec = {nm: _right_tag(bs[-1]) for nm, bs in layout}
    out = [dict(base_rec)]
    for nm, bs in layout:
        out.append({k: v for k, v in base_rec.items() if k != nm})
        out.append(dict(base_rec, **{nm: "none"}))
        for b in bs[:-1]:
            out.append(dict(base_rec, **{nm: _right_tag(b)}))
        out.append(dict(base_rec, **{nm: "set" if bs[-1] is not None else "str"}))
    out.append(dict(base_rec, zz_extra="int"))
    if before is not None:
        out.append({nm: _right_tag(bs[0]) for nm, bs in before})
    out.append({})
    seen, uniq = set(), []
    for r in out:
        k = tuple(sorted(r.items()))
        if k not in seen:
            seen.add(k)
            uniq.append(r)
    return uniq


def _track(layout, e, base_of_spec):
    """follow an edit on the layout [(name, [bases])]"""
    i = e.get("col")
    op = e["op"]
    if op in ("set", "type", "rename", "alias", "remove", "replace") and not (i is not None and i < len(layout)):
        return
    if op == "type":
        layout[i] = (layout[i][0], layout[i][1] + [None if e["to"] == "_MISSING_TYPE" else e["to"]])
    elif op == "rename":
        layout[i] = (e["to"], layout[i][1])
    elif op == "add":
        layout.append((e["spec"]["name"], [base_of_spec(e["spec"])]))
    elif op == "remove":
        del layout[i]
    elif op == "replace":
        layout[i] = (e["spec"]["name"], layout[i][1] + [base_of_spec(e["spec"])])
    elif op == "reverse":
        layout.reverse()


def session_case(cols, bases, steps, steps2, via, rewarm, forms, name="t", aliases=(), pk=None):
    def base_of_spec(sp):
        return _base_of(sp.get("type", "absent"), forms)

    before = [(sp["name"], [b]) for sp, b in zip(cols, bases)]
    layout = [(nm, list(bs)) for nm, bs in before]
    for e in steps:
        _track(layout, e, base_of_spec)
    mid = [(nm, list(bs)) for nm, bs in layout]
    for e in steps2 or []:
        _track(layout, e, base_of_spec)
    records = session_battery(mid, before)
    if steps2:
        records += [r for r in session_battery(layout) if r not in records]
    warm = session_battery(before)[:2 + 2 * len(before)]
    c = {"kind": "session", "name": name, "aliases": list(aliases), "pk": pk, "cols": cols, "via": via, "rewarm": rewarm,
         "warm": warm, "steps": steps, "records": records}
    if steps2:
        c["steps2"] = steps2
    return c


def session_exhaustive(forms, thorough):
    for fi, (form, base) in enumerate(forms):
        other_t = "INTEGER" if base != "INTEGER" else "VARCHAR"
        scripts = [
            ([{"op": "set", "col": 0, "attr": "nullable", "value": None}], None),
            ([{"op": "set", "col": 1, "attr": "nullable", "value": False}], None),
            ([{"op": "type", "col": 0, "to": other_t}], None),
            ([{"op": "type", "col": 1, "to": "DOUBLE"}], None),
            ([{"op": "type", "col": 0, "to": "_MISSING_TYPE"}], None),
            ([{"op": "rename", "col": 0, "to": "s2"}], None),
            ([{"op": "alias", "col": 0, "append": "later"}, {"op": "set", "col": 1, "attr": "default", "value": 7},
              {"op": "set", "col": 0, "attr": "description", "value": "edited"}, {"op": "set", "col": 1, "attr": "null_count", "value": 0}], None),
            ([{"op": "add", "spec": {"name": "n", "identity": "id-n", "type": ["member", "BOOLEAN"], "nullable": False}}], None),
            ([{"op": "remove", "col": 1}], None),
            ([{"op": "replace", "col": 1, "spec": {"name": "o", "identity": "id-o", "type": ["member", "VARCHAR"], "nullable": False}}], None),
            ([{"op": "reverse"}], None),
            ([{"op": "relist"}, {"op": "set", "col": 1, "attr": "nullable", "value": False}], None),
            ([{"op": "set", "col": 0, "attr": "nullable", "value": None}, {"op": "type", "col": 1, "to": "DOUBLE"}], None),
            ([{"op": "set", "col": 1, "attr": "nullable", "value": False}],
             [{"op": "set", "col": 1, "attr": "nullable", "value": True}, {"op": "type", "col": 1, "to": "VARCHAR"}]),
            ([{"op": "set", "col": 1, "attr": "identity", "value": "other"}, {"op": "set", "col": 1, "attr": "nullable", "value": False}], None),
        ]
        for ei, (steps, steps2) in enumerate(scripts):
            if not thorough and (fi + ei) % 2 and ei not in (0, 2):
                continue
            t0 = [[], ["aliases", "description"], ["statistics"], ["non-nullable"]][(fi + ei) % 4]
            sp = column_spec("s", form, base, t0, pick=fi)
            steps = [dict(e) for e in steps]
            for e in steps:
                if e["op"] == "set" and e["attr"] == "nullable" and e["value"] is None:
                    e["value"] = "non-nullable" in t0  # the other value
            other = column_spec("o", ["member", "INTEGER"], "INTEGER", ["aliases"], pick=fi)
            via = ("validate", "append", "both", "validate", "append", "validate", "none")[(fi + ei) % 7]
            yield session_case([sp, other], [base, "INTEGER"], steps, steps2, via, ei == 12, forms, pk="s" if ei % 3 == 0 else None)


def random_session(rng, forms):
    n = rng.choice([1, 2, 2, 3, 4])
    names = rng.sample([x for x in NAMES if x != "zz_extra"], n)
    cols = [random_column(rng, nm, forms) for nm in names]
    bases = [_base_of(sp.get("type", "absent"), forms) for sp in cols]
    spare = [x for x in ["n1", "n2", "é2", "new col", "N"] if x not in names]

    def one(k):
        op = rng.choice(["set", "set", "set", "type", "type", "rename", "alias", "add", "remove", "replace", "reverse", "relist"])
        i = rng.randrange(max(1, k))
        if op == "set":
            a = rng.choice(["nullable", "nullable", "nullable", "aliases", "description", "default", "null_count", "identity", "highest_value"])
            v = {"nullable": rng.random() < 0.5, "aliases": [rng.choice(NAMES)], "description": rng.choice([None, "", "d"]),
                 "default": rng.choice([None, 0, 7, "x"]), "null_count": rng.choice([None, 0, 3]), "identity": rng.choice(["", "same", "id-x"]),
                 "highest_value": rng.choice([None, 5, "z"])}[a]
            return {"op": "set", "col": i, "attr": a, "value": v}
        if op == "type":
            return {"op": "type", "col": i, "to": rng.choice(TYPE_MEMBERS)}
        if op == "rename":
            return {"op": "rename", "col": i, "to": spare.pop() if spare else "r%d" % rng.randrange(1000)}
        if op == "alias":
            return {"op": "alias", "col": i, "append": rng.choice(NAMES)}
        if op in ("add", "replace"):
            nm = spare.pop() if (spare and (op == "add" or rng.random() < 0.5)) else None
            sp = random_column(rng, nm if nm is not None else (names[i] if i < len(names) else "n9"), forms)
            sp.pop("default", None)
            if op == "replace" and rng.random() < 0.5 and i < len(cols):
                sp["identity"] = cols[i].get("identity", "id-" + names[i])  # the same identity and name, other attributes
                sp["name"] = names[i]
            return {"op": op, "col": i, "spec": sp} if op == "replace" else {"op": op, "spec": sp}
        if op == "remove":
            return {"op": "remove", "col": i}
        return {"op": op}

    steps = [one(n) for _ in range(rng.choice([1, 1, 2, 3, 4]))]
    steps2 = [one(n) for _ in range(rng.choice([1, 2]))] if rng.random() < 0.3 else None
    # no two columns of one name (a record has one value per name; what validate then says is C05's business)
    c = session_case(cols, bases, steps, steps2, rng.choice(["validate", "validate", "append", "both", "none"]), rng.random() < 0.4, forms,
                     name=rng.choice(["t", "", "schema é"]), aliases=[rng.choice(NAMES) for _ in range(rng.choice([0, 1]))],
                     pk=rng.choice([None, names[0], ""]))
    return c


def _run_batched(ctx, it, size=1500):
    batch, total = [], 0
    for c in it:
        if c["kind"] != "init":
            try:
                _construct_all(c)
            except Exception as e:
                # the original cannot be constructed (e.g. a default the type's cast refuses): not a C16 input
                ctx.hit("skipped:not-constructible:" + type(e).__name__)
                continue
        batch.append(c)
        if len(batch) >= size:
            evaluate(ctx, batch)
            total += len(batch)
            batch = []
            if ctx.time_left() < 8:
                ctx.note("exhaustive_cut_short", True)
                return total
    evaluate(ctx, batch)
    return total + len(batch)


def check_tables(ctx):
    """the extracted lists against the running classes (dataclasses.fields) and against the vocabulary pinned here"""
    S, _ = _orso()
    o = ctx.model.one("C16 tables")
    if not o.startswith("ok "):
        raise InfraError("model tables: %r" % o)
    col_fields, schema_fields, flat, restores, disps, td, tj, rules, fills, dfills, written, cloader, jloader = wire.dec_all(o[3:])
    ctx.note("extracted_statements", {
        "FlatColumn.from_dict rules (conditions, key assigned, member)": rules,
        "__init__ fills from the parsed type name (attribute, guard, parsed field)": fills,
        "__init__ DECIMAL default guards": dfills, "_converter writes an enum's": written,
        "RelationSchema.from_dict loads a column with": cloader, "from_json loads with": jloader})
    live = [f.name for f in dataclasses.fields(S.FlatColumn)]
    ctx.note("extracted_column_fields", col_fields)
    ctx.note("extracted_flat_kwargs", [p[0] for p in flat])
    ctx.note("extracted_from_dict_restores", [p[0] for p in restores])
    if col_fields != live:
        ctx.disagree({"kind": "tables"}, live, col_fields, "dataclasses.fields(FlatColumn) differs from the extracted field list")
    if [f.name for f in dataclasses.fields(S.RelationSchema)] != schema_fields:
        ctx.disagree({"kind": "tables"}, [f.name for f in dataclasses.fields(S.RelationSchema)], schema_fields,
                     "dataclasses.fields(RelationSchema) differs from the extracted field list")
    if [[m.name, m.value] for m in S.ColumnDisposition] != [list(p) for p in disps]:
        ctx.disagree({"kind": "tables"}, [[m.name, m.value] for m in S.ColumnDisposition], disps, "ColumnDisposition members differ")


def run(ctx):
    ctx.note("rule", "one schema (dict round trip + behaviour), one column through JSON, one column flattened, one constructor call, or one "
             "sequence on one object (flatten-assign-flatten, write-load-modify-load again) per case; non-trivial = at least one column; "
             "distinct by canonical JSON of the case")
    ctx.note("assumptions", [
        "columns carry no expectations (the statement does not list them; the suite's own persistence test strips them)",
        "defaults and statistics are values of the column type's natural class (C07's casts are identities on them); flattening "
        "additionally sees statistics, counts and defaults of other kinds (numpy scalars of every dtype and datetime64 / timedelta64 unit, "
        "NaT, pandas Timestamp / Timedelta, Decimal NaN / infinities, extreme and aware temporals, integers beyond 64 bits, nested "
        "containers), judged by same class and equality (numpy scalars by dtype and bytes); a default is what the constructor's cast made of it",
        "JSON: defaults are compared after the type's cast of their JSON rendering; non-finite floats, bytes, Decimal, timedelta, "
        "integers beyond 64 bits and temporal statistics are not carried by JSON (open findings K01, K02)",
        "sequences (snap, json2): the schema / column is modified in place and by assignment with values of a donor column built by the "
        "constructor; a sequence whose plain round trip already differs (K01, K02) is skipped and counted",
    ])
    ctx.note("trusted_base_extra", [
        "the vocabulary Constructed / Persistable / JsonNative / DefaultSurvivesJson in lean/OrsoVerif/Model/Persist.lean (the theorems are stated through them)",
        "C07's clause 'a cast is the identity on values it produced' enters the theorems as the hypothesis hIdem; orjson, dataclasses.asdict and "
        "copy.deepcopy enter as the Caster.json parameter / identity on values; both validated by correspondence only",
    ])
    check_tables(ctx)
    total = _run_batched(ctx, exhaustive_cases(ctx))
    total += _run_batched(ctx, checked_other_kind_cases(ctx))
    ctx.exhaustive = False
    ctx.note("exhaustive_scope", "every type-name form (%d: absent, each base type as member / name / lower-case name, DECIMAL(p,s), VARCHAR[n], "
             "BLOB[n], ARRAY<T> for every scalar T, LIST/NUMERIC/BSON) x subsets of {aliases, default, description, disposition, statistics, "
             "non-nullable} (all 64 in the thorough tier; none, each single, all and a quarter of the rest in the quick tier) through "
             "to_dict/from_dict, to_json/from_json and to_flatcolumn; every default and statistic of the per-type pools; the six column "
             "classes for flattening; keyword element types; sequences on one schema / column; boundaries (declared 0, 2^63 / 2^64, 28/29-digit "
             "decimals, sub-second temporals); constructor calls inside the modelled domain (%d cases), then random schemas and sequences"
             % (len(type_forms(ctx.tier == "thorough")), total))
    forms = type_forms(True)
    n = ctx.scale(6000, 120000)
    done = 0
    while done < n and ctx.time_left() > 6:
        evaluate(ctx, [c for c in (random_case(ctx, forms) for _ in range(1000)) if _constructible(c, ctx)])
        done += 1000


def _construct_all(c):
    specs = c["cols"] if c["kind"] in ("schema", "snap", "session") else [c["col"]]
    for sp in specs:
        construct(sp)
    if c["kind"] in ("flat2", "json2"):
        construct(dict(c["col"], **c["then"]))  # the donor of the assigned attributes
    if c["kind"] == "snap" and c["edit"].get("then"):
        construct(dict(specs[c["edit"]["col"]], **c["edit"]["then"]))
    if c["kind"] == "session":
        for e in c["steps"] + (c.get("steps2") or []):
            if e["op"] in ("add", "replace"):
                construct(e["spec"])


def _constructible(c, ctx):
    try:
        _construct_all(c)
        return True
    except Exception as e:
        ctx.hit("skipped:not-constructible:" + type(e).__name__)
        return False


def intensify(ctx):
    forms = type_forms(True)
    for _ in range(8):
        if ctx.time_left() < 5 or ctx.violations:
            break
        evaluate(ctx, [c for c in (random_case(ctx, forms) for _ in range(1500)) if _constructible(c, ctx)])


def replay(ctx, case):
    if case.get("kind") == "tables":
        check_tables(ctx)
        return
    evaluate(ctx, [case])


# --------------------------------------------------------------------------- known findings


def _values(spec):
    for k in ("default", "highest_value", "lowest_value"):
        if k in spec:
            yield k, to_py(spec[k])


def _unserialisable(v):
    if isinstance(v, (bytes, decimal.Decimal, datetime.timedelta)):
        return True
    if isinstance(v, int) and not isinstance(v, bool) and not (-(2**63) <= v < 2**64):
        return True
    if isinstance(v, (list, tuple)):
        return any(_unserialisable(x) for x in v)
    if isinstance(v, dict):
        return any(_unserialisable(x) for x in v.values())
    return False


def k01_to_json_typeerror(case, failure):
    """to_json raises TypeError and the constructed column holds a bytes / Decimal / timedelta / beyond-64-bit value"""
    if case.get("kind") != "json" or failure["clause"] != "json: to_json raised TypeError":
        return False
    c = construct(case["col"])
    return any(_unserialisable(getattr(c, a)) for a in ("default", "highest_value", "lowest_value", "length", "precision", "scale",
                                                        "null_count"))


def k02_json_changes_value(case, failure):
    """through JSON a temporal statistic comes back as ISO text, or a non-finite float as None"""
    d = failure.get("detail") or {}
    if case.get("kind") != "json" or d.get("op") != "json" or "attr" not in d:
        return False
    if failure["clause"] != "json: column attribute %s differs after the round trip" % d["attr"]:
        return False
    c = construct(case["col"])
    v = getattr(c, d["attr"], None)
    if d["attr"] in ("highest_value", "lowest_value") and isinstance(v, (datetime.date, datetime.time)):
        return True
    if d["attr"] in ("default", "highest_value", "lowest_value") and isinstance(v, float) and not math.isfinite(v):
        return True
    return False


KNOWN_PREDICATES = {
    "k01_to_json_typeerror": k01_to_json_typeerror,
    "k02_json_changes_value": k02_json_changes_value,
}
