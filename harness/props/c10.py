"""C10 — Native kernels match their Python definitions and are bounds-safe.

The compiled helpers run in a sacrificial subprocess (harness/c10_worker.py).  Safe inputs
(tuple rows at least as wide as the first row) are compared with the plain-Python definition
(the oracle) and with Model/Kernels.lean; inputs on which the model says a read leaves a row
(ragged rows, rows that are not tuples) are executed one per subprocess and the exit status is
recorded — these are the open findings C10-K01/K02.
"""
import itertools
import json
import os
import subprocess
import sys

from .. import c10_sites as sites
from .. import core, wire
from ..core import InfraError

WORKER = os.path.join(os.path.dirname(os.path.dirname(os.path.abspath(__file__))), "c10_worker.py")


def spawn(lines, timeout=600):
    p = subprocess.run([sys.executable, WORKER, core.REPO], input="\n".join(lines) + "\n", capture_output=True,
                       text=True, timeout=timeout)
    outs = [json.loads(l) for l in p.stdout.split("\n") if l.strip()]
    return p.returncode, outs, p.stderr[-400:]


MAX_DEATHS = 6


def run_worker(cases, max_deaths=MAX_DEATHS):
    """Run safe cases in one worker; if it dies, report which case killed it and carry on after it.

    A tree on which the interpreter dies again and again (an unchecked read let loose by an edit) would cost one
    interpreter start per death: after `max_deaths` deaths in one batch the remaining cases are not run
    (`{"skipped": …}`; they are neither judged nor counted) -- the deaths already seen are the failing inputs."""
    results = []
    todo = list(cases)
    deaths = 0
    while todo:
        rc, outs, err = spawn([json.dumps(c) for c in todo])
        results.extend(outs)
        if len(outs) == len(todo):
            break
        # the worker died on case number len(outs)
        results.append({"died": rc, "stderr": err})
        todo = todo[len(outs) + 1 :]
        deaths += 1
        if deaths >= max_deaths and todo:
            results.extend({"skipped": "the worker died %d times in this batch" % deaths} for _ in todo)
            break
    return results


# ----------------------------------------------------------------------------- the Python definitions (oracle)


def py_collect(rows, cols, limit):
    """Plain-Python definition of column collection. Returns ('ok', m) / ('raises', cls)."""
    n = len(rows)
    if n == 0 or len(cols) == 0:
        return ("ok", [[] for _ in cols])
    width = len(rows[0])
    lim = n if (limit is None or limit < 0 or limit >= n) else limit
    if any(c < 0 or c >= width for c in cols):
        return ("raises", "IndexError")
    try:
        return ("ok", [[rows[j][c] for j in range(lim)] for c in cols])
    except IndexError:
        return ("raises", "IndexError")  # a row shorter than the first: a Python exception, never a wild read


def model_reads_outside(case):
    """Does some read leave a row object? (what Model/Kernels.lean calls `oob`)"""
    rows, cols = case["rows"], case["cols"]
    if not rows or not cols:
        return False
    width = len(rows[0])
    if any(c < 0 or c >= width for c in cols):
        return False
    limit = case.get("limit", -1)
    n = len(rows)
    lim = n if (not isinstance(limit, int) or limit < 0 or limit >= n) else limit
    for r, k in list(zip(rows, case["kinds"]))[:lim]:
        if k != "t" or any(c >= len(r) for c in cols):
            return True
    return False


def well_formed_args(case):
    # a limit that does not fit the C `int` parameter is a malformed argument (OverflowError), like a wrong type
    return (case.get("cols_arg", "int32") == "int32" and case.get("rows_arg", "list") == "list"
            and (("limit" not in case) or (isinstance(case["limit"], int) and not isinstance(case["limit"], bool)
                                           and -2**31 <= case["limit"] < 2**31)))


def model_line(case):
    fn = case["fn"]
    if fn == "collect":
        rows = [[k == "t", r] for r, k in zip(case["rows"], case["kinds"])]
        return "C10 collect " + wire.line(rows, case["cols"], case.get("limit", -1))
    if fn == "width":
        from .. import c10_worker

        return "C10 width " + wire.line([None if v is None else len(str(v)) for v in c10_worker.unj(case["values"])])
    from .. import c10_worker

    # the helper looks exact strings up: of a dictionary with keys of other kinds it can find the items whose key equals a string
    data = c10_worker.plain_dict(case["data"])
    return "C10 extract " + wire.line(case["fields"], {sites.key_id(k): v for k, v in data.items() if sites.key_id(k) is not None})


_SHADOW = None


def shadow():
    """De-cythonised anchored kernels of the working tree's compiled.pyx (None when unavailable)."""
    global _SHADOW
    if _SHADOW is None:
        try:
            from .. import pyxshadow

            _SHADOW = pyxshadow.load(core.REPO)
        except Exception as e:
            _SHADOW = ({}, {"*": "shadow could not be loaded: %s" % e})
    return _SHADOW


def shadow_run(case):
    """Run one case on the shadow. Returns {'ok':..}/{'raises':..}/{'oob':..} or None when unavailable."""
    import numpy

    from .. import c10_worker, pyxshadow

    funcs, _ = shadow()
    name = {"collect": "collect_cython", "extract": "extract_dict_columns", "width": "calculate_data_width"}[case["fn"]]
    if name not in funcs:
        return None
    real = sys.modules.get("orso.compute.compiled")

    class _Proxy:
        collect_cython = staticmethod(funcs.get("collect_cython"))
        extract_dict_columns = staticmethod(funcs.get("extract_dict_columns"))
        calculate_data_width = staticmethod(funcs.get("calculate_data_width"))

    import orso.compute as oc

    saved = getattr(oc, "compiled", None)
    sys.modules["orso.compute.compiled"] = _Proxy
    oc.compiled = _Proxy
    try:
        return {"ok": json.loads(json.dumps(c10_worker.run(case) if case["fn"] == "width" else c10_worker.run(case)))}
    except pyxshadow.MemoryUnsafe as e:
        return {"oob": str(e)}
    except NameError as e:
        # a C-API function / cimported name the de-cythoniser does not know: the shadow cannot speak for this source
        _SHADOW[1][name] = "uses a name the shadow does not know: %s" % e
        _SHADOW[0].pop(name, None)
        return None
    except Exception as e:
        return {"raises": type(e).__name__}
    finally:
        if real is not None:
            sys.modules["orso.compute.compiled"] = real
        if saved is not None:
            oc.compiled = saved


def judge(c, res):
    """The property evaluated on one helper result ({'ok'..}/{'raises'..}/{'died'..}/{'oob'..}). Returns clause or None."""
    if "died" in res:
        return "terminated the interpreter (exit status %s)" % res["died"]
    if "oob" in res:
        return "reads outside a row: " + ("a row is not a tuple" if any(k != "t" for k in c.get("kinds", [])) else
                                          "a row is shorter than the first row" if c["fn"] == "collect" else "an unchecked access leaves the object it indexes")
    if c["fn"] == "collect":
        if not well_formed_args(c):
            return None if "raises" in res else "a malformed argument did not raise a Python exception"
        want = py_collect([tuple(r) for r in c["rows"]], c["cols"], c.get("limit", -1))
        got = ("raises", res["raises"]) if "raises" in res else ("ok", res["ok"])
        if want[0] == "raises":
            return None if got[0] == "raises" else "a column index outside 0..width-1 did not raise"
        if got != want:
            return "collected columns differ from rows[j][columns[i]]" if got[0] == "ok" else "raised %s on a valid request" % got[1]
        return None
    if c["fn"] == "width":
        if c.get("arg", "ndarray") != "ndarray":
            return None if "raises" in res else "a malformed argument did not raise a Python exception"
        from .. import c10_worker

        want = max([4] + [len(str(v)) for v in c10_worker.unj(c["values"]) if v is not None])
        return None if res.get("ok") == want else "display width is not the longest rendered non-null value (floor 4)"
    if c.get("fields_arg", "tuple") != "tuple" or c.get("data_arg"):
        return None if "raises" in res else "a malformed argument did not raise a Python exception"
    from .. import c10_worker

    data = c10_worker.plain_dict(c["data"])
    want = [data.get(f) if isinstance(f, str) else None for f in c["fields"]]
    if "raises" in res or res["ok"] != json.loads(json.dumps(want)):
        return "extracted fields differ from the dictionary's values / null"
    return None


_SHRUNK = set()


def _valid_kernel_case(c):
    fn = c.get("fn")
    if fn == "width":
        return isinstance(c.get("values"), list) and set(c) <= {"fn", "values"}
    if fn == "extract":
        return isinstance(c.get("data"), dict) and isinstance(c.get("fields"), list) and all(isinstance(f, str) for f in c["fields"]) \
            and set(c) <= {"fn", "data", "fields"}
    if fn == "collect":
        return (isinstance(c.get("rows"), list) and isinstance(c.get("kinds"), list) and len(c["rows"]) == len(c["kinds"])
                and all(k == "t" for k in c["kinds"]) and all(isinstance(r, list) for r in c["rows"])
                and all(len(r) >= len(c["rows"][0]) for r in c["rows"])
                and isinstance(c.get("cols"), list) and all(isinstance(x, int) and not isinstance(x, bool) and abs(x) < 2**31 for x in c["cols"])
                and ("limit" not in c or (isinstance(c["limit"], int) and not isinstance(c["limit"], bool) and abs(c["limit"]) < 2**31))
                and set(c) <= {"fn", "rows", "kinds", "cols", "limit"})
    return False


def _shrink_kernel(c, clause, budget=20):
    """A smaller well-formed case of the same helper that violates the same clause (each try is a fresh interpreter)."""
    if not _valid_kernel_case(c):
        return c

    def still(cc):
        if not _valid_kernel_case(cc) or cc.get("fn") != c["fn"]:
            return False
        r = run_worker([cc])[0]
        return "died" not in r and judge(cc, r) == clause

    try:
        return core.shrink(c, still, budget=budget)
    except Exception:
        return c


def evaluate(ctx, cases):
    """cases: safe to run in the shared worker."""
    results = run_worker(cases)
    mlines, midx = [], []
    for i, c in enumerate(cases):
        if c["fn"] == "collect" and not well_formed_args(c):
            continue
        if c["fn"] != "collect" and (c.get("arg", "ndarray") != "ndarray" or c.get("fields_arg", "tuple") != "tuple" or c.get("data_arg")):
            continue
        if c["fn"] == "extract" and not all(isinstance(f, str) for f in c["fields"]):
            continue
        mlines.append(model_line(c))
        midx.append(i)
    mouts = dict(zip(midx, ctx.model.batch(mlines)))
    for i, (c, res) in enumerate(zip(cases, results)):
        if "skipped" in res:
            ctx.hit("skipped-after-repeated-worker-deaths")
            continue
        ctx.case(c, nontrivial=bool(c.get("rows") or c.get("values") or c.get("fields")))
        ctx.hit("fn:" + c["fn"])
        if c["fn"] == "extract" and isinstance(c.get("data"), dict) and "__items__" in c["data"]:
            ctx.hit("extract:dictionary-with-keys-that-are-not-text")
        if c["fn"] == "collect":
            ctx.hit("cols:%d" % min(len(c["cols"]), 4))
            ctx.hit("malformed-arg" if not well_formed_args(c) else "well-formed")
        clause = judge(c, res)
        if clause is not None:
            small = _shrink_kernel(c, clause) if ("died" not in res and clause not in _SHRUNK) else c
            _SHRUNK.add(clause)
            ctx.fail(small, clause, impl=res if small is c else run_worker([small])[0], model=mouts.get(i) if small is c else None)
            continue
        sres = shadow_run(c)
        if sres is not None:
            ctx.hit("shadow-executed")
            sclause = judge(c, sres)
            if sclause is not None:
                if ("shadow", sclause) not in _SHRUNK and _valid_kernel_case(c):
                    _SHRUNK.add(("shadow", sclause))

                    def still_shadow(cc, fn=c["fn"], clause=sclause):
                        if not _valid_kernel_case(cc) or cc.get("fn") != fn:
                            return False
                        r = shadow_run(cc)
                        return r is not None and judge(cc, r) == clause

                    try:
                        small = core.shrink(c, still_shadow, budget=200)
                    except Exception:
                        small = c
                    if small is not c:
                        c, sres, res = small, shadow_run(small), run_worker([small])[0]
                ctx.fail(c, sclause, impl={"shadow execution of compiled.pyx (source)": sres, "binary": res}, model=mouts.get(i),
                         detail="the working tree's compiled.pyx, executed through harness/pyxshadow.py, violates the property; the binary in the tree was not built from this source")
                continue
            same_kind = ("raises" in sres) == ("raises" in res)
            if not same_kind or ("ok" in sres and sres["ok"] != res.get("ok")):
                ctx.disagree(c, res, sres, what="binary and source-level shadow of compiled.pyx differ")
        if i in mouts:
            mo = mouts[i]
            if not mo.startswith("ok "):
                raise InfraError("model rejected %r: %r" % (c, mo))
            m = wire.dec_all(mo[3:])
            if c["fn"] == "collect":
                if m[0] == "oob":
                    raise InfraError("a case the harness classed as safe is oob in the model: %r" % c)
                ok = (m[0] == "raises" and "raises" in res) or (m[0] == "ok" and res.get("ok") == m[1])
            else:
                ok = res.get("ok") == m[0]
            if not ok:
                ctx.disagree(c, res, m)


def run_unsafe(ctx, case):
    """One subprocess per case; the model says a read leaves a row."""
    rc, outs, err = spawn([json.dumps(case)], timeout=120)
    observed = outs[0] if outs else {"died": rc}
    ctx.case(case, True)
    ctx.hit("unsafe-class")
    sres = shadow_run(case)
    if sres is not None:
        ctx.hit("shadow-executed")
        ctx.hit("unsafe:shadow-" + next(iter(sres)))
        if "oob" in sres:
            ctx.fail(case, judge(case, sres), impl={"shadow execution of compiled.pyx (source)": sres, "binary": observed if outs else {"died": rc}}, model="oob")
            return
    if "raises" in observed:
        ctx.hit("unsafe:raised")
        return  # a Python exception: what the property asks for
    what = "terminated the interpreter (exit status %s)" % rc if not outs else "returned a value"
    ctx.fail(case, "reads outside a row: " + ("a row is not a tuple" if any(k != "t" for k in case["kinds"]) else "a row is shorter than the first row"),
             impl={"observed": what, "result": observed}, model="oob")



# ----------------------------------------------------------------------------- the call-site layer


def _seq_fails(case, clause_prefix=None):
    """Run one session alone in a fresh worker; the violated clause (or None)."""
    res = run_worker([case])[0]
    obs = res.get("ok") if "ok" in res else res
    if "raises" in res:
        return None
    v = sites.judge_seq(case, obs)
    if v is None:
        return None
    return v if (clause_prefix is None or v[1][:40] == clause_prefix[:40]) else None


def _shrink_seq(case, clause, budget=45):
    """Drop steps (last to first), then rows of the frames, while the same clause still fails alone."""
    cur = case
    tries = 0
    i = len(cur["steps"]) - 1
    while i >= 0 and tries < budget:
        cand = dict(cur, steps=cur["steps"][:i] + cur["steps"][i + 1 :])
        tries += 1
        if cand["steps"] and (sites.valid_seq(cand) or not sites.valid_seq(case)) and _seq_fails(cand, clause):
            cur = cand
        i -= 1
    for k, st in enumerate(cur["steps"]):
        if st["op"] == "frame" and len(st["rows"]) > 1:
            j = len(st["rows"]) - 1
            while j >= 0 and tries < budget:
                rows = st["rows"][:j] + st["rows"][j + 1 :]
                cand = dict(cur, steps=cur["steps"][:k] + [dict(st, rows=rows)] + cur["steps"][k + 1 :])
                tries += 1
                if _seq_fails(cand, clause):
                    cur, st = cand, cand["steps"][k]
                j -= 1
    return cur


def evaluate_sites(ctx, cases):
    """Public-API cases (`pcollect`, `seq`) in one sacrificial worker; judged by the plain-Python definitions."""
    if not cases:
        return
    results = run_worker(cases)
    mlines, mrefs = [], []
    verdicts = []
    for i, (c, res) in enumerate(zip(cases, results)):
        if "skipped" in res:
            ctx.hit("skipped-after-repeated-worker-deaths")
            verdicts.append(None)
            continue
        if c["fn"] == "pcollect":
            ctx.case(c, nontrivial=bool(c["rows"]) and bool(c["cols"]))
            ctx.hit("site:collect")
            ctx.hit("site:collect:limit:" + _limit_class(c))
            ctx.hit("site:collect:cols:" + c.get("ckind", "list") + (":by-name" if any(isinstance(x, str) for x in c["cols"]) else ":by-index"))
            if c.get("np"):
                ctx.hit("site:collect:positions-as-numpy-integers")
            if any(isinstance(x, int) and not (-2**31 <= x < 2**31) for x in c["cols"]):
                ctx.hit("site:collect:position-beyond-int32")
            if any(not isinstance(x, (int, str)) for x in c["cols"]):
                ctx.hit("site:collect:reference-neither-position-nor-name")
            clause = sites.judge_pcollect(c, res)
            verdicts.append(clause)
            if clause is None and "died" not in res and not c.get("np") and all(len(r) == len(c["names"]) for r in c["rows"]) \
                    and all(isinstance(x, (int, str)) and not isinstance(x, bool) for x in c["cols"]):
                mlines.append(sites.pcollect_model_line(c))
                mrefs.append((i, res))
        else:
            obs = res.get("ok") if "ok" in res else res
            ctx.case(c, nontrivial=True)
            ctx.hit("site:seq:" + c.get("kind", "?"))
            for st in c["steps"]:
                ctx.hit("site:step:" + st["op"] + (":" + st.get("via", "ascii") if st["op"] == "display" else ""))
            if "raises" in res:
                raise InfraError("the worker could not run a session: %r -> %r" % (c, res))
            ml = []
            v = sites.judge_seq(c, obs, ml, ctx.hit)
            verdicts.append(v)
            if v is None:
                for (_, line, ob) in ml:
                    mlines.append(line)
                    mrefs.append((i, ob))
    seq_history = []
    reported = {x.get("sig") for x in ctx.violations}
    for c, res, v in zip(cases, results, verdicts):
        if "skipped" in res:
            continue
        clause = v if (v is None or isinstance(v, str)) else v[1]
        if clause is not None:
            if clause in reported:
                ctx.hit("violation-dup:" + clause)
                if c["fn"] == "seq":
                    seq_history.append(c)
                continue
            reported.add(clause)
        if c["fn"] == "pcollect":
            if v is not None:
                small = c
                if "died" not in res:
                    def still(cc, clause=v):
                        try:
                            if cc.get("ckind", "list") not in ("list", "tuple", "set", "single") or cc.get("fn") != "pcollect" \
                                    or any(len(r) != len(cc["names"]) for r in cc["rows"]) or cc.get("via", "collect") not in ("collect", "getitem") \
                                    or (cc.get("ckind") == "single" and len(cc["cols"]) != 1) or not isinstance(cc.get("lazy"), bool) \
                                    or not all((x is None or isinstance(x, (int, str, float, list, dict))) and not isinstance(x, bool) for x in cc["cols"]) \
                                    or any(isinstance(x, (list, dict)) for x in cc["cols"]) != any(isinstance(x, (list, dict)) for x in c["cols"]):
                                return False
                            return sites.judge_pcollect(cc, run_worker([cc])[0]) == clause
                        except Exception:
                            return False
                    small = core.shrink(c, still, budget=25)
                ctx.fail(small, v, impl=run_worker([small])[0] if small is not c else res, model=None)
            continue
        if v is not None:
            alone = _seq_fails(c)
            if alone is not None:
                small = _shrink_seq(c, alone[1])
                fin = _seq_fails(small) or alone
                ctx.fail(small, fin[1], impl={"step": fin[0], "observed": run_worker([small])[0]}, model={"expected": fin[2]},
                         detail="step %d of the session violates the clause; the session is self-contained (fresh interpreter)" % fin[0])
            else:
                # fails only after the sessions that ran before it in the same interpreter: replay them together
                for back in (1, 3, 10, len(seq_history)):
                    joined = {"fn": "seq", "kind": "history", "steps": [st for h in seq_history[-back:] for st in h["steps"]] + c["steps"]}
                    w = _seq_fails(joined)
                    if w is not None:
                        ctx.fail(joined, w[1], impl={"step": w[0]}, model={"expected": w[2]},
                                 detail="the last session fails only after the earlier ones ran in the same interpreter (state shared between calls)")
                        break
                else:
                    ctx.fail(c, v[1], impl={"step": v[0]}, model={"expected": v[2]},
                             detail="failed in the shared worker, not reproduced alone: depends on interpreter history")
        seq_history.append(c)
    if mlines:
        mouts = ctx.model.batch(mlines)
        for line, mo, (i, ob) in zip(mlines, mouts, mrefs):
            if not mo.startswith("ok "):
                raise InfraError("model rejected %r: %r" % (line[:200], mo))
            if not sites.model_agrees(line, mo, ob):
                ctx.disagree(cases[i], ob, wire.dec_all(mo[3:]), what="call-site model and implementation differ on " + line[:40])


def _limit_class(c):
    if c.get("via") == "getitem":
        return "getitem"
    if "limit" not in c:
        return "absent"
    l = c["limit"]
    if l == "none":
        return "none"
    if isinstance(l, dict):
        l = int(l["__int__"])
    n = len(c["rows"])
    return "negative" if l < 0 else "zero" if l == 0 else "inside" if l < n else "at-rowcount" if l == n else "beyond-c-int" if l >= 2**31 else "beyond"


def run_sites(ctx):
    from ..extractors import c10_sites as scan

    found = scan.scan_call_sites(core.REPO)
    ctx.note("call_sites", ["%s:%s %s -> %s(%s)" % (s["file"], s["line"], s["function"], s["kernel"], ", ".join(s["args"])) for s in found])
    ctx.note("collect_callers", ["%s:%s %s -> %s.collect(%s)" % (s["file"], s["line"], s["function"], s["receiver"], s["column"])
                                 for s in scan.scan_collect_callers(core.REPO)])
    und = sites.undriven(found)
    ctx.note("undriven_call_sites", ["%s:%s %s -> %s" % (s["file"], s["line"], s["function"], s["kernel"]) for s in und])
    missing = [d for d in sorted(sites.DRIVEN) if not any((s["file"], s["function"], s["kernel"]) == d for s in found)]
    ctx.note("driven_call_sites_not_found_in_source", ["%s %s -> %s" % d for d in missing])
    dim = ctx.scale(2, 3)
    ex = sites.exhaustive_public(dim)
    for i in range(0, len(ex), 20000):
        evaluate_sites(ctx, ex[i : i + 20000])
    ctx.note("call_site_exhaustive_scope", "DataFrame.collect on all frames up to %dx%d (eager and lazy) x limits absent/None/-2..rows+2 x index vectors of length 0..2 over -1..width, single index, single/tuple/set names, unknown names, __getitem__ (%d cases)" % (dim, dim, len(ex)))
    evaluate_sites(ctx, sites.boundary_public())
    evaluate_sites(ctx, sites.random_public(ctx.rng, ctx.scale(2500, 60000)))
    evaluate_sites(ctx, sites.seeded_corpus())
    evaluate_sites(ctx, sites.exhaustive_keys())
    ctx.note("call_site_exhaustive_keys", "Row(dict) through a class for every field tuple of length 0..2 over '1','None','x' x every dictionary over the keys '1', 1, 'None', None with at most three entries in every insertion order")
    evaluate_sites(ctx, [sites.keys_seq(ctx.rng, "%d_%d" % (ctx.seed, k)) for k in range(ctx.scale(600, 10000))])
    # results handed out, edited by the caller, asked for again (the same request, spelt the same way or another)
    evaluate_sites(ctx, sites.exhaustive_reuse())
    evaluate_sites(ctx, [sites.reuse_seq(ctx.rng, "%d_%d" % (ctx.seed, k)) for k in range(ctx.scale(700, 12000))])
    ctx.note("call_site_result_reuse", "call -> the caller edits the returned array in place (fill, slice assignment, item, reverse, sort, +=, "
             "upper-casing; on the array or on one column of it) -> the same request again (same spelling or another: name/position, "
             "limit absent/None/-1/row count/beyond, frame[...]), with appends, displays, a twin frame in between; every result judged by "
             "result[i][j] = rows[j][columns[i]]; whether two results share storage is recorded, not judged")
    nseq = ctx.scale(2000, 40000)
    for start in range(0, nseq, 3000):
        evaluate_sites(ctx, [sites.random_seq(ctx.rng, "%d_%d" % (ctx.seed, start + k)) for k in range(min(3000, nseq - start))])


# ----------------------------------------------------------------------------- generators


def exhaustive(ctx, max_dim):
    cases = []
    for nrows in range(0, max_dim + 1):
        for width in range(0, max_dim + 1):
            rows = [[10 * (j + 1) + i for i in range(width)] for j in range(nrows)]
            alphabet = list(range(-2, width + 2))
            for k in range(0, 4):
                for cols in itertools.product(alphabet, repeat=k):
                    for limit in range(-2, nrows + 3):
                        cases.append({"fn": "collect", "rows": rows, "kinds": ["t"] * nrows, "cols": list(cols), "limit": limit})
    return cases


def random_cases(rng, n):
    out = []
    for _ in range(n):
        r = rng.random()
        if r < 0.6:
            nrows = rng.choice([0, 1, 2, 3, 5, 9, 40])
            width = rng.choice([0, 1, 2, 3, 4, 7])
            vals = [0, 1, None, "s", 2.5, "é", [1, 2], -7, {"__float__": "nan"}, -0.0, {"__bytes__": "00ff"}, 2**70, "", True,
                    {"__float__": "inf"}]
            rows = []
            for j in range(nrows):
                w = width if (j == 0 or rng.random() < 0.8) else width + rng.randint(0, 2)  # later rows may be wider
                rows.append([rng.choice(vals) for _ in range(w)])
            k = rng.choice([0, 1, 1, 2, 2, 3, 5, 8])
            cols = [rng.randint(-1, width) if rng.random() < 0.1 else (rng.randrange(width) if width else 0) for _ in range(k)]
            if width == 0 and cols:
                cols = [rng.randint(-1, 1) for _ in range(k)]
            c = {"fn": "collect", "rows": rows, "kinds": ["t"] * nrows, "cols": cols}
            if rng.random() < 0.8:
                c["limit"] = rng.choice([-1, -5, 0, 1, nrows, nrows + 1, rng.randint(-2, nrows + 2), nrows - 1, 2**31 - 1, -(2**31),
                                         2**31, -(2**31) - 1])
            if rng.random() < 0.08:
                c[rng.choice(["cols_arg", "rows_arg", "limit"])] = rng.choice(["int64", "list", "none", "tuple", "huge"])
                if c.get("cols_arg") not in (None, "int32", "int64", "list", "none"):
                    c["cols_arg"] = "int64"
                if c.get("rows_arg") not in (None, "list", "tuple"):
                    c["rows_arg"] = "tuple"
                if "limit" in c and not isinstance(c["limit"], int) and c["limit"] not in ("none", "huge"):
                    c["limit"] = "none"
            out.append(c)
        elif r < 0.8:
            keys = ["a", "b", "c", "é", "", "k k"]
            data = {k: rng.choice([0, None, "v", [1], 2.5]) for k in rng.sample(keys, rng.randint(0, 5))}
            fields = [rng.choice(keys + ["zz"]) for _ in range(rng.randint(0, 6))]
            c = {"fn": "extract", "data": data, "fields": fields}
            if rng.random() < 0.3:
                # keys that are not text next to (or instead of) the text they print; the fields are spelt like them
                fields = [rng.choice([t for t, _ in sites.KEY_TWINS] + ["zz"]) for _ in range(rng.randint(0, 6))]
                c = {"fn": "extract", "data": {"__items__": sites._items_for(rng, fields, ["zz", "other"])}, "fields": fields}
            if rng.random() < 0.1:
                c["fields_arg"] = rng.choice(["list", "none"])
            elif rng.random() < 0.08:
                c["data_arg"] = rng.choice(["list", "none"])
            out.append(c)
        else:
            vals = [rng.choice([None, 0, 12345, "abc", "é" * rng.randint(0, 9), 1.5, -0.25, [1, 2, 3], "x" * rng.randint(0, 40), True,
                                {"__float__": "nan"}, {"__float__": "-inf"}, -0.0, {"__bytes__": "c3a9"}, 10**30, "日本語" * rng.randint(0, 3),
                                "a\nb", "\u0301e", "😀" * rng.randint(0, 4), "abcd", "abcde", "abc", False, False, [], ""])
                    for _ in range(rng.randint(0, 8))]
            c = {"fn": "width", "values": vals}
            if rng.random() < 0.08:
                c["arg"] = rng.choice(["list", "none"])
            out.append(c)
    return out


UNSAFE_WITNESSES = [
    {"fn": "collect", "rows": [[0] * 64, []], "kinds": ["t", "t"], "cols": [63], "limit": -1},
    {"fn": "collect", "rows": [[1, 2], [3]], "kinds": ["t", "t"], "cols": [1], "limit": -1},
    {"fn": "collect", "rows": [[1, 2], [3, 4]], "kinds": ["l", "l"], "cols": [0, 1], "limit": -1},
    {"fn": "collect", "rows": [[1, 2, 3], [4, 5, 6], [7]], "kinds": ["t", "t", "t"], "cols": [0, 1, 2], "limit": 5},
]


def run(ctx):
    ctx.note("rule", "calls of the compiled helpers in a sacrificial subprocess; non-trivial = non-empty rows/values/fields; distinct by canonical JSON")
    dim = ctx.scale(2, 3)
    cases = exhaustive(ctx, dim)
    for i in range(0, len(cases), 20000):
        evaluate(ctx, cases[i : i + 20000])
    ctx.note("exhaustive_scope", "all tuple-row lists up to %dx%d, all index vectors of length 0..3 over -2..width+1, all limits -2..rows+2 (%d cases); then random shapes, malformed arguments, dictionaries, object arrays; ragged and non-tuple rows one per subprocess"
             % (dim, dim, len(cases)))
    evaluate(ctx, random_cases(ctx.rng, ctx.scale(4000, 60000)))
    # shapes far from the small ones: many columns (all collected, some twice), many rows, a limit inside
    wide = [[100 * j + k for k in range(300)] for j in range(3)]
    evaluate(ctx, [{"fn": "collect", "rows": wide, "kinds": ["t"] * 3, "cols": list(range(300)) + [299, 0], "limit": 2},
                   {"fn": "collect", "rows": [[j, str(j)] for j in range(5000)], "kinds": ["t"] * 5000, "cols": [1, 0], "limit": 4999},
                   {"fn": "width", "values": ["x" * 10000, None, "y" * 9999]},
                   {"fn": "extract", "data": {"k%d" % i: i for i in range(500)}, "fields": ["k%d" % i for i in range(499, -1, -7)] + ["absent"]}])
    # values that are false in a test but not null, some of them rendered longer than the floor: they are measured
    evaluate(ctx, [{"fn": "width", "values": v} for v in ([False], [True, False, None], [0, False], ["", False, 0.0], [[], 0, ""], [False, "abcdef"],
                                                          [{"__float__": "-0.0"}, False, None], [0], [""], [None, None])])
    # a ragged tail that lies beyond the limit is never read: safe
    evaluate(ctx, [{"fn": "collect", "rows": [[1, 2], [3, 4], [5]], "kinds": ["t", "t", "t"], "cols": [1], "limit": 2}])
    for w in UNSAFE_WITNESSES[: ctx.scale(2, 4)]:
        run_unsafe(ctx, w)
    run_sites(ctx)
    ctx.note("source_shadow_unavailable", dict(shadow()[1]))


def intensify(ctx):
    evaluate(ctx, random_cases(ctx.rng, 20000))
    evaluate_sites(ctx, sites.random_public(ctx.rng, 5000))
    evaluate_sites(ctx, [sites.random_seq(ctx.rng, "i%d_%d" % (ctx.seed, k)) for k in range(3000)])
    evaluate_sites(ctx, [sites.keys_seq(ctx.rng, "i%d_%d" % (ctx.seed, k)) for k in range(2000)])
    evaluate_sites(ctx, [sites.reuse_seq(ctx.rng, "i%d_%d" % (ctx.seed, k)) for k in range(3000)])


def replay(ctx, case):
    if case.get("fn") in ("pcollect", "seq"):
        evaluate_sites(ctx, [case])
        return
    if case.get("fn") == "collect" and well_formed_args(case) and model_reads_outside(case):
        run_unsafe(ctx, case)
    else:
        evaluate(ctx, [case])


def _k_ragged(case, failure):
    return (case.get("fn") == "collect" and all(k == "t" for k in case["kinds"]) and model_reads_outside(case)
            and failure["clause"].startswith("reads outside a row"))


def _k_nontuple(case, failure):
    return (case.get("fn") == "collect" and any(k != "t" for k in case["kinds"]) and model_reads_outside(case)
            and failure["clause"].startswith("reads outside a row"))


def _k_none_arg(case, failure):
    return ((case.get("cols_arg") == "none" or case.get("data_arg") == "none")
            and failure["clause"] == "a malformed argument did not raise a Python exception")


KNOWN_PREDICATES = {"c10_ragged_rows": _k_ragged, "c10_non_tuple_rows": _k_nontuple, "c10_none_argument": _k_none_arg}
