"""C09 — Compressed column encodings are lossless.

Correspondence: sequences are encoded and expanded by orso.schema.{RLE,Dictionary,Sparse,Constant,
Function}Column and by Model/Encodings.lean; stored form (`.values`, `.lengths`, `.encoding`,
`.indices`), expansion (`.materialize()`) and numpy dtype kind are compared.  The oracle evaluates
the property on the implementation's own outputs: element-for-element reproduction (Python
equality, NaN equal to NaN, text exact, nulls exact, never narrowed to a smaller numeric type),
the compression clauses on the stored form, and commutation of an element-wise function with
expansion.
"""
import itertools
import math
import re
import warnings

from .. import wire
from ..core import InfraError, shrink

NAN = float("nan")
ENCS = ("rle", "dict", "sparse", "const", "func", "funcs")
FUNCS = ("double", "upper", "not", "id")  # dtype-preserving: also run on the Lean model
# dtype-changing functions on the stored values (int -> float, narrower -> wider text, int -> text,
# bool -> int): the expansion must follow the dtype of the *mapped* values.  Oracle only.
DTYPE_FUNCS = ("halve", "suffix", "tostr", "toint", "invert")
# (`invert` keeps the dtype but is type-sensitive: `~` is logical negation on booleans and bitwise
# complement on integers, `tostr` spells True / 1 / 1.0 differently: a stored form that holds the
# values in another type than the input -- even a wider one that compares equal -- maps differently.)
MODEL_MAX_LEN = 1500  # the list model is quadratic in places; longer inputs are oracle-only


# --------------------------------------------------------------------------- values


def is_nan(x):
    return isinstance(x, float) and x != x


def family(x):
    if x is None:
        return "null"
    if isinstance(x, str):
        return "text"
    if isinstance(x, (bool, int, float)):
        return "num"
    if isinstance(x, bytes):
        return "bytes"
    return "other"


def rank(x):
    return 0 if isinstance(x, bool) else 1 if isinstance(x, int) else 2


def py_eq(x, y):
    """Python equality with NaN equal to NaN, None only equal to None, text only to text."""
    if family(x) != family(y):
        return False
    if is_nan(x) or is_nan(y):
        return is_nan(x) and is_nan(y)
    return x == y


def reproduces(x, y, may_be_default=None, peers=None):
    """`y` (from the expansion) reproduces `x` (from the input): equal, and not narrowed to a
    smaller numeric type (bool < int < float).  At a position of a sparse column whose input
    equals the default the default itself (whatever its numeric type) is accepted.  In a sequence
    mixing classes (`peers`: all its elements) an element may come back in the class of another
    element of the sequence that is equal to it (the representative the encoding kept) or a class
    above that one: never in a class narrower than every element of the input equal to it."""
    if not py_eq(x, y):
        return False
    if family(x) == "num" and rank(y) < rank(x):
        if peers is not None and any(family(p) == "num" and rank(p) <= rank(y) and py_eq(p, x) for p in peers):
            # (the representative's class, or a wider one it was promoted to with the other stored values:
            # [True, 1.0, 0] is stored as the runs [True, 0] -> int64 [1, 0]: the 1.0 comes back as the integer 1)
            return True
        if may_be_default is not None and family(may_be_default[0]) == "num" and py_eq(x, may_be_default[0]) \
                and not is_nan(x) and type(y) is type(may_be_default[0]):
            return True
        return False
    return True


def canon(v):
    """numpy / Python value -> wire universe; NaN canonicalised."""
    import numpy

    if isinstance(v, numpy.ndarray):
        return [canon(x) for x in v.tolist()]
    if isinstance(v, (list, tuple)):
        return [canon(x) for x in v]
    if isinstance(v, numpy.generic):
        v = v.item()
    if isinstance(v, float) and v != v:
        return NAN
    if v is None or isinstance(v, (bool, int, float, str, bytes)):
        return v
    return {"__repr__": repr(v)[:80]}


def kind_of(a):
    return a.dtype.kind


NUM_NAMES = ("bool", "int8", "int16", "int32", "int64", "uint8", "uint16", "uint32", "uint64", "float16", "float32", "float64",
             "complex64", "complex128")


def dtname(dt):
    """numpy dtype -> the name the Lean side knows (`Enc.NpDType.ofName`), or None outside the modelled dtypes."""
    if dt.kind == "U":
        return "U%d" % (dt.itemsize // 4)
    if dt.kind == "O":
        return "object"
    if dt.kind in "biufc" and dt.name in NUM_NAMES:
        return dt.name
    return None


def py_f(f, x):
    """Python mirror of the element-wise functions (nulls are fixed)."""
    if x is None:
        return None
    if f == "double":
        return x * 2
    if f == "inc":  # (only used in place: `values += 1`)
        return x + 1
    if f == "upper":
        return x.upper()
    if f == "not":
        return not x
    if f == "halve":
        return x / 2
    if f == "suffix":
        return x + "-x"
    if f == "tostr":
        return str(x)
    if f == "toint":
        return int(x)
    if f == "invert":
        return (not x) if isinstance(x, bool) else ~x
    return x


def np_f(f, arr):
    """The same function applied to a stored numpy array."""
    import numpy

    if arr.dtype.kind == "O":
        out = numpy.empty(len(arr), dtype=object)
        for i, x in enumerate(arr.tolist()):
            out[i] = py_f(f, x)
        return out
    if len(arr) == 0:
        # numpy.array([]) is float64 whatever the kind of the (absent) elements: the function may not
        # be defined on that dtype; there is nothing to map then
        try:
            with warnings.catch_warnings():
                warnings.simplefilter("ignore")
                return _np_f(f, arr)
        except Exception:
            return arr.copy()
    return _np_f(f, arr)


def _np_f(f, arr):
    import numpy

    if f == "double":
        return arr * 2
    if f == "inc":
        return arr + 1
    if f == "upper":
        return numpy.char.upper(arr)
    if f == "not":
        return numpy.logical_not(arr)
    if f == "halve":
        return arr / 2
    if f == "suffix":
        return numpy.char.add(arr, "-x")
    if f == "tostr":
        return arr.astype(str)
    if f == "toint":
        return arr.astype(numpy.int64)
    if f == "invert":
        return numpy.invert(arr)
    return arr.copy()


def f_applicable(f, values):
    ks = {type(v) for v in values if v is not None}
    if f == "id":
        return True
    if f in ("double", "inc"):
        return ks <= {int, float} and all(v is None or isinstance(v, float) or abs(v) < 2**61 for v in values)
    if f == "upper":  # the driver's mirror is ASCII upper-casing
        return ks <= {str} and all(v is None or v.isascii() for v in values)
    if f == "not":
        return ks <= {bool}
    if f == "halve":
        return ks <= {int, float} and all(v is None or isinstance(v, float) or abs(v) <= 2**53 for v in values)
    if f == "suffix":
        return ks <= {str}
    if f == "tostr":
        return ks <= {int} or ks <= {bool} or ks <= {float}
    if f == "toint":
        return ks <= {bool}
    if f == "invert":
        return ks <= {bool} or ks <= {int}
    return False


def spec_values(spec):
    """Deterministic long inputs in compact form (so that replays stay small and shrink on `n`):
    `distinct`: a permutation of n distinct values followed by three repeats; `run`: one value n
    times, then another."""
    n, kind = spec["n"], spec["kind"]
    mk = (lambda i: i + 1) if kind == "int" else (lambda i: "v%d" % i)
    if spec["shape"] == "distinct":
        vs = [mk((i * 7919 + 13) % n) for i in range(n)]
        return vs + vs[:3]
    return [mk(0)] * n + [mk(1)]


def values_of(case):
    if "spec" in case:
        return spec_values(case["spec"])
    if "mix" in case:
        return [p[0] for p in case["mix"]]
    return case["values"]


# --------------------------------------------------------------------------- sequences mixing classes
#
# `"mix": [[value, class], ...]` in place of `"values"`: a sequence whose elements are of *different classes*
# -- Python bool / int / float ("py": the class of the value as written) and numpy scalars of a named dtype --
# with values that may compare equal across the classes (2 == 2.0 == numpy.int64(2) == numpy.float32(2),
# True == 1 == 1.0, 0 == False == 0.0).  Every encoding brings such a sequence to one numpy dtype somewhere
# (numpy.array over the list, or over the run values): the property's clauses about the *stored form* speak
# of the values as stored (after that unification); the round trip is judged at the value level (Python
# equality), and an element may come back in the class of *another input element that is equal to it*
# (every encoding keeps one representative of equal values: the first of a run, the dictionary entry, the
# default) or in a class above the representative's (the stored values are promoted together) -- never in a
# class narrower than every input element equal to it.
# Values are restricted to those every class of the mixture holds exactly (integers within 2**53 next to
# floats, within 2**24 next to float32: beyond, numpy's promotion rounds -- the class of C09-K01).

MIX_CLASSES = ("py", "bool", "int8", "int16", "int32", "int64", "uint8", "float32", "float64")
MIX_CONTAINERS = ("list", "tuple", "array", "array:object")
MIX_FUNCS = ("id", "double", "halve")  # value-level functions (2 * 2 == 2 * 2.0); `tostr` / `invert` tell the classes apart


def mix_ok(mix):
    import numpy

    if not isinstance(mix, list):
        return False
    for p in mix:
        if not (isinstance(p, list) and len(p) == 2 and p[1] in MIX_CLASSES and scalar_ok(p[0]) and not isinstance(p[0], str)):
            return False
        v, k = p
        if k == "py":
            continue
        if v is None:
            return False
        if k == "bool":
            if type(v) is not bool:
                return False
        elif k.startswith(("int", "uint")):
            if type(v) is not int or not numpy.iinfo(k).min <= v <= numpy.iinfo(k).max:
                return False
        elif type(v) is not float or not _holds_float(v, k):
            return False
    nums = [p for p in mix if p[0] is not None]
    floaty = any(type(v) is float for v, _ in nums)
    f32 = any(k == "float32" for _, k in nums)
    for v, k in nums:
        if type(v) is int and floaty and abs(v) > 2**53:
            return False
        if f32 and not is_nan(v) and (abs(v) > 2**24 and abs(v) != float("inf") or not _holds_float(float(v), "float32")):
            return False
    return True


def mix_kinds(case):
    return sorted({("numpy." + k if k != "py" else type(v).__name__) for v, k in case["mix"]})


# how the input sequence is handed to the column class: the classes accept any sequence
NARROW = {  # dtype -> predicate "this Python value is held exactly"
    "int8": lambda v: type(v) is int and -2**7 <= v < 2**7,
    "int16": lambda v: type(v) is int and -2**15 <= v < 2**15,
    "int32": lambda v: type(v) is int and -2**31 <= v < 2**31,
    "uint8": lambda v: type(v) is int and 0 <= v < 2**8,
    "uint16": lambda v: type(v) is int and 0 <= v < 2**16,
    "uint32": lambda v: type(v) is int and 0 <= v < 2**32,
    "uint64": lambda v: type(v) is int and 0 <= v < 2**53,  # beyond: numpy promotes uint64 with int64 to float64 (the class of C09-K01)
    "float16": lambda v: type(v) is float and _holds_float(v, "float16"),
    "float32": lambda v: type(v) is float and _holds_float(v, "float32"),
    "object": lambda v: True,
}
CONTAINERS = ("list", "tuple", "array") + tuple("array:" + k for k in NARROW) + ("array:U12",)
DEFAULT_NP = ("int8", "int16", "int32", "int64", "uint8", "uint16", "float16", "float32", "float64", "bool")
TYPES = {"INTEGER": int, "DOUBLE": float, "VARCHAR": str, "BOOLEAN": bool}


def _holds_float(v, dt):
    import numpy

    if v != v or v in (float("inf"), float("-inf")):
        return True
    with warnings.catch_warnings():
        warnings.simplefilter("ignore")
        return float(numpy.dtype(dt).type(v)) == v


def container_ok(cont, values):
    if cont in ("list", "tuple", "array"):
        return True
    if cont == "array:U12":
        return all(isinstance(v, str) and len(v) <= 12 for v in values)
    if cont.startswith("array:") and cont[6:] in NARROW:
        return all(NARROW[cont[6:]](v) for v in values)
    return False


def default_np_ok(dt, d):
    import numpy

    if dt not in DEFAULT_NP or d is None or isinstance(d, str):
        return False
    if dt == "bool":
        return isinstance(d, bool)
    if isinstance(d, bool):
        return False
    if dt.startswith(("int", "uint")):
        return type(d) is int and numpy.iinfo(dt).min <= d <= numpy.iinfo(dt).max
    return type(d) is float and _holds_float(d, dt)


# --------------------------------------------------------------------------- how the column is declared
#
# Every column class goes through the shared constructor FlatColumn.__init__.  It takes the type as an
# OrsoTypes member or as a type *name* -- plain ('VARCHAR', any letter case) or parametrised
# ('VARCHAR[n]', 'BLOB[n]', 'DECIMAL(p,s)', 'ARRAY<T>') -- and copies the parameters written in the
# name into the attributes `length`, `precision`, `scale`, `element_type` unless the keyword was given.
# ConstantColumn / FunctionColumn reuse `length` as the number of rows, so the width in 'VARCHAR[20]'
# and the row count meet in one attribute.  A case may therefore say how the column is declared:
# `type` (member), `type_name` (any spelling), `kw` (further keywords of the shared constructor).

TYPE_NAME_RE = re.compile(
    r"^(?:(?P<plain>INTEGER|DOUBLE|VARCHAR|BOOLEAN|BLOB|DECIMAL)"
    r"|(?P<wbase>VARCHAR|BLOB)\[(?P<w>\d{1,6})\]"
    r"|DECIMAL\((?P<p>\d{1,2}), ?(?P<s>\d{1,2})\)"
    r"|ARRAY<(?P<elem>INTEGER|DOUBLE|VARCHAR|BOOLEAN)>)$", re.I)


def parse_type_name(t):
    """(base, declared width or None) for the spellings the harness uses; None for anything else."""
    m = TYPE_NAME_RE.match(t) if isinstance(t, str) else None
    if not m:
        return None
    if m.group("plain"):
        return m.group("plain").upper(), None
    if m.group("wbase"):
        return m.group("wbase").upper(), int(m.group("w"))
    if m.group("p") is not None:
        p_, s_ = int(m.group("p")), int(m.group("s"))
        return ("DECIMAL", None) if 0 <= s_ <= p_ <= 38 else None
    return "ARRAY", None


def decl_holds(base, width, v):
    """The declared type admits the value (a null is admitted by every type; a declared width is at least
    the width of the text / bytes it declares)."""
    if v is None:
        return True
    if base == "INTEGER":
        return type(v) is int
    if base == "DOUBLE":
        return type(v) is float
    if base == "BOOLEAN":
        return type(v) is bool
    if base == "DECIMAL":
        return type(v) is int
    if base == "VARCHAR":
        return type(v) is str and (width is None or len(v) <= width)
    if base == "BLOB":
        return type(v) is bytes and (width is None or len(v) <= width)
    return False  # ARRAY<T>: only nulls among the element kinds of this property


KW_KEYS = {"precision", "scale", "element_type", "nullable", "description", "aliases", "default", "length"}


def kw_ok(c, base, width, vs):
    kw = c.get("kw")
    if kw is None:
        return True
    if not isinstance(kw, dict) or not kw or not set(kw) <= KW_KEYS:
        return False
    for k, v in kw.items():
        if k in ("precision", "scale"):
            if type(v) is not int or not 0 <= v <= 38:
                return False
        elif k == "element_type":
            if v not in TYPES:
                return False
        elif k == "nullable":
            if type(v) is not bool:
                return False
        elif k == "description":
            if type(v) is not str:
                return False
        elif k == "aliases":
            if not isinstance(v, list) or not all(type(a) is str for a in v):
                return False
        elif k == "default":
            # the column's declared default (FlatColumn.default, parsed by the type): a value the type admits
            if base not in ("INTEGER", "DOUBLE", "BOOLEAN", "VARCHAR") or v is None or not decl_holds(base, width, v) \
                    or (type(v) is float and (v != v or v in (float("inf"), float("-inf")))):
                return False
        elif k == "length":
            # for RLE / dictionary / sparse columns `length` is what it is for a flat column: the declared
            # width of the text.  (For constant / function columns it is the row count: the case's own key.)
            if c["enc"] in ("const", "func") or base != "VARCHAR" or type(v) is not int or not 0 <= v <= 100000 \
                    or any(x is not None and len(x) > v for x in vs):
                return False
    return True


def declared(c):
    """(base, width) of the case's declared type, (None, None) when it declares none, or False."""
    if "type" in c and "type_name" in c:
        return False
    if "type" in c:
        return (c["type"], None) if c["type"] in TYPES else False
    if "type_name" in c:
        return parse_type_name(c["type_name"]) or False
    return (None, None)


def type_spellings(v, n):
    """Type names under which a constant / function column of `n` rows of `v` can be declared: plain in
    both letter cases and every parametrised form, the declared width at / next to the row count and at
    the width of the value."""
    if v is None:
        return ["INTEGER", "varchar", "VARCHAR[20]", "VARCHAR[%d]" % (n + 1), "BLOB[8]", "DECIMAL(10,2)", "DECIMAL(38, 0)",
                "DECIMAL", "ARRAY<INTEGER>", "array<varchar>"]
    if type(v) is str or type(v) is bytes:
        b = "VARCHAR" if type(v) is str else "BLOB"
        ws = sorted(w for w in {len(v), 20, n, n + 1, n - 1, 255} if w >= len(v) and w >= 0)
        return [b, b.lower()] + ["%s[%d]" % (b, w) for w in ws] + ["%s[%d]" % (b.capitalize(), ws[-1])]
    if type(v) is bool:
        return ["BOOLEAN", "boolean"]
    if type(v) is int:
        return ["INTEGER", "integer", "DECIMAL(10,2)", "decimal(%d, 0)" % min(38, n + 1), "DECIMAL"]
    return ["DOUBLE", "double"]


def kw_choices(base, v):
    """Further keywords of the shared constructor that a caller may add to any column."""
    out = [{"precision": 7, "scale": 3}, {"element_type": "INTEGER"}, {"nullable": False, "description": "d", "aliases": ["k"]}]
    if base in ("INTEGER", "DOUBLE", "BOOLEAN", "VARCHAR") and v is not None and decl_holds(base, None, v) \
            and not (type(v) is float and (v != v or abs(v) == float("inf"))):
        out.append({"default": v})
    return out


def declared_cases():
    """Constant and function columns declared in every form x an explicit row count at, next to and far
    from the declared width."""
    for v in ("", "a", "abcd", b"", b"abc", 0, 7, 1.5, True, None):
        for n in (0, 1, 2, 5, 20, 33):
            for t in type_spellings(v, n):
                for enc in ("const", "func"):
                    yield {"enc": enc, "value": v, "length": n, "type_name": t}
                    if n in (0, 5):
                        yield {"enc": enc, "value": v, "length": n, "type_name": t, "via": "from_dict"}
                base, _ = parse_type_name(t)
                if n in (0, 2, 20):
                    for kw in kw_choices(base, v):
                        yield {"enc": "const", "value": v, "length": n, "type_name": t, "kw": kw}
                        yield {"enc": "func", "value": v, "length": n, "type_name": t, "kw": kw, "cfg": [n]}
            if n in (1, 5):
                t = type_spellings(v, n)[-1]
                for enc in ("const", "func"):
                    yield {"enc": enc, "value": v, "length": n, "type_name": t, "ops": ["mat", "len:%d" % (n + 2), "mat", "flat", "mat"]}
        # no declared type at all, only further keywords
        for kw in kw_choices(None, v) if not isinstance(v, bytes) else ():
            yield {"enc": "const", "value": v, "length": 3, "kw": kw}
            yield {"enc": "func", "value": v, "length": 3, "kw": kw}


def declared_sequence_variants(b, vs):
    """RLE / dictionary / sparse columns declared by type name, with the keywords of a flat column."""
    present = [v for v in vs if v is not None]
    kinds = {type(v) for v in present}
    if kinds <= {str}:
        w = max([len(v) for v in present] or [0])
        yield dict(b, type_name="varchar")
        yield dict(b, type_name="VARCHAR[%d]" % w)
        yield dict(b, type_name="VARCHAR[%d]" % (len(vs) + 1 if len(vs) + 1 >= w else w + 1), kw={"length": w})
        yield dict(b, type="VARCHAR", kw={"length": w + 3, "nullable": False})
    if kinds <= {int}:
        yield dict(b, type_name="integer")
        yield dict(b, type_name="DECIMAL(10,2)")
        yield dict(b, type_name="DECIMAL", kw={"precision": len(vs), "scale": 0})
    if kinds <= {float}:
        yield dict(b, type_name="double", kw={"description": "d"})
    if kinds <= {bool}:
        yield dict(b, type_name="boolean", kw={"aliases": ["k"]})
    if not present:
        yield dict(b, type_name="ARRAY<INTEGER>")
        yield dict(b, type_name="BLOB[8]")
    yield dict(b, via="from_dict")
    for t in {str: ("VARCHAR[40]",), int: ("INTEGER",), float: ("DOUBLE",), bool: ("BOOLEAN",)}.get(next(iter(kinds), None), ()) if len(kinds) == 1 else ():
        yield dict(b, type_name=t, via="from_dict")


def map_fn(op):
    """The element-wise function an op applies to the stored values (replacing them `map:`, in place `imap:`,
    item by item `iset:`), or None."""
    if isinstance(op, str):
        for pre in ("map:", "imap:", "iset:", "uout:", "islice:"):
            if op.startswith(pre):
                return op[len(pre):]
    return None


def ops_of(case):
    """The sequence of uses of the one column object (the plain case: expand once)."""
    if "ops" in case:
        return list(case["ops"])
    if case.get("f"):
        return ["map:" + case["f"], "mat"]
    return ["mat"]


def narrow_funcs(cont):
    """Functions whose numpy result on a narrow array is the Python result (no wrap-around)."""
    dt = cont[6:]
    if dt == "object" or not cont.startswith("array:"):
        return FUNCS + DTYPE_FUNCS
    if dt.startswith(("int", "uint")):
        return ("id", "halve", "tostr")
    if dt == "U12":
        return ("id", "upper", "suffix")
    return ("id",)


def ops_valid(case, xs):
    """Every op is known and applicable to the values as they are at that point."""
    ops = case["ops"]
    if not isinstance(ops, list) or not ops or len(ops) > 8 or ops[-1] != "mat" or "f" in case:
        return False
    enc = case["enc"]
    cur = [case["value"]] if enc in ("const", "func") else list(xs)  # (applicability depends on the kinds only)
    allowed = narrow_funcs(case.get("container", "list")) if "mix" not in case else MIX_FUNCS
    for op in ops:
        if not isinstance(op, str):
            return False
        if op in ("mat", "decoy", "flat", "copy", "schema"):
            continue
        if op == "pickle":
            if enc == "func":  # (the harness's binding is a closure: not picklable, nothing of orso's)
                return False
            continue
        if op.startswith("len:"):
            if enc not in ("const", "func") or not op[4:].isdigit() or int(op[4:]) > 200000:
                return False
            continue
        if op in ("imap:double", "imap:inc", "uout:double", "uout:inc"):
            if enc == "func" or case.get("container", "list").startswith("array:") or not f_applicable("double", cur) \
                    or any(v is None for v in cur):
                return False
            cur = [py_f(map_fn(op), x) for x in cur]
            continue
        if op.startswith(("iset:", "islice:")):
            # a dtype-preserving function written into the stored array item by item / through a slice
            f = map_fn(op)
            if enc == "func" or "mix" in case or case.get("container", "list").startswith("array:") \
                    or f not in ("double", "upper", "not") or not f_applicable(f, cur):
                return False
            cur = [py_f(f, x) for x in cur]
            continue
        if op.startswith("edit:"):
            # the caller edits the expansion it was given last (needs one; dtype-preserving function)
            f = op[5:]
            if "mix" in case or case.get("container", "list").startswith("array:") or f not in ("double", "upper", "not") \
                    or not f_applicable(f, cur) or "mat" not in ops[: ops.index(op)]:
                return False
            continue
        if op.startswith("map:"):
            f = op[4:]
            if enc == "func" or f not in FUNCS + DTYPE_FUNCS or f not in allowed or not f_applicable(f, cur):
                return False
            cur = [py_f(f, x) for x in cur]
            if "mix" not in case:
                allowed = FUNCS + DTYPE_FUNCS  # the mapped array has the dtype numpy gave the result
            continue
        return False
    return True


def has_model(case):
    if case.get("f") in DTYPE_FUNCS or "ops" in case or "default_np" in case:
        return False
    if has_neg_zero(case):
        return False
    if "mix" in case:
        # a list mixing classes: the model brings the elements to numpy's common dtype where the class does
        # (`Enc.unify`: before the encoding for dictionary / sparse columns and for array input, over the run
        # values for a run-length column over a list or an object array)
        if case.get("f") or len(case["mix"]) > MODEL_MAX_LEN:
            return False
        cont = case.get("container", "list")
        return cont in ("list", "tuple", "array") or (cont == "array:object" and case["enc"] == "rle")
    if case.get("container", "list") not in ("list", "tuple", "array"):
        return False
    if isinstance(case.get("value"), bytes):
        return False  # (bytes are outside the model's element kinds: oracle only)
    vals = [case.get("value"), case.get("default")] + (list(case["values"]) if isinstance(case.get("values"), list) else [])
    if any(isinstance(v, str) and v.endswith("\x00") for v in vals):
        return False  # text ending in NUL is outside the model's element kinds (`Enc.endsNul`, open finding C09-K03)
    if case["enc"] == "sparse" and isinstance(case.get("default"), float) and isinstance(case.get("values"), list) \
            and any(v is None for v in case["values"]) \
            and any(type(v) is int and abs(v) > 2**53 for v in case["values"]):
        # integers beyond 2**53 next to nulls are held as Python objects, and Python compares an int with a float
        # default *exactly* (2**63 - 1 != 2.0**63); the model's scan compares after conversion to float64, which
        # is what numpy does for a typed int64 array (C09-K01).  The exact comparison is lossless: oracle only.
        return False
    return case["enc"] in ("const", "func") or len(values_of(case)) <= MODEL_MAX_LEN


def fresh(v):
    """An equal value that is a new object, so that identity cannot stand in for equality."""
    if isinstance(v, bool) or v is None:
        return v
    if isinstance(v, int):
        return int(str(v))
    if isinstance(v, float):
        return NAN * 1 if v != v else float.fromhex(v.hex())
    if isinstance(v, str):
        return (v + " ")[:-1]
    return v


# --------------------------------------------------------------------------- implementation


def build_input(case):
    """The input sequence in the container the case names (fresh objects: identity must not stand
    in for equality)."""
    import numpy

    if "mix" in case:
        # every element in its own class: a fresh Python object, or a numpy scalar of the named dtype
        vs = [fresh(v) if k == "py" else numpy.dtype(k).type(v) for v, k in case["mix"]]
    else:
        vs = [fresh(v) for v in values_of(case)]
    cont = case.get("container", "list")
    if cont == "list":
        return vs
    if cont == "tuple":
        return tuple(vs)
    if cont == "array":
        return numpy.array(vs)
    return numpy.array(vs, dtype=cont[6:])


def build_column(schema, case, calls=None, inp=None):
    """`inp`: a one-element list holding the input object to build from (filled in when empty): the caller keeps
    the very object the constructor was given, and can build a second column from it."""
    import numpy
    from orso.types import OrsoTypes

    enc = case["enc"]
    kw = {"name": "c"}
    if "type" in case:
        kw["type"] = getattr(OrsoTypes, case["type"])
    if "type_name" in case:
        kw["type"] = str(case["type_name"])
    for k, v in (case.get("kw") or {}).items():
        kw[k] = list(v) if isinstance(v, list) else v
    def make(cls, **own):
        # the second way to a column: the dictionary form (`from_dict` is `cls(**dic)` after a look at the type)
        if case.get("via") == "from_dict":
            return cls.from_dict(dict(own, **kw))
        return cls(**own, **kw)

    def the_input():
        if inp is None:
            return build_input(case)
        if not inp:
            inp.append(build_input(case))
        return inp[0]

    if enc == "rle":
        return make(schema.RLEColumn, values=the_input())
    if enc == "dict":
        return make(schema.DictionaryColumn, values=the_input())
    if enc == "sparse":
        own = {"values": the_input()}
        if not case.get("omit_default"):
            d = fresh(case["default"])
            if "default_np" in case:
                d = numpy.dtype(case["default_np"]).type(d)
            own["default_value"] = d
        return make(schema.SparseColumn, **own)
    if enc == "const":
        return make(schema.ConstantColumn, value=case["value"], length=case["length"])
    if enc == "func":
        v, cfg = case["value"], case.get("cfg")

        def binding(*args):
            if calls is not None:
                calls.append(args)
            # (a column declared without a configuration calls its binding with no arguments)
            if list(args) != (list(cfg) if cfg is not None else []):
                return "<binding called with other arguments than the configuration>"
            return v

        if cfg is not None:
            kw["configuration"] = tuple(cfg)
        return make(schema.FunctionColumn, binding=binding, length=case["length"])
    raise InfraError("bad encoding %r" % (enc,))


def build_decoy(schema, case):
    """Another column of the same class with other data, built and expanded while the column under
    test is alive (state shared between objects must not leak)."""
    enc = case["enc"]
    if enc in ("const", "func"):
        v = case["value"]
        other = "decoy" if not isinstance(v, str) else 77
        c2 = dict(case, value=other, length=case["length"] + 3)
        c2.pop("cfg", None)
    else:
        xs = list(values_of(case))
        c2 = {"enc": enc, "values": list(reversed(xs)) + xs[:1] + xs}
        if enc == "sparse":
            c2["default"] = xs[-1] if xs else 0
    build_column(schema, c2).materialize()
    # ... and one of every *other* class over the same data (state shared between the classes: a module-level
    # memo keyed by length / dtype / content would be filled here)
    xs = original(case)[:40]
    if any(isinstance(x, bytes) for x in xs):
        return
    for other in ("rle", "dict", "sparse", "const", "func"):
        if other == enc:
            continue
        if other in ("const", "func"):
            c3 = {"enc": other, "value": xs[-1] if xs else None, "length": len(xs) + 1}
        else:
            if other == "dict" and None in xs and len(xs) >= 2:
                continue
            c3 = {"enc": other, "values": list(reversed(xs))}
            if other == "sparse":
                c3["default"] = xs[0] if xs else None
        build_column(schema, c3).materialize()


TWIN_MAX_LEN = 64


def stored_aliasing(numpy, col, given):
    """Names of the column's stored arrays that are the constructor's input or share memory with it."""
    res = []
    for name in ("values", "encoding", "indices", "lengths"):
        try:
            a = getattr(col, name, None)
        except TypeError:  # (FunctionColumn.values)
            continue
        if a is None or len(a) == 0:
            continue  # (an array without elements: nothing can be changed through it)
        if a is given and isinstance(a, (list, numpy.ndarray)):
            res.append("stored:%s is the input" % name)
        elif isinstance(a, numpy.ndarray) and isinstance(given, numpy.ndarray) and numpy.shares_memory(a, given):
            res.append("stored:" + name)
    return res


def aliasing(numpy, col, m, earlier):
    """How the expansion `m` is tied to anything but itself: names of the column's stored arrays it shares memory
    with, earlier expansions it shares memory with, elements sharing one cell (a zero-stride view), read-only."""
    res = []
    for name in ("values", "encoding", "indices", "lengths"):
        try:
            a = getattr(col, name, None)
        except TypeError:  # (FunctionColumn.values)
            continue
        if isinstance(a, numpy.ndarray) and numpy.shares_memory(m, a):
            res.append("stored:" + name)
    for j, e in enumerate(earlier):
        if numpy.shares_memory(m, e):
            res.append("expansion:%d" % j)
    if m.ndim == 1 and len(m) > 1 and abs(m.strides[0]) < m.itemsize:
        res.append("cells-shared")
    if not m.flags.writeable:
        res.append("read-only")
    return res


def run_impl(case):
    """Encode on the real class, then the case's sequence of uses of that one object (expand; map
    the stored values; expand again; ...)."""
    import numpy
    from orso import schema

    enc = case["enc"]
    out = {}
    at = "construct"
    try:
        with warnings.catch_warnings():
            warnings.simplefilter("ignore")
            calls = []
            inp = []
            col = build_column(schema, case, calls, inp)
            # whose arrays does the column store?  (the unchanged tree builds every stored array anew)
            twin = None
            if inp:
                out["stored_alias"] = stored_aliasing(numpy, col, inp[0])
                if len(inp[0]) <= TWIN_MAX_LEN:
                    out["input_before"] = canon(inp[0])
                    # a second column from the very same input object; it is never touched
                    twin = build_column(schema, case, None, inp)
                    out["twin_before"] = canon(twin.materialize())
            out["attrs"] = [canon(col.length), canon(col.precision), canon(col.scale)]
            if enc == "rle":
                out["values"], out["vkind"] = canon(col.values), kind_of(col.values)
                out["lengths"] = [int(x) for x in col.lengths]
                out["lengths_exact"] = all(type(x) is int or isinstance(x, numpy.integer) for x in col.lengths)
            elif enc == "dict":
                out["values"], out["vkind"] = canon(col.values), kind_of(col.values)
                out["codes"] = [int(x) for x in col.encoding]
            elif enc == "sparse":
                out["values"], out["vkind"] = canon(col.values), kind_of(col.values)
                out["indices"] = [int(x) for x in col.indices]
                out["total"] = int(col.total_length)
            elif enc == "const":
                out["values"], out["vkind"] = canon(col.values), kind_of(col.values)
            mats = []
            live = []  # the expansions handed out so far, kept alive: they are read again at the end
            for k, op in enumerate(ops_of(case)):
                at = "%d:%s" % (k, op)
                if op == "mat":
                    m = col.materialize()
                    if not isinstance(m, numpy.ndarray):
                        m = numpy.asarray(m)
                    mats.append({"mat": canon(m), "mkind": kind_of(m)})
                    mats[-1]["held"] = mats[-1]["mat"]  # (what the caller holds: the expansion, until the caller edits it)
                    live.append(m)
                    mats[-1]["alias"] = aliasing(numpy, col, m, live[:-1])
                    if enc != "func":
                        vdt = numpy.asarray(col.values).dtype
                        ddt = numpy.asarray(col.default_value).dtype if enc == "sparse" else None
                        mats[-1]["dtypes"] = [dtname(vdt), dtname(ddt) if ddt is not None else None, dtname(m.dtype), len(m)]
                elif op.startswith("map:"):
                    col.values = np_f(op[4:], col.values)
                    out["mapped"] = canon(col.values)
                elif op == "imap:double":
                    if len(col.values) or col.values.dtype.kind in "iuf":  # (an empty stored array may be of any dtype)
                        col.values *= 2
                    out["mapped"] = canon(col.values)
                elif op == "imap:inc":
                    if len(col.values) or col.values.dtype.kind in "iuf":
                        col.values += 1
                    out["mapped"] = canon(col.values)
                elif op in ("uout:double", "uout:inc"):
                    # the function through a ufunc that writes its result into the stored array
                    if len(col.values) or col.values.dtype.kind in "iuf":
                        if op == "uout:double":
                            numpy.multiply(col.values, 2, out=col.values)
                        else:
                            numpy.add(col.values, 1, out=col.values)
                    out["mapped"] = canon(col.values)
                elif op.startswith("islice:"):
                    # the function written into the stored array through a slice (`values[:] = f(values)`)
                    col.values[:] = np_f(op[7:], col.values)
                    out["mapped"] = canon(col.values)
                elif op.startswith("iset:"):
                    # the function written into the stored array item by item (`values[i] = f(values[i])`)
                    new = np_f(op[5:], col.values)
                    for i in range(len(col.values)):
                        col.values[i] = new[i]
                    out["mapped"] = canon(col.values)
                elif op.startswith("edit:"):
                    # the caller edits the expansion it was given last: it is the caller's array
                    m = live[-1]
                    try:
                        new = np_f(op[5:], m)
                    except Exception:
                        new = None  # (the function is not defined on what this expansion holds: nothing is edited)
                    if new is not None:
                        try:
                            m[...] = new
                        except ValueError as e:
                            if "read-only" in str(e):
                                mats[-1]["edit_error"] = str(e)[:80]
                        except TypeError:
                            pass
                        mats[-1]["held"] = canon(m)
                elif op == "decoy":
                    build_decoy(schema, case)
                elif op == "flat":
                    col.to_flatcolumn()
                elif op == "copy":
                    # go on with a deep copy; the original is expanded and dropped (nothing may be shared)
                    import copy

                    col, old = copy.deepcopy(col), col
                    old.materialize()
                    if enc != "func" and len(numpy.asarray(old.values)):
                        try:
                            old.values[...] = old.values[::-1].copy()
                        except (TypeError, ValueError):
                            pass
                elif op == "schema":
                    # the column travels inside relation schemas (added to another schema, looked up by name,
                    # listed, written out as a dictionary, popped): what comes out is expanded from then on
                    from orso.types import OrsoTypes

                    left = schema.RelationSchema(name="l", columns=[schema.FlatColumn(name="a", type=OrsoTypes.INTEGER)])
                    right = schema.RelationSchema(name="r", columns=[schema.ConstantColumn(name="k", value=1, length=2), col])
                    both = left + right
                    both.to_dict()
                    both.all_column_names()
                    if both.find_column("c") is None or both.column("c") is None:
                        raise LookupError("the column is not found in the schema it was added to")
                    col = both.pop_column("c")
                    if col is None:
                        raise LookupError("the column cannot be taken out of the schema it was added to")
                elif op == "pickle":
                    import pickle

                    col, old = pickle.loads(pickle.dumps(col)), col
                    old.materialize()
                elif op.startswith("len:"):
                    col.length = int(op[4:])
                else:
                    raise InfraError("bad op %r" % (op,))
            out["mats"] = mats
            out["mat"], out["mkind"] = mats[-1]["mat"], mats[-1]["mkind"]
            # every expansion read again after all later uses of the column
            out["reread"] = [canon(m) for m in live]
            if twin is not None:
                # the untouched twin expanded again, the input read again
                out["twin_after"] = canon(twin.materialize())
                out["input_after"] = canon(inp[0])
            if enc == "func":
                out["calls"] = len(calls)
                # an impure binding (a counter): "its value repeated" means one value, however
                # many times the binding is consulted
                ticks = []

                def counter(*cfg):
                    ticks.append(len(ticks))
                    return ticks[-1]

                n_last = [int(o[4:]) for o in ops_of(case) if o.startswith("len:")]
                col2 = schema.FunctionColumn(name="c", binding=counter, length=n_last[-1] if n_last else case["length"])
                out["counter_mat"] = canon(col2.materialize())
    except InfraError:
        raise
    except Exception as e:
        return {"raised": type(e).__name__, "msg": str(e)[:120], "at": at}
    return out


# --------------------------------------------------------------------------- model


def model_line(case):
    enc, f = case["enc"], case.get("f")
    if "mix" in case:
        # `_mix`: the class sees the elements in their own classes (a list, an object array); `_cast`: numpy.array
        # over the list has brought them to one dtype before the class sees them
        early = case.get("container", "list") == "array"
        if enc == "rle":
            return "C09 rle_%s " % ("cast" if early else "mix") + wire.line(list(values_of(case)))
        if enc == "dict":
            return "C09 dict_cast " + wire.line(list(values_of(case)))
        return "C09 sparse_cast " + wire.line(list(values_of(case)), case["default"])
    if enc in ("rle", "dict"):
        return "C09 %s%s " % (enc, "_map" if f else "") + wire.line(*([f] if f else []), list(values_of(case)))
    if enc == "sparse":
        return "C09 sparse%s " % ("_map" if f else "") + wire.line(*([f] if f else []), list(values_of(case)), case["default"])
    if enc == "const":
        return "C09 const%s " % ("_map" if f else "") + wire.line(*([f] if f else []), case["value"], case["length"])
    return "C09 func " + wire.line(case["value"], case["length"])


def model_out(case, text):
    """Driver answer -> the same dictionary shape as run_impl."""
    if not text.startswith("ok"):
        raise InfraError("model rejected case %r: %r" % (case, text))
    m = [canon(x) for x in wire.dec_all(text[2:])]
    enc, f = case["enc"], case.get("f")

    def mat(x):
        if isinstance(x, list) and len(x) == 2 and x[0] == "err" and isinstance(x[1], str) and x[1].endswith("Error"):
            raise InfraError("model's expansion failed on %r: %r" % (case, x))
        return x

    if len(m) == 1 and isinstance(m[0], list) and m[0][:1] == ["err"]:
        return {"raised": m[0][1]}
    if enc == "rle":
        if f:
            return {"mapped": m[0], "mat": mat(m[1]), "mkind": m[2]}
        return {"values": m[0], "lengths": m[1], "mat": mat(m[2]), "vkind": m[3], "mkind": m[3]}
    if enc == "dict":
        if f:
            return {"mapped": m[0], "mat": mat(m[1]), "mkind": m[2]}
        return {"values": m[0], "codes": m[1], "mat": mat(m[2]), "vkind": m[3], "mkind": m[3]}
    if enc == "sparse":
        if f:
            return {"mapped": m[0], "mat": mat(m[1]), "mkind": m[2]}
        return {"indices": m[0], "values": m[1], "total": m[2], "vkind": m[3], "mat": mat(m[4]), "mkind": m[5]}
    if enc == "const":
        if f:
            return {"mapped": m[0], "mat": mat(m[1]), "mkind": m[2]}
        return {"values": m[0], "mat": mat(m[1]), "vkind": m[2], "mkind": m[2]}
    return {"mat": m[0], "mkind": m[1]}


def same_obs(impl, model):
    """Compare the observations both sides have (floats by bit pattern, bool is not int)."""
    if ("raised" in impl) != ("raised" in model):
        return False
    if "raised" in impl:
        return impl["raised"] == model["raised"]
    for k, v in model.items():
        if k not in impl:
            return False
        if k in ("vkind", "mkind"):
            # the dtype of an empty array carries no element: float64 / object / text all expand to []
            if k == "mkind" and impl.get("mat") == [] and model.get("mat") == []:
                continue
            if k == "vkind" and impl.get("values") == [] and model.get("values") == []:
                continue
            if impl[k] != v:
                return False
        elif not wire.same(impl[k], v):
            return False
    return True


# --------------------------------------------------------------------------- oracle


def original(case):
    if case["enc"] in ("const", "func"):
        return [case["value"]] * case["length"]
    return list(values_of(case))


def seq_reproduces(xs, ys, default=None, mixed=False):
    """None, or 'generic clause :: detail'."""
    peers = list(xs) if mixed else None
    if not isinstance(ys, list) or len(xs) != len(ys):
        return "the expansion has another length than the input :: expansion has length %s, the input %d" % (
            len(ys) if isinstance(ys, list) else "?", len(xs))
    for i, (x, y) in enumerate(zip(xs, ys)):
        if not reproduces(x, y, default, peers):
            return "an element of the expansion differs from the input (changed, truncated or narrowed) :: element %d of the expansion is %r (%s), the input has %r (%s)" % (
                i, y, type(y).__name__, x, type(x).__name__)
    return None


def at_default(x, dv):
    return family(x) == family(dv) and not is_nan(x) and x == dv


def expected_trace(case):
    """[(clause prefix, expected expansion or None)] for every `mat` of the case's ops.  None: the
    statement demands nothing there (sparse column, an element is represented by the default and a
    function that does not fix the default has been applied -- the stored form does not contain it)."""
    enc = case["enc"]
    cur = original(case)
    dv = case.get("default") if enc == "sparse" else None
    some_at_default = enc == "sparse" and any(at_default(x, dv) for x in cur)
    mapped, n_mat, skip = False, 0, False
    res = []
    for op in ops_of(case):
        if op == "mat":
            prefix = "map then expand: " if mapped else "round trip: " if n_mat == 0 else "expanded again: "
            res.append((prefix, None if skip else list(cur)))
            n_mat += 1
        elif map_fn(op) is not None:
            f = map_fn(op)
            if some_at_default:
                fd = py_f(f, dv) if f_applicable(f, [dv]) else object()
                if not py_eq(fd, dv):
                    skip = True
            cur = [py_f(f, x) for x in cur]
            mapped = True
        elif op.startswith("len:"):
            v = cur[0] if cur else None
            if not cur:  # the value as mapped so far
                v = case["value"]
                for o in ops_of(case)[: ops_of(case).index(op)]:
                    if map_fn(o) is not None:
                        v = py_f(map_fn(o), v)
            cur = [v] * int(op[4:])
    return res


def stored_form(case, out):
    """The compression clauses on the stored form as it was right after construction."""
    enc = case["enc"]
    xs = original(case)
    if enc == "rle" and "lengths" in out:
        vs, ls = out["values"], out["lengths"]
        if len(vs) != len(ls):
            return "stored form: run values and run lengths differ in number :: %d values, %d lengths" % (len(vs), len(ls))
        if any(l < 1 for l in ls) or out.get("lengths_exact") is False:
            return "stored form: a run length is not positive"
        if sum(ls) != len(xs):
            return "stored form: run lengths do not sum to the input length :: sum %d, input %d" % (sum(ls), len(xs))
        for i in range(len(vs) - 1):
            if vs[i] == vs[i + 1]:
                # (judged on the values *as stored*: the run values after numpy brought them to one dtype)
                return "stored form: adjacent runs hold the same value :: stored values %r, run lengths %r" % (vs[:8], ls[:8])
    elif enc == "dict" and "codes" in out:
        vs, cs = out["values"], out["codes"]
        seen = set()
        for v in vs:
            if is_nan(v):
                # a NaN is unequal to every entry, itself included: numpy.unique merges the NaNs of a
                # float array and keeps those of an object array apart; both are "unique" under ==
                # (the model merges them: a float array that keeps them apart is a correspondence matter)
                continue
            k = (family(v), v)  # hash-equal exactly when py_eq
            if k in seen:
                return "stored form: dictionary entries are not unique"
            seen.add(k)
        if len(cs) != len(xs):
            return "stored form: number of codes differs from the input length :: %d codes, %d elements" % (len(cs), len(xs))
        for i, c in enumerate(cs):
            # codes are positions 0..len(values)-1; a negative code would index from the end
            if not (isinstance(c, int) and 0 <= c <= len(vs) - 1):
                return "stored form: a code does not index the dictionary :: code %r at element %d, %d entries" % (c, i, len(vs))
            if not reproduces(xs[i], vs[c], None, list(xs) if "mix" in case else None):
                return "stored form: a code indexes another entry than its element"
    elif enc == "sparse" and "indices" in out:
        vs, ix, dv = out["values"], out["indices"], case["default"]
        if len(vs) != len(ix):
            return "stored form: sparse indices and values differ in number :: %d indices, %d values" % (len(ix), len(vs))
        for v in vs:
            if at_default(v, dv):
                return "stored form: sparse storage holds the default value"
        if any(not (0 <= i < len(xs)) for i in ix) or any(a >= b for a, b in zip(ix, ix[1:])):
            return "stored form: sparse indices are not increasing positions of the input"
        if out["total"] != len(xs):
            return "stored form: total length is not the input's length"
    elif enc == "const" and "values" in out:
        if len(out["values"]) != 1 or not reproduces(case["value"], out["values"][0]):
            return "stored form: constant column does not store its value once"
    return None


def oracle(case, out):
    """The property evaluated on the implementation's outputs. Returns a clause or None."""
    enc = case["enc"]
    xs = original(case)
    if "raised" in out:
        if enc == "dict" and any(v is None for v in xs):
            return None  # the dictionary encoding does not support nulls: outside the quantifier
        return "%s column raised %s" % (enc, out["raised"])
    trace = expected_trace(case)
    mats = out["mats"] if "mats" in out else [{"mat": out["mat"]}]
    if len(mats) != len(trace):
        raise InfraError("%d expansions recorded for %d `mat` ops in %r" % (len(mats), len(trace), case))
    d = [case["default"]] if enc == "sparse" else None
    for k, ((prefix, want), got) in enumerate(zip(trace, mats)):
        if want is not None:
            r = seq_reproduces(want, got["mat"], d, "mix" in case)
            if r:
                return prefix + r
        if k == 0:
            # (after the first expansion, so that the most direct clause is the one reported)
            r = stored_form(case, out)
            if r:
                return r
            if enc == "func":
                cm = out.get("counter_mat")
                n_last = [int(o[4:]) for o in ops_of(case) if o.startswith("len:")]
                n = n_last[-1] if n_last else case["length"]
                if cm is not None and (len(cm) != n or any(x != cm[0] for x in cm)):
                    return "function column does not repeat one value of its binding :: a counting binding expands to %r" % (cm[:6],)
    # an expansion is a sequence of its own: it does not follow what happens to the column afterwards, and the
    # column does not follow what the caller does with it (the unchanged tree hands out a fresh array every time)
    for k, got in enumerate(mats):
        if "reread" in out and k < len(out["reread"]) and "held" in got and not wire.same(out["reread"][k], got["held"]):
            return "an expansion handed out earlier changed with later uses of the column (it is tied to the stored form) :: expansion %d was %r, after the later uses it reads %r" % (
                k, got["held"][:6], out["reread"][k][:6])
    for k, got in enumerate(mats):
        if got.get("edit_error"):
            return "an expansion cannot be edited by the caller (it is not an array of its own) :: expansion %d: %s" % (k, got["edit_error"])
        if got.get("alias"):
            return "an expansion is not an array of its own (shares memory with the stored form or another expansion, or is read-only) :: expansion %d: %s" % (
                k, ", ".join(got["alias"]))
    # the stored form is the column's own: what is done to one column's stored values reaches neither another column
    # built from the same input sequence nor the input sequence itself (the unchanged tree copies in every constructor)
    if "twin_after" in out and not wire.same(out["twin_after"], out["twin_before"]):
        return ("a second column built from the same input sequence and never touched no longer expands to the original after the uses of "
                "the first (the stored values are tied to the constructor's input) :: it expanded to %r, after the first column's uses to %r" % (
                    out["twin_before"][:6], out["twin_after"][:6]))
    if "input_after" in out and not wire.same(out["input_after"], out["input_before"]):
        return "the input sequence itself was changed by the uses of the column built from it (the stored values are tied to the constructor's input) :: it was %r, afterwards %r" % (
            out["input_before"][:6], out["input_after"][:6])
    if out.get("stored_alias"):
        return "the stored form is not the column's own (an array stored by the constructor is the input sequence or shares memory with it) :: %s" % (
            ", ".join(out["stored_alias"]),)
    return None


def _norm(clause):
    return None if clause is None else clause.split(" :: ")[0]


# --------------------------------------------------------------------------- validity


def scalar_ok(v):
    if v is None or isinstance(v, (bool, str)):
        return True
    if isinstance(v, int):
        return -(2**63) <= v < 2**63
    if isinstance(v, float):
        return True  # (-0.0 included: oracle only, see `has_neg_zero`)
    return False


def is_neg_zero(v):
    return isinstance(v, float) and v == 0 and math.copysign(1, v) < 0


def has_neg_zero(case):
    """A negative zero among the case's values / default / constant.  0.0 == -0.0: every encoding may keep either as
    the representative of both (the first of a run, the dictionary entry, the default), so the round trip is judged
    with Python equality and the sign of a zero is not part of it; the model compares floats by bit pattern on the
    wire, so these cases are oracle-only, and only value-level functions are applied (`str` tells the signs apart)."""
    vs = [case.get("value"), case.get("default")]
    if isinstance(case.get("values"), list):
        vs += case["values"]
    if isinstance(case.get("mix"), list):
        vs += [p[0] for p in case["mix"] if isinstance(p, list) and p]
    return any(is_neg_zero(v) for v in vs)


def homogeneous(values):
    ks = {type(v) for v in values if v is not None}
    return len(ks) <= 1


KEYS = {"enc", "values", "spec", "default", "value", "length", "f", "ops", "container", "default_np", "omit_default", "type", "cfg",
        "type_name", "kw", "via", "mix"}


def type_ok(c, vs):
    if "via" in c and (c["via"] != "from_dict" or "type" in c):
        return False  # (the dictionary form carries the type by name)
    d = declared(c)
    if d is False:
        return False
    base, width = d
    if base is not None and not all(decl_holds(base, width, v) for v in vs):
        return False
    return kw_ok(c, base, width, vs)


def valid_case(c):
    if isinstance(c, dict) and c.get("enc") == "funcs":
        return valid_funcs(c)
    if not isinstance(c, dict) or c.get("enc") not in ENCS or not set(c) <= KEYS:
        return False
    f = c.get("f")
    if f is not None and (f not in FUNCS + DTYPE_FUNCS or c["enc"] == "func"):
        return False
    if has_neg_zero(c) and ((f is not None and f not in MIX_FUNCS) or "mix" in c or any(
            map_fn(o) is not None and map_fn(o) not in MIX_FUNCS + ("inc",) for o in c.get("ops", []) or [])
            or any(isinstance(o, str) and o.startswith("edit:") for o in c.get("ops", []) or [])):
        return False
    if c["enc"] in ("const", "func"):
        if not (isinstance(c.get("length"), int) and not isinstance(c.get("length"), bool) and 0 <= c["length"] <= 200000):
            return False
        if "value" not in c or set(c) & {"values", "spec", "default", "container", "default_np", "omit_default", "mix"}:
            return False
        if isinstance(c["value"], bytes):
            # bytes only as the value of a column declared BLOB (numpy's bytes dtype drops trailing NULs)
            if declared(c) in (False, (None, None)) or declared(c)[0] != "BLOB" or c["value"].endswith(b"\x00") \
                    or f is not None or any(o.startswith(("map:", "imap:", "iset:", "uout:", "islice:", "edit:")) for o in c.get("ops", []) if isinstance(o, str)):
                return False
        elif not scalar_ok(c["value"]):
            return False
        if "cfg" in c and (c["enc"] != "func" or not isinstance(c["cfg"], list) or len(c["cfg"]) > 4
                           or not all(type(a) in (int, str) for a in c["cfg"])):
            return False
        if not type_ok(c, [c["value"]]):
            return False
        if "ops" in c and not ops_valid(c, [c["value"]] * c["length"]):
            return False
        return f is None or f_applicable(f, [c["value"]])
    if set(c) & {"value", "length", "cfg"}:
        return False
    if "spec" in c:
        sp = c["spec"]
        if "values" in c or not isinstance(sp, dict) or sp.get("shape") not in ("distinct", "run") \
                or sp.get("kind") not in ("int", "text") or not isinstance(sp.get("n"), int) \
                or isinstance(sp.get("n"), bool) or not (1 <= sp["n"] <= 200000) or set(sp) != {"shape", "kind", "n"}:
            return False
        vs = spec_values(sp)
    elif "mix" in c:
        # a sequence mixing classes: no declared type, value-level functions only
        if "values" in c or set(c) & {"type", "type_name", "kw", "via"} or not mix_ok(c["mix"]) \
                or c.get("container", "list") not in MIX_CONTAINERS:
            return False
        if f is not None and f not in MIX_FUNCS:
            return False
        if any(isinstance(o, str) and o.startswith(("map:", "imap:", "uout:")) and o[4:] not in MIX_FUNCS for o in c.get("ops", []) or []):
            return False
        vs = values_of(c)
    else:
        vs = c.get("values")
    if not isinstance(vs, list) or not all(scalar_ok(v) for v in vs) or not ("mix" in c or homogeneous(vs)):
        return False
    cont = c.get("container", "list")
    if cont not in CONTAINERS or not container_ok(cont, vs):
        return False
    if c["enc"] == "sparse":
        if "default" not in c or not scalar_ok(c["default"]):
            return False
        if "default_np" in c and not default_np_ok(c["default_np"], c["default"]):
            return False
        if "omit_default" in c and (c["omit_default"] is not True or c["default"] is not None or "default_np" in c):
            return False
    elif set(c) & {"default", "default_np", "omit_default"}:
        return False
    if not type_ok(c, vs):
        return False
    if "ops" in c:
        return ops_valid(c, vs)
    return f is None or (f in narrow_funcs(cont) and f_applicable(f, vs))


# --------------------------------------------------------------------------- replays that stand alone
#
# A failure may depend on state an *earlier case of this process* left behind in the implementation (a
# module-level memo, a class attribute).  Such a case does not fail when replayed alone.  So, when the oracle
# fails -- never on a quiet tree -- the case is confirmed in a fresh interpreter: the shrunk case if it
# reproduces there, else the unshrunk one (shrunk again with every attempt in a fresh interpreter, a small
# budget), else the case is reported as found with a remark in the detail.

_FRESH_SNIPPET = r"""
import json, sys, warnings
sys.path.insert(0, sys.argv[1]); sys.path.insert(1, sys.argv[2])
from harness import core
from harness.props import c09
case = core.unjson(json.loads(sys.stdin.read()))
if not c09.valid_case(case):
    print(json.dumps({"clause": None, "invalid": True})); sys.exit(0)
try:
    if case["enc"] == "funcs":
        full = c09.oracle_funcs(case, c09.run_funcs(case))
    else:
        full = c09.oracle(case, c09.run_impl(case))
except core.InfraError as e:
    print(json.dumps({"clause": None, "infra": str(e)[:200]})); sys.exit(0)
print(json.dumps({"clause": c09._norm(full)}))
"""


def fails_fresh(case, clause):
    """Does `case` fail with the (normalised) clause in a fresh interpreter?  None when that cannot be told."""
    import json
    import os
    import subprocess
    import sys

    from .. import core

    try:
        p = subprocess.run([sys.executable, "-c", _FRESH_SNIPPET, core.REPO, core.VERIF], input=json.dumps(core._jsonable(case)),
                           capture_output=True, text=True, timeout=120, env=dict(os.environ, PYTHONHASHSEED="0"))
        return json.loads(p.stdout.strip().split("\n")[-1]).get("clause") == _norm(clause)
    except Exception:
        return None


def reset_impl():
    """Forget whatever earlier cases left behind in the implementation's modules (module-level memos, class
    attributes): reload them.  Only called once the oracle has failed -- never on a quiet tree."""
    import importlib
    import sys

    try:
        for name in ("orso.tools", "orso.schema"):
            if name in sys.modules:
                importlib.reload(sys.modules[name])
        return True
    except Exception:
        return False


def on_clean_state(ctx, c, clause, out, rerun):
    """A failure is first re-examined on a clean implementation state.  Returns (clause, out) to go on with, or
    None when the case fails only with the state earlier cases left behind: it is then put aside (reported at the
    end of the run if nothing that stands alone shows the same clause) and the search goes on, on the clean state,
    for a history that contains its own cause."""
    if ctx.replaying or not reset_impl():
        return clause, out
    out2, clause2 = rerun(c)
    if _norm(clause2) == _norm(clause):
        return clause2, out2
    pend = ctx.__dict__.setdefault("c09_pending", {})
    pend.setdefault(_norm(clause), (c, clause, out))
    ctx.hit("failure-needs-state-of-earlier-cases")
    if clause2 is None:
        return None
    return clause2, out2


NOT_ALONE = ("fails only after earlier cases of the same run (state shared between column objects outlives them); "
             "not reproduced when replayed alone")


def flush_pending(ctx):
    for key, (c, clause, out) in list(ctx.__dict__.get("c09_pending", {}).items()):
        if not already_reported(ctx, clause):
            detail = clause.split(" :: ")[1] if " :: " in clause else None
            ctx.fail(c, _norm(clause), impl=out, model=None, detail="%s [%s]" % (detail, NOT_ALONE))
    ctx.__dict__["c09_pending"] = {}


def already_reported(ctx, clause):
    return not ctx.replaying and any(v.get("sig") == _norm(clause) for v in ctx.violations)


def standalone(ctx, c, c_min, clause):
    """(case to report, remark or None): a case that fails when replayed alone, if there is one."""
    if ctx.replaying or getattr(ctx, "c09_fresh_checks", 0) >= 8:
        return c_min, None
    try:
        full = (oracle_funcs(c_min, run_funcs(c_min)) if c_min["enc"] == "funcs" else oracle(c_min, run_impl(c_min))) or clause
    except InfraError:
        full = clause
    failure = {"clause": _norm(full), "detail": full.split(" :: ")[1] if " :: " in full else None}
    if any(k.get("status") == "open" and KNOWN_PREDICATES.get(k.get("predicate"), lambda *_: False)(c_min, failure) for k in ctx.known):
        return c_min, None  # (an open finding: suppressed by its predicate, nothing to confirm)
    ctx.c09_fresh_checks = getattr(ctx, "c09_fresh_checks", 0) + 1
    r = fails_fresh(c_min, clause)
    if r or r is None:
        return c_min, None
    if c_min is not c and fails_fresh(c, clause):
        return shrink(c, lambda c2: valid_case(c2) and bool(fails_fresh(c2, clause)), budget=30), None
    return c_min, NOT_ALONE


# --------------------------------------------------------------------------- families of function columns
#
# `{"enc": "funcs", "uses": [...]}`: several function columns in one history -- column objects that share a
# binding, a configuration or both, the same object expanded again after its attributes were reassigned,
# bindings that read a cell which changes between expansions.  Every expansion is judged against calling
# *that* binding with *that* column's configuration at *that* moment: whatever an earlier expansion (of this
# or of another column) computed must not show.  Configurations that are `==` but not identical
# (1 / 1.0 / True, 0 / 0.0 / -0.0 / False, 2**53 / 2.0**53), that collide in hash (-1 / -2), that look alike as
# text (1 / '1') and unhashable ones (lists, dictionaries) are the point of the scope.
#
# One use = {"b": binding name, "cfg": [arguments], "length": n} (a new column object), optionally
#   "col": k   -- instead of a new object take the column object of use k and reassign what the use names
#                 (`configuration`, `binding`, `length`; keys not given keep their value)
#   "set": v   -- before the expansion the cell read by the binding `cell` gets the value v
#   "grow": v  -- before the expansion the *first argument of the column's configuration* (a list, the very
#                 object the column holds) gets v appended: the configuration object is the same, its content not

BINDINGS = ("repr", "first", "triple", "kind", "count", "cell")


def bind_value(name, args, cell):
    """The bindings of the family scope (all pure but `cell`, all sensitive to the type of their arguments)."""
    if name == "repr":
        return repr(tuple(args))
    if name == "first":
        return args[0]
    if name == "triple":
        return args[0] * 3
    if name == "kind":
        return type(args[0]).__name__
    if name == "count":
        return len(args)
    if name == "cell":
        return cell
    raise InfraError("bad binding %r" % (name,))


def fn_scalar_ok(v):
    """A value a function column can hold and give back exactly (one numpy element; -0.0 included here:
    nothing merges it with 0.0 on the way through `numpy.array([value] * n)`)."""
    if v is None or isinstance(v, bool):
        return True
    if isinstance(v, int):
        return -(2**63) <= v < 2**63
    if isinstance(v, float):
        return True
    if isinstance(v, str):
        return not v.endswith("\x00") and len(v) <= 64
    return False


def arg_ok(a, depth=0):
    """A configuration argument: a scalar, or (unhashable) a list / dictionary of arguments."""
    if isinstance(a, list):
        return depth < 2 and len(a) <= 4 and all(arg_ok(x, depth + 1) for x in a)
    if isinstance(a, dict):
        return depth < 2 and len(a) <= 3 and all(isinstance(k, str) and not k.startswith("__") and arg_ok(x, depth + 1)
                                                   for k, x in a.items())
    return fn_scalar_ok(a)


def binding_applicable(name, args, cell_set):
    if name in ("repr", "count"):
        return True
    if name == "cell":
        return cell_set
    if not args:
        return False
    a = args[0]
    if name == "kind":
        return True
    if name == "first":
        return fn_scalar_ok(a) and not isinstance(a, (list, dict))
    if name == "triple":
        if isinstance(a, bool) or (isinstance(a, int) and abs(a) < 2**61) or isinstance(a, float):
            return True
        return isinstance(a, str) and len(a) <= 20 and not a.endswith("\x00")
    return False


def uses_resolved(case):
    """[(object index, binding, args, length, cell, grow?)] per use with the `col` references resolved, or None
    when the history is not well formed."""
    uses = case.get("uses")
    if not isinstance(uses, list) or not 1 <= len(uses) <= 200:
        return None
    state = {}  # use index that created the object -> [binding, args, length]
    cell, cell_set = None, False
    res = []
    for k, u in enumerate(uses):
        if not isinstance(u, dict) or not set(u) <= {"b", "cfg", "length", "col", "set", "grow"}:
            return None
        if "set" in u:
            if not fn_scalar_ok(u["set"]):
                return None
            cell, cell_set = u["set"], True
        if "col" in u:
            o = u["col"]
            if type(o) is not int or o not in state:
                return None
            cur = state[o]
        else:
            if not {"b", "cfg", "length"} <= set(u):
                return None
            o = k
            cur = state[o] = [None, None, None]
        if "b" in u:
            if u["b"] not in BINDINGS:
                return None
            cur[0] = u["b"]
        if "cfg" in u:
            if not isinstance(u["cfg"], list) or len(u["cfg"]) > 4 or not all(arg_ok(a) for a in u["cfg"]):
                return None
            cur[1] = [_copy_arg(a) for a in u["cfg"]]
        if "length" in u:
            if type(u["length"]) is not int or not 0 <= u["length"] <= 300:
                return None
            cur[2] = u["length"]
        if "grow" in u:
            if not cur[1] or not isinstance(cur[1][0], list) or len(cur[1][0]) >= 8 or not fn_scalar_ok(u["grow"]):
                return None
            cur[1][0].append(u["grow"])
        if not binding_applicable(cur[0], cur[1], cell_set):
            return None
        res.append((o, cur[0], [_copy_arg(a) for a in cur[1]], cur[2], cell, "grow" in u))
    return res


def _copy_arg(a):
    if isinstance(a, list):
        return [_copy_arg(x) for x in a]
    if isinstance(a, dict):
        return {k: _copy_arg(x) for k, x in a.items()}
    return a


def fresh_arg(a):
    if isinstance(a, list):
        return [fresh_arg(x) for x in a]
    if isinstance(a, dict):
        return {(k + " ")[:-1]: fresh_arg(x) for k, x in a.items()}
    if isinstance(a, float) and a == 0:
        return a  # (float.fromhex keeps the sign; nothing to do)
    return fresh(a)


def run_funcs(case):
    """The history on the real class.  Bindings are fresh function objects per case (one per name: shared by
    every column of the case that names it), so one case is one self-contained history."""
    import numpy
    from orso import schema

    box = {"cell": None}
    fns = {
        "repr": lambda *a: repr(tuple(a)),
        "first": lambda *a: a[0],
        "triple": lambda *a: a[0] * 3,
        "kind": lambda *a: type(a[0]).__name__,
        "count": lambda *a: len(a),
        "cell": lambda *a: box["cell"],
    }
    objs = {}
    mats = []
    at = "construct"
    try:
        with warnings.catch_warnings():
            warnings.simplefilter("ignore")
            for k, u in enumerate(case["uses"]):
                at = "use %d" % k
                if "set" in u:
                    box["cell"] = fresh(u["set"])
                if "col" in u:
                    col = objs[u["col"]]
                    if "b" in u:
                        col.binding = fns[u["b"]]
                    if "cfg" in u:
                        col.configuration = tuple(fresh_arg(a) for a in u["cfg"])
                    if "length" in u:
                        col.length = u["length"]
                else:
                    col = objs[k] = schema.FunctionColumn(name="c%d" % k, binding=fns[u["b"]], length=u["length"],
                                                          configuration=tuple(fresh_arg(a) for a in u["cfg"]))
                if "grow" in u:
                    col.configuration[0].append(fresh(u["grow"]))
                m = col.materialize()
                if not isinstance(m, numpy.ndarray):
                    m = numpy.asarray(m)
                if m.ndim != 1:
                    mats.append({"mat": {"__repr__": "array of shape %r" % (m.shape,)}, "mkind": kind_of(m)})
                else:
                    mats.append({"mat": canon(m), "mkind": kind_of(m)})
    except InfraError:
        raise
    except Exception as e:
        return {"raised": type(e).__name__, "msg": str(e)[:120], "at": at, "mats": mats}
    return {"mats": mats}


def same_value(x, y):
    """Exactly the value: same type, equal (NaN = NaN), same sign of zero."""
    if type(x) is not type(y):
        return False
    if isinstance(x, float):
        if x != x or y != y:
            return x != x and y != y
        return x == y and math.copysign(1, x) == math.copysign(1, y)
    return x == y


def oracle_funcs(case, out):
    res = uses_resolved(case)
    if res is None:
        raise InfraError("not a well-formed family of function columns: %r" % (case,))
    if "raised" in out:
        return "function column raised %s :: at %s: %s" % (out["raised"], out.get("at"), out.get("msg"))
    if len(out["mats"]) != len(res):
        raise InfraError("%d expansions recorded for %d uses in %r" % (len(out["mats"]), len(res), case))
    for k, ((o, b, args, n, cell, _), got) in enumerate(zip(res, out["mats"])):
        want = bind_value(b, args, cell)
        ys = got["mat"]
        what = "use %d (%s, binding %s, configuration %r, length %d)" % (
            k, "a new column" if o == k else "the column of use %d again" % o, b, tuple(args), n)
        if not isinstance(ys, list) or len(ys) != n:
            return "function column: the expansion has another length than the column :: %s expands to %s elements" % (
                what, len(ys) if isinstance(ys, list) else ys)
        for y in ys:
            if not same_value(want, y):
                return ("function column: the expansion is not the value of this column's binding for this column's configuration "
                        ":: %s expands to %r (%s), the binding gives %r (%s)" % (what, y, type(y).__name__, want, type(want).__name__))
    return None


MODEL_BINDINGS = ("first", "triple", "kind", "count", "cell")  # (the Lean driver has no `repr` of floats)


def family_model_line(res):
    """The history for the Lean driver (op `family` runs `Enc.familyExpand`, which the theorem
    `gen_function_family_independent` identifies with the translated FunctionColumn.materialize run on
    every use), or None when a binding is outside the driver's."""
    def small(a):
        if isinstance(a, (list, tuple)):
            return all(small(x) for x in a)
        if isinstance(a, dict):
            return all(small(x) for x in a.values())
        return not is_nan(a)

    if not all(b in MODEL_BINDINGS and small(args) and small(cell) for (_, b, args, _, cell, _) in res):
        return None
    return "C09 family " + wire.line([[b, list(args), n, cell] for (_, b, args, n, cell, _) in res])


def valid_funcs(c):
    return set(c) <= {"enc", "uses"} and uses_resolved(c) is not None


# arguments in classes that `==` (or a hash, or a rendering as text) does not tell apart
EQUAL_ARGS = (
    (1, 1.0, True), (0, 0.0, -0.0, False), (2, 2.0), (2**53, 2.0**53, 2**53 + 1), (-1, -2), (1, "1"), ("a", "a "), (None, "None", 0),
    ("", 0, False, None), ([1], [1.0], [True]), ([], [[]]), ({"k": 1}, {"k": 1.0}), ([0], [-0.0]), (NAN, NAN),
)


def _use(b, cfg, n=2, **more):
    return dict({"b": b, "cfg": list(cfg), "length": n}, **more)


def family_cases(deep=False):
    """Histories of two or three expansions over one binding whose configurations come from one class of
    look-alike arguments (every ordered pair, both as two column objects and as one object reassigned), over
    two bindings with one configuration, with other lengths, longer configurations, a cell that changes."""
    pure = ("repr", "first", "triple", "kind", "count")

    def ok(c):
        return valid_funcs(c)

    for cls in EQUAL_ARGS:
        for b in pure:
            for x in cls:
                for y in cls:
                    for c in (
                        {"enc": "funcs", "uses": [_use(b, [x]), _use(b, [y])]},
                        {"enc": "funcs", "uses": [_use(b, [x], 1), {"col": 0, "cfg": [_copy_arg(y)]}]},
                        {"enc": "funcs", "uses": [_use(b, [x], 3), _use(b, [y], 0), _use(b, [_copy_arg(x)], 1)]},
                        {"enc": "funcs", "uses": [_use(b, [x, y], 1), _use(b, [y, x], 1)]},
                        {"enc": "funcs", "uses": [_use(b, [x, x], 1), _use(b, [y], 1), _use(b, [y, y], 1)]},
                    ):
                        if ok(c):
                            yield c
                    if deep:
                        for z in cls:
                            c = {"enc": "funcs", "uses": [_use(b, [x]), _use(b, [y], 1), _use(b, [z], 3)]}
                            if ok(c):
                                yield c
        # one configuration, two bindings (a memo that forgets the binding)
        for x in cls:
            for b1 in pure:
                for b2 in pure:
                    if b1 != b2:
                        c = {"enc": "funcs", "uses": [_use(b1, [x]), _use(b2, [_copy_arg(x)])]}
                        if ok(c):
                            yield c
                        c = {"enc": "funcs", "uses": [_use(b1, [x], 1), {"col": 0, "b": b2}]}
                        if ok(c):
                            yield c
    # no arguments / the same expansion at other lengths / the same object expanded again
    for b in ("repr", "count"):
        yield {"enc": "funcs", "uses": [_use(b, [], 2), _use(b, [], 0), _use(b, [[]], 3), {"col": 0, "length": 5}]}
    for n1 in (0, 1, 3):
        for n2 in (0, 1, 3):
            yield {"enc": "funcs", "uses": [_use("repr", [1], n1), _use("repr", [1], n2), {"col": 0}, {"col": 1, "length": n1}]}
    # a binding that reads a cell: the value at the time of each expansion
    for v1, v2 in ((1, 1.0), (1.0, 1), (True, 1), (0, False), (0.0, -0.0), ("a", "b"), (None, 0), (0, None), (1, 2), ("", "x")):
        yield {"enc": "funcs", "uses": [_use("cell", [], 2, set=v1), {"col": 0, "set": v2}]}
        yield {"enc": "funcs", "uses": [_use("cell", [7], 1, set=v1), _use("cell", [7], 2, set=v2), {"col": 0}]}
        yield {"enc": "funcs", "uses": [_use("cell", [v1], 1, set=v1), _use("cell", [v2], 1), {"col": 0, "set": v2}]}
    # an unhashable argument that is the same object with other content
    for b in ("repr", "kind", "count"):
        for g in (1, 1.0, None, "a"):
            yield {"enc": "funcs", "uses": [_use(b, [[]], 1), {"col": 0, "grow": g}, {"col": 0, "grow": g}]}
            yield {"enc": "funcs", "uses": [_use(b, [[1], 1], 2), _use(b, [[1.0], 1.0], 2), {"col": 0, "grow": g}, {"col": 1}]}
    # more entries than any small memo holds, then the look-alikes of the first ones
    for b, m in (("repr", 70), ("first", 6), ("triple", 130)):
        yield {"enc": "funcs", "uses": [_use(b, [i], 1) for i in range(m)] + [_use(b, [float(i)], 1) for i in range(3)]
               + [_use(b, [i], 2) for i in (0, 1, m - 1)]}


def random_family(rng):
    cls = rng.choice(EQUAL_ARGS)
    pool = list(cls) + [rng.choice([0, 1, 1.0, "a", None, True, 2.5, -0.0])]
    uses, objs = [], []
    cell_set = False
    for k in range(rng.randint(2, 6)):
        u = {}
        if rng.random() < 0.25:
            u["set"] = rng.choice([1, 1.0, True, 0, 0.0, "a", None])
            cell_set = True
        b = rng.choice(BINDINGS if cell_set else BINDINGS[:-1])
        cfg = [_copy_arg(rng.choice(pool)) for _ in range(rng.choice([0, 1, 1, 1, 2, 3]))]
        if objs and rng.random() < 0.3:
            u["col"] = rng.choice(objs)
            r = rng.random()
            if r < 0.5:
                u["cfg"] = cfg
            elif r < 0.7:
                u["b"] = b
            elif r < 0.85:
                u["length"] = rng.randint(0, 4)
        else:
            u.update(b=b, cfg=cfg, length=rng.choice([0, 1, 1, 2, 3, 7]))
            objs.append(k)
        c = {"enc": "funcs", "uses": uses + [u]}
        if valid_funcs(c):
            uses.append(u)
        elif "col" not in u:
            objs.pop()
    if not uses:
        uses = [_use("repr", [1]), _use("repr", [1.0])]
    return {"enc": "funcs", "uses": uses}


def evaluate_families(ctx, cases):
    ress = [uses_resolved(c) for c in cases]
    lines = [family_model_line(r) for r in ress]
    it = iter(ctx.model.batch([l for l in lines if l is not None]))
    for c, r, l in zip(cases, ress, lines):
        evaluate_funcs(ctx, c, r, next(it) if l is not None else None)


def evaluate_funcs(ctx, c, res, text):
    out = run_funcs(c)
    ctx.case(c, len(res) >= 2)
    ctx.hit("enc:funcs")
    ctx.hit("family:uses:%s" % (len(res) if len(res) <= 3 else "4-6" if len(res) <= 6 else "7+"))
    n_obj = len({r[0] for r in res})
    ctx.hit("family:column-objects:%s" % (n_obj if n_obj <= 3 else "4+"))
    ctx.hit("family:bindings:%d" % len({r[1] for r in res}))
    for r in {r[1] for r in res}:
        ctx.hit("family:binding:" + r)
    if n_obj < len(res):
        ctx.hit("family:object-expanded-again")
    # how two configurations of one binding in the history relate
    seen = {}
    rel = set()
    for (_, b, args, _, _, _) in res:
        for prev in seen.get(b, []):
            try:
                eq = tuple(prev) == tuple(args)
            except Exception:
                eq = False
            ident = repr(prev) == repr(args)
            rel.add("identical" if ident else "equal-not-identical" if eq else "different")
        seen.setdefault(b, []).append(args)
        for a in args:
            if isinstance(a, (list, dict)):
                rel.add("unhashable-argument")
    for r in sorted(rel):
        ctx.hit("family:configurations:" + r)
    if any(r[5] for r in res):
        ctx.hit("family:argument-object-mutated")
    if any(r[1] == "cell" for r in res):
        ctx.hit("family:cell-binding")
    if "raised" in out:
        ctx.hit("raised:" + out["raised"])
    clause = oracle_funcs(c, out)
    if text is None:
        ctx.hit("oracle-only")
    else:
        if not text.startswith("ok"):
            raise InfraError("model rejected the family %r: %r" % (c, text))
        m = {"mats": [{"mat": canon(x)} for x in wire.dec_all(text[2:])[0]]}
        mc = oracle_funcs(c, m)
        if mc is not None:
            raise InfraError("the Lean model's own output violates the property on %r: %s (%r)" % (c, mc, m))
        if clause is None and "raised" not in out and not all(wire.same(a["mat"], b["mat"]) for a, b in zip(out["mats"], m["mats"])):
            ctx.disagree(c, out, m, what="expansions of a family of function columns")
    if clause is None:
        return
    def still(c2):
        if not valid_case(c2):
            return False
        try:
            reset_impl()
            return _norm(oracle_funcs(c2, run_funcs(c2))) == _norm(clause)
        except InfraError:
            return False

    if already_reported(ctx, clause):
        ctx.fail(c, _norm(clause), impl=out, model=None, detail=clause.split(" :: ")[1] if " :: " in clause else None)
        return

    def rerun(c2):
        o = run_funcs(c2)
        return o, oracle_funcs(c2, o)

    r = on_clean_state(ctx, c, clause, out, rerun)
    if r is None:
        return
    clause, out = r
    c_min = shrink(c, still, budget=300) if not ctx.replaying else c
    c_min, remark = standalone(ctx, c, c_min, clause)
    o2 = run_funcs(c_min)
    full = oracle_funcs(c_min, o2) or clause
    detail = full.split(" :: ")[1] if " :: " in full else None
    ctx.fail(c_min, _norm(full), impl=o2, model=None, detail=detail if remark is None else "%s [%s]" % (detail, remark))



# --------------------------------------------------------------------------- evaluation


def k01_class(case):
    """Inputs of the class of C09-K01: a sparse column holding integers beyond 2**53 whose default is
    a float (numpy promotes int64 with float64 to float64, which rounds such integers)."""
    if case.get("enc") != "sparse" or not isinstance(case.get("default"), float):
        return False
    if "spec" in case or not isinstance(case.get("values"), list):
        return False
    # (the stored integers as they are at any point of the case's uses: a map may take them beyond 2**53)
    cur = list(case["values"])
    stages = [cur]
    try:
        for op in ops_of(case):
            if map_fn(op) is not None:
                cur = [py_f(map_fn(op), x) for x in cur]
                stages.append(cur)
    except Exception:
        pass
    return any(isinstance(v, int) and not isinstance(v, bool) and abs(v) > 2**53 for st in stages for v in st)


def is_big_int_float_default(case, failure=None):
    """C09-K01, and only it: the failing element is an integer beyond 2**53 that came back as exactly
    its float64 rounding -- either stored and rounded by the expansion into float64, or judged equal to
    the float default after promotion to float64 and therefore not stored at all (it then comes back as
    the default).  Any other failure on such an input (another element, another value, a stored-form
    clause, an exception) is reported."""
    if not k01_class(case):
        return False
    if failure is None:
        return True
    import ast
    import re

    if "an element of the expansion differs" not in (failure.get("clause") or ""):
        return False
    m = re.match(r"element (\d+) of the expansion is (\S+) \(float\), the input has (.+) \((\w+)\)$", failure.get("detail") or "")
    if not m:
        return False
    try:
        i, got = int(m.group(1)), ast.literal_eval(m.group(2))
    except (ValueError, SyntaxError):
        return False
    if not isinstance(got, float):
        return False
    if m.group(4) == "int":
        # rounded by the expansion: the expected element (after any map) is an integer beyond 2**53
        try:
            want = int(m.group(3))
        except ValueError:
            return False
        if abs(want) > 2**53 and got == float(want) and int(got) != want:
            return True
    # not stored: the original element is beyond 2**53 and equal to the default once both are float64
    v = case["values"][i] if i < len(case["values"]) else None
    return isinstance(v, int) and not isinstance(v, bool) and abs(v) > 2**53 and got == float(v) and int(got) != v \
        and got == case["default"]


_DT_CACHE = {}


def model_result_dtype(ctx, v, d):
    """`Gen.Encodings.sparseResultDType` (the dtype decision extracted from the source, over numpy's own
    promotion table) evaluated by the Lean driver on two dtype names."""
    if (v, d) not in _DT_CACHE:
        text = ctx.model.one("C09 sparse_dtype " + wire.line(v, d))
        if not text.startswith("ok"):
            raise InfraError("model rejected dtype names %r, %r: %r" % (v, d, text))
        _DT_CACHE[(v, d)] = wire.dec_all(text[2:])[0]
    return _DT_CACHE[(v, d)]


def dtype_correspondence(ctx, c, out):
    """The dtype of every expansion against the model: for a sparse column the extracted decision over
    the dtypes of the stored values and of the default; for the other encodings the dtype of the stored
    values (an expansion holds its values in the dtype they are stored in)."""
    for k, mt in enumerate(out.get("mats", [])):
        dts = mt.get("dtypes")
        if not dts:
            continue
        v, d, r, n = dts
        if c["enc"] == "sparse":
            if v is None or d is None or r is None:
                ctx.hit("dtype:outside-model")
                continue
            want = model_result_dtype(ctx, v, d)
            ctx.hit("dtype:sparse:%s+%s" % (v.rstrip("0123456789") if v[0] == "U" else v, d.rstrip("0123456789") if d[0] == "U" else d))
        else:
            if v is None or r is None or (c["enc"] == "rle" and (n == 0 or (v[0] == "U" and r[0] == "U"))):
                # RLEColumn.materialize rebuilds the array from a Python list: an empty expansion is float64
                # whatever was stored, and text gets the width of its widest element (never cut: the
                # oracle compares the elements)
                continue
            want = v
        if r != want:
            ctx.disagree(c, {"expansion": k, "values_dtype": v, "default_dtype": d, "result_dtype": r}, {"result_dtype": want},
                         what="dtype of the expansion")
            return


_SESSION_CACHE = {}


def session_correspondence(ctx, c, out):
    """The heap model (`Enc.session` with the origin of the expansion read off the source and the translated
    `materialize` as decoder) against the implementation, on the cases that are exactly that session: expand, map
    the stored values in place, read the first expansion again, expand again."""
    ops = c.get("ops")
    if not ops or len(ops) != 3 or ops[0] != "mat" or ops[2] != "mat" or c["enc"] not in ("rle", "dict", "const"):
        return
    f = map_fn(ops[1])
    if f not in FUNCS or ops[1].startswith("map:") or set(c) - {"enc", "values", "value", "length", "ops"}:
        return
    xs = [c["value"]] if c["enc"] == "const" else list(c["values"])
    if len(xs) > 200 or any(isinstance(v, bytes) or (isinstance(v, str) and v.endswith("\x00")) for v in xs) \
            or (c["enc"] == "dict" and None in xs and len(xs) >= 2) or len(out.get("reread", [])) != 2:
        return
    line = "C09 session " + wire.line(c["enc"], f, xs, c.get("length", 0))
    if line not in _SESSION_CACHE:
        text = ctx.model.one(line)
        if not text.startswith("ok"):
            raise InfraError("model rejected the session %r: %r" % (c, text))
        _SESSION_CACHE[line] = [canon(x) for x in wire.dec_all(text[2:])]
    want = _SESSION_CACHE[line]
    got = [out["reread"][0], out["mats"][1]["mat"]]
    ctx.hit("session-correspondence:" + c["enc"])
    if not wire.same(got, want):
        ctx.disagree(c, {"first_expansion_at_the_end": got[0], "second_expansion": got[1]},
                     {"first_expansion_at_the_end": want[0], "second_expansion": want[1]}, what="session on the heap model")


def twin_correspondence(ctx, c, out):
    """The heap model (`Enc.twinSession` with the origin of the stored values read off the constructor in the source)
    against the implementation, on the cases that are exactly that history: two columns from one input ARRAY, one
    in-place map of the first column's stored values, both expanded, the input read again."""
    ops = c.get("ops")
    if not ops or len(ops) != 2 or ops[1] != "mat" or c["enc"] not in ("rle", "dict", "sparse") or c.get("container") != "array":
        return
    f = map_fn(ops[0])
    if f not in FUNCS or ops[0].startswith("map:") or set(c) - {"enc", "values", "default", "ops", "container"} or "twin_after" not in out:
        return
    xs = list(c["values"])
    if not xs or any(isinstance(v, bytes) or v is None or (isinstance(v, str) and v.endswith("\x00")) for v in xs) \
            or has_neg_zero(c) or any(is_nan(v) for v in xs) or (c["enc"] == "sparse" and k01_class(c)):
        return
    d = c.get("default")
    if c["enc"] == "sparse":
        # the value-level decoder: a dense column (nothing at the default: the shape in which the stored values are the
        # whole sequence) whose default does not change the dtype of the expansion
        if any(at_default(x, d) for x in xs) or not (d is None or type(d) is type(xs[0])):
            return
    line = "C09 twin " + wire.line(c["enc"], f, xs, d)
    if line not in _SESSION_CACHE:
        text = ctx.model.one(line)
        if not text.startswith("ok"):
            raise InfraError("model rejected the twin session %r: %r" % (c, text))
        _SESSION_CACHE[line] = [canon(x) for x in wire.dec_all(text[2:])]
    want = _SESSION_CACHE[line]
    got = [out["mats"][-1]["mat"], out["twin_after"], out["input_after"]]
    ctx.hit("twin-correspondence:" + c["enc"])
    if not wire.same(got, want):
        ctx.disagree(c, {"first_expansion": got[0], "untouched_twin_expansion": got[1], "input_at_the_end": got[2]},
                     {"first_expansion": want[0], "untouched_twin_expansion": want[1], "input_at_the_end": want[2]},
                     what="two columns over one input on the heap model")


_CTOR_CACHE = {}
DECIMAL_PS = re.compile(r"^DECIMAL\((\d{1,2}), ?(\d{1,2})\)$", re.I)


def ctor_correspondence(ctx, c, out):
    """The attributes the shared constructor leaves behind against `Gen.Encodings.ctorResolve` (the block of
    FlatColumn.__init__ translated from the source, run by the Lean driver): keywords `length`, `precision`,
    `scale` against the parameters written in the type name."""
    d = declared(c)
    kw = c.get("kw") or {}
    n_kw = c["length"] if c["enc"] in ("const", "func") else kw.get("length")
    dn = dp = ds = None
    if "type_name" in c:
        dn = d[1]
        m = DECIMAL_PS.match(c["type_name"])
        if m:
            dp, ds = int(m.group(1)), int(m.group(2))
    key = (n_kw, kw.get("precision"), kw.get("scale"), dn, dp, ds)
    if key not in _CTOR_CACHE:
        text = ctx.model.one("C09 ctor " + wire.line(*key))
        if not text.startswith("ok"):
            raise InfraError("model rejected constructor arguments %r: %r" % (key, text))
        _CTOR_CACHE[key] = [canon(x) for x in wire.dec_all(text[2:])]
    # `length` is the attribute the encodings read (precision / scale / element type are none of this
    # property's business: a change to how *they* are resolved must not alarm here)
    want = list(_CTOR_CACHE[key])[:1]
    got = list(out.get("attrs") or [])[:1]
    ctx.hit("ctor:" + ("keyword+declared" if n_kw is not None and dn is not None else "keyword" if n_kw is not None
                       else "declared" if dn is not None else "neither"))
    if got != want:
        ctx.disagree(c, {"length after construction": got}, {"ctorResolve": want},
                     what="attributes left by the shared constructor")


def evaluate(ctx, cases):
    evaluate_families(ctx, [c for c in cases if c["enc"] == "funcs"])
    cases = [c for c in cases if c["enc"] != "funcs"]
    with_model = [has_model(c) for c in cases]
    it = iter(ctx.model.batch([model_line(c) for c, w in zip(cases, with_model) if w]))
    mouts = [next(it) if w else None for w in with_model]
    for c, mo in zip(cases, mouts):
        out = run_impl(c)
        xs = original(c)
        nontrivial = len(xs) >= 2
        ctx.case(c, nontrivial)
        ctx.hit("enc:" + c["enc"] + (":map:" + c["f"] if c.get("f") else ""))
        ctx.hit("len:%s" % (len(xs) if len(xs) < 6 else "6-20" if len(xs) <= 20 else "21-120" if len(xs) <= 120
                            else "121-300" if len(xs) <= 300 else "301-30000" if len(xs) <= 30000 else "30001+"))
        if "spec" in c:
            ctx.hit("spec:%s:%s:%d" % (c["spec"]["shape"], c["spec"]["kind"], c["spec"]["n"]))
        if "ops" in c:
            names = [o.split(":")[0] for o in c["ops"]]
            ctx.hit("ops:%d-expansions:%s" % (names.count("mat"), "+".join(sorted(set(names) - {"mat"})) or "only"))
        if c.get("container", "list") != "list":
            ctx.hit("container:" + c["container"])
        for k_ in ("default_np", "type"):
            if k_ in c:
                ctx.hit("%s:%s" % (k_, c[k_]))
        for k_ in ("omit_default", "cfg", "via"):
            if k_ in c:
                ctx.hit(k_)
        if "type_name" in c:
            base_, w_ = parse_type_name(c["type_name"])
            form = "plain" if c["type_name"].upper() == base_ else "parametrised"
            ctx.hit("type_name:%s:%s:%s" % (c["enc"], base_, form))
            if c["enc"] in ("const", "func") and w_ is not None:
                # where the declared width lies relative to the row count (both live in `length`)
                ctx.hit("declared-width-vs-rows:" + ("equal" if w_ == c["length"] else "one-off" if abs(w_ - c["length"]) == 1 else "apart"))
        for k_ in sorted(c.get("kw") or {}):
            ctx.hit("kw:" + k_)
        ks = sorted({type(v).__name__ for v in xs}) or ["empty"]
        ctx.hit("kind:" + "+".join(ks))
        if "mix" in c:
            ctx.hit("mix:" + c["enc"] + ":" + c.get("container", "list"))
            for k_ in mix_kinds(c):
                ctx.hit("mix:class:" + k_)
            ctx.hit("mix:distinct-classes:%d" % len(mix_kinds(c)))
            eqn = sum(1 for (a, ka), (b, kb) in zip(c["mix"], c["mix"][1:])
                      if py_eq(a, b) and (ka != kb or type(a) is not type(b)))
            ctx.hit("mix:equal-neighbours-of-different-class:%s" % (eqn if eqn < 3 else "3+"))
        if c["enc"] == "sparse":
            ctx.hit("default:" + (repr(c["default"]) if c["default"] in (None, 0, "") and not isinstance(c["default"], (bool, float))
                                  else type(c["default"]).__name__))
        if "raised" in out:
            ctx.hit("raised:" + out["raised"])
        clause = oracle(c, out)
        if mo is None:
            ctx.hit("oracle-only")
        m = model_out(c, mo) if mo is not None else None
        # the model is proved lossless: its own answer must satisfy the same oracle, otherwise the
        # driver glue / wire / this harness is broken (never a VIOLATION)
        if m is not None and "raised" not in m and not k01_class(c):
            m2 = dict(m)
            if "values" not in m2 and c.get("f") is None and c["enc"] != "func":
                raise InfraError("model output lacks the stored form for %r" % (c,))
            mc = oracle(c, m2)
            if mc is not None:
                raise InfraError("the Lean model's own output violates the property on %r: %s (%r)" % (c, mc, m))
        if clause is not None:
            def still(c2):
                if not valid_case(c2):
                    return False
                try:
                    reset_impl()
                    return _norm(oracle(c2, run_impl(c2))) == _norm(clause)
                except InfraError:
                    return False

            # long inputs: each attempt costs a full encode / expand, keep the search short
            budget = 300 if len(xs) <= 2000 else 40
            if already_reported(ctx, clause):
                # (one replay per clause: further failing cases are only counted, or matched against the open findings)
                ctx.fail(c, _norm(clause), impl=out, model=m, detail=clause.split(" :: ")[1] if " :: " in clause else None)
                continue

            def rerun(c2):
                o = run_impl(c2)
                return o, oracle(c2, o)

            r = on_clean_state(ctx, c, clause, out, rerun)
            if r is None:
                continue
            clause, out = r
            c_min = shrink(c, still, budget=budget) if not ctx.replaying else c
            remark = None
            if c["enc"] in ("const", "func") or len(xs) <= 2000:
                c_min, remark = standalone(ctx, c, c_min, clause)
            o2 = run_impl(c_min)
            full = oracle(c_min, o2) or clause
            detail = full.split(" :: ")[1] if " :: " in full else None
            ctx.fail(c_min, _norm(full), impl=o2, model=m if c_min is c else None,
                     detail=detail if remark is None else "%s [%s]" % (detail, remark))
        elif m is not None and not same_obs(out, m):
            ctx.disagree(c, out, m)
        elif "raised" not in out:
            dtype_correspondence(ctx, c, out)
            if "type_name" in c or "kw" in c:
                ctor_correspondence(ctx, c, out)
            if "ops" in c:
                session_correspondence(ctx, c, out)
                twin_correspondence(ctx, c, out)


# --------------------------------------------------------------------------- generators

ALPHABETS = [
    ("int", (0, 1, 300)),
    ("float", (0.0, 1.5, NAN)),
    ("float2", (1.0, 2.5, -3.0)),
    ("text", ("", "a", "abcd")),
    ("text2", ("a", "ab", "abc")),
    ("bool+null", (True, False, None)),
    ("int+null", (0, 7, None)),
    ("float+null", (0.0, 2.5, None)),
    ("text+null", ("", "abc", None)),
]

DEFAULTS = {
    "int": (None, 0, "", 0.0, 1.5, 1, True, 300),
    "float": (None, 0, "", 0.0, 1, NAN, 1.5),
    "float2": (None, 0, "", 1, 2.5),
    "text": (None, 0, "", "a", "abcde", "ab"),
    "text2": (None, 0, "", "abc", "abcdef", "b"),
    "bool+null": (None, 0, "", False, True, 1, 0.0),
    "int+null": (None, 0, "", 0.0, 7, 1.5),
    "float+null": (None, 0, "", 0.0, 2.5),
    "text+null": (None, 0, "", "abc", "a"),
}

FUNC2_OF = {"int": ("halve", "tostr", "invert"), "float": ("halve", "tostr"), "float2": ("halve",), "text": ("suffix",),
            "text2": ("suffix",), "bool+null": ("toint", "invert", "tostr"), "int+null": ("halve", "tostr"),
            "float+null": ("halve",), "text+null": ("suffix",)}

# a second function applicable to the result of the first (for map -> expand -> map -> expand)
THEN = {"double": "halve", "halve": "double", "upper": "suffix", "suffix": "upper", "not": "toint", "toint": "double",
        "tostr": "suffix", "invert": "tostr", "id": "id"}
# sparse defaults of the sequence scope: null, the natural zero of the kind, another kind
DEFAULTS_SEQ = {"int": (None, 0, 0.0), "float": (None, 0.0, 0), "float2": (None, 1.0, ""), "text": (None, "", 0),
                "text2": (None, "a", "abcdef"), "bool+null": (None, False, 0), "int+null": (None, 0, ""),
                "float+null": (None, 0.0, 0), "text+null": (None, "", "a")}


def op_sequences(f, f2, enc):
    """Uses of one column object: expand twice; expand, map, expand (a cache of the first expansion
    or of its dtype must not survive the map); map twice; another object / to_flatcolumn in between."""
    yield ["mat", "mat"]
    yield ["decoy", "mat", "flat", "mat"]
    yield ["copy", "mat"]
    yield ["schema", "mat"]
    if enc != "func":
        yield ["mat", "pickle", "mat"]
    for g in (f,) + tuple(f2):
        if g is None:
            continue
        yield ["mat", "map:" + g, "mat"]
        yield ["map:" + g, "mat", "mat"]
        h = THEN.get(g)
        if h:
            yield ["map:" + g, "mat", "map:" + h, "mat"]
    if f == "double":
        yield ["mat", "imap:double", "mat"]
        yield ["mat", "imap:inc", "mat"]
    if f in ("double", "upper", "not") and enc != "func":
        # the stored values changed in place / the caller edits its expansion: an expansion handed out is a
        # sequence of its own (read again at the end of every case), the column does not follow the caller's edits
        yield ["mat", "iset:" + f, "mat"]
        yield ["mat", "edit:" + f, "mat"]
        yield ["mat", "mat", "edit:" + f, "iset:" + f, "mat"]
    if enc in ("const", "func"):
        for k in (0, 1, 4):
            yield ["mat", "len:%d" % k, "mat"]
            if enc == "const" and f is not None:
                yield ["map:" + f, "len:%d" % k, "mat"]

FUNC_OF = {"int": "double", "float": "double", "float2": "double", "text": "upper", "text2": "upper",
           "bool+null": "not", "int+null": "double", "float+null": "double", "text+null": "upper"}


def exhaustive_level(n, with_maps):
    """Every sequence of length exactly `n` over each alphabet through RLE, dictionary and sparse
    (every listed default) columns, optionally with every applicable element-wise function."""
    for name, alpha in ALPHABETS:
        for seq in itertools.product(alpha, repeat=n):
            vs = list(seq)
            if not homogeneous(vs):
                continue
            yield {"enc": "rle", "values": vs}
            yield {"enc": "dict", "values": vs}
            for d in DEFAULTS[name]:
                yield {"enc": "sparse", "values": vs, "default": d}
            for f in ((FUNC_OF[name],) + FUNC2_OF[name]) if with_maps else ():
                if f_applicable(f, vs):
                    yield {"enc": "rle", "values": vs, "f": f}
                    if None not in vs or len(vs) < 2:
                        yield {"enc": "dict", "values": vs, "f": f}
                    for d in DEFAULTS[name]:
                        yield {"enc": "sparse", "values": vs, "default": d, "f": f}


def exhaustive_cases(nmax, nmax_map):
    for n in range(nmax + 1):
        yield from exhaustive_level(n, n <= nmax_map)
    yield from scalar_cases()


def scalar_cases():
    """Constant and function columns: every scalar of the list x lengths, functions, sequences of uses,
    configurations, declared types."""
    scalars = [0, 1, -5, 2**40, 0.0, 1.5, NAN, float("inf"), "", "a", "abcd", "The god of merchants", True, False, None]
    for v in scalars:
        for n in (0, 1, 2, 3, 5, 10):
            yield {"enc": "const", "value": v, "length": n}
            yield {"enc": "func", "value": v, "length": n}
            for f in ("double", "upper", "not") + DTYPE_FUNCS:
                if v is not None and f_applicable(f, [v]):
                    yield {"enc": "const", "value": v, "length": n, "f": f}
        for n in (0, 1, 3):
            fs = [f for f in ("double", "upper", "not") + DTYPE_FUNCS if v is not None and f_applicable(f, [v])]
            for enc in ("const", "func"):
                for ops in op_sequences(fs[0] if fs and enc == "const" else None, fs[1:] if enc == "const" else (), enc):
                    c = {"enc": enc, "value": v, "length": n, "ops": ops}
                    if valid_case(c):
                        yield c
            yield {"enc": "func", "value": v, "length": n, "cfg": [n, "x"]}
            for t, ty in TYPES.items():
                if v is not None and type(v) is ty:
                    yield {"enc": "const", "value": v, "length": n, "type": t}
                    yield {"enc": "func", "value": v, "length": n, "type": t, "cfg": [7]}


def shared_input_cases(nmax):
    """Two columns over ONE input object (`run_impl` builds an untouched twin from the very object the first column
    was given, for every case up to TWIN_MAX_LEN elements): every sequence of length 0..nmax over each alphabet, handed
    over as numpy array / list / tuple, the first column's stored values changed in place in every form (`*=`, `+=`,
    a ufunc with `out=`, item assignment, slice assignment, the original of a deep copy overwritten), then the twin
    expanded and the input read again."""
    for name, alpha in ALPHABETS:
        for n in range(nmax + 1):
            for seq in itertools.product(alpha, repeat=n):
                vs = list(seq)
                if not homogeneous(vs):
                    continue
                f = FUNC_OF[name] if f_applicable(FUNC_OF[name], vs) else None
                bases = [{"enc": "rle", "values": vs}]
                if None not in vs or len(vs) < 2:
                    bases.append({"enc": "dict", "values": vs})
                bases += [{"enc": "sparse", "values": vs, "default": d} for d in DEFAULTS_SEQ[name]]
                seqs = [["imap:double", "mat"], ["mat", "imap:inc", "mat"], ["uout:double", "mat"], ["mat", "uout:inc", "mat"], ["copy", "mat"]]
                if f in ("double", "upper", "not"):
                    seqs += [["iset:" + f, "mat"], ["islice:" + f, "mat"], ["mat", "islice:" + f, "mat"]]
                for b in bases:
                    for cont in ("array", "list", "tuple"):
                        if not container_ok(cont, vs):
                            continue
                        for ops in seqs:
                            c = dict(b, ops=ops) if cont == "list" else dict(b, ops=ops, container=cont)
                            if valid_case(c):
                                yield c


def sequence_cases(nmax):
    """Sequences of uses on one object, other containers, declared types: every sequence of length
    0..nmax over each alphabet."""
    for name, alpha in ALPHABETS:
        type_name = {"int": "INTEGER", "float": "DOUBLE", "float2": "DOUBLE", "text": "VARCHAR", "text2": "VARCHAR",
                     "bool+null": "BOOLEAN", "int+null": "INTEGER", "float+null": "DOUBLE", "text+null": "VARCHAR"}[name]
        for n in range(nmax + 1):
            for seq in itertools.product(alpha, repeat=n):
                vs = list(seq)
                if not homogeneous(vs):
                    continue
                fs = [f for f in (FUNC_OF[name],) + FUNC2_OF[name] if f_applicable(f, vs)]
                bases = [{"enc": "rle", "values": vs}]
                if None not in vs or len(vs) < 2:
                    bases.append({"enc": "dict", "values": vs})
                bases += [{"enc": "sparse", "values": vs, "default": d} for d in DEFAULTS_SEQ[name]]
                for b in bases:
                    for ops in op_sequences(fs[0] if fs else None, fs[1:], b["enc"]):
                        c = dict(b, ops=ops)
                        if valid_case(c):
                            yield c
                    for cont in ("tuple", "array"):
                        yield dict(b, container=cont)
                    yield dict(b, type=type_name)
                    yield from declared_sequence_variants(b, vs)
                    if b["enc"] == "sparse" and b["default"] is None:
                        yield dict(b, omit_default=True)


# narrow numpy containers: value pools exactly representable in the dtype
NARROW_POOLS = {
    "int8": (0, 1, -128, 127), "int16": (0, 1, -32768, 32767, 300), "int32": (0, 7, -2**31, 2**31 - 1),
    "uint8": (0, 1, 255, 128), "uint16": (0, 1, 65535, 256), "uint32": (0, 1, 2**32 - 1), "uint64": (0, 1, 2**53 - 1),
    "float16": (0.0, 1.5, 2048.0, 65504.0, NAN), "float32": (0.0, 1.5, 0.10000000149011612, 16777216.0, NAN),
    "object": (0, 1, 300), "U12": ("", "a", "abcd"),
}
# defaults that a narrow comparison would confuse with a value of the pool (0.1 ~ float32(0.1),
# 2049 ~ float16(2048), 16777217 ~ float32(16777216)), that lie outside the range of the dtype,
# or that are of another kind
NARROW_DEFAULTS = {
    "int8": (None, 0, 128, 300, -129, 0.0, 0.5, "", True), "int16": (None, 0, 32768, 65836, 0.5, ""),
    "int32": (None, 0, 2**31, -2**31 - 1, 7.0), "uint8": (None, 0, -1, 256, 384, 0.5), "uint16": (None, 0, -1, 65536),
    "uint32": (None, 0, -1, 2**32), "uint64": (None, 1), "float16": (None, 0, 2049, 2048, 1.5, 65505, 0.1, ""),
    "float32": (None, 0, 0.1, 16777217, 16777216, 1.5, ""), "object": (None, 0, 0.0, ""), "U12": (None, "", "abcde", 0),
}


def narrow_cases(nmax):
    for dt, pool in NARROW_POOLS.items():
        cont = "array:" + dt
        for n in range(nmax + 1):
            for seq in itertools.product(pool, repeat=n):
                vs = list(seq)
                yield {"enc": "rle", "values": vs, "container": cont}
                yield {"enc": "dict", "values": vs, "container": cont}
                for d in NARROW_DEFAULTS[dt]:
                    yield {"enc": "sparse", "values": vs, "default": d, "container": cont}
                for f in narrow_funcs(cont)[:4]:
                    if f != "id" and f_applicable(f, vs) and f in narrow_funcs(cont):
                        for enc in ("rle", "dict"):
                            yield {"enc": enc, "values": vs, "container": cont, "ops": ["mat", "map:" + f, "mat"]}
    # typed (numpy scalar) defaults against list data
    for vs in ([1, 0, 2], [1.5, 0.0, 0.10000000149011612], [True, False], [300, 0]):
        for dnp in DEFAULT_NP:
            for d in (0, 1, 0.0, 1.5, False, 0.10000000149011612):
                c = {"enc": "sparse", "values": vs, "default": d, "default_np": dnp}
                if valid_case(c):
                    yield c


# floats that a tolerance, a difference or a sort treats specially: the smallest subnormal next to 0.0, two
# neighbouring doubles, both infinities (inf - inf is NaN), the largest magnitudes (their difference overflows)
EXTREME_FLOATS = (0.0, 5e-324, 1.0, 1.0000000000000002, float("inf"), float("-inf"), 1e308)


COLLIDING_INTS = (-1, -2, 0, 2**61 - 1)


def extreme_float_cases(nmax):
    for n in range(nmax + 1):
        for seq in itertools.product(EXTREME_FLOATS, repeat=n):
            vs = list(seq)
            yield {"enc": "rle", "values": vs}
            yield {"enc": "dict", "values": vs}
            for d in (None, float("inf"), 0.0, 1.0, 0):
                yield {"enc": "sparse", "values": vs, "default": d}
            if n <= 2:
                for f in ("double", "halve"):
                    yield {"enc": "rle", "values": vs, "f": f}
                    yield {"enc": "dict", "values": vs, "f": f}
                yield {"enc": "sparse", "values": vs, "default": float("-inf"), "f": "double"}
                yield {"enc": "rle", "values": vs, "container": "array"}
    for v in EXTREME_FLOATS:
        yield {"enc": "const", "value": v, "length": 2}
        yield {"enc": "func", "value": v, "length": 2}
    # integers whose CPython hashes collide (hash(-1) == hash(-2), hash(0) == hash(2**61 - 1)): a dictionary
    # or a run detection keyed on hashes must not merge them
    for n in range(min(nmax, 3) + 1):
        for seq in itertools.product(COLLIDING_INTS, repeat=n):
            vs = list(seq)
            yield {"enc": "rle", "values": vs}
            yield {"enc": "dict", "values": vs}
            for d in (None, -1, -2, 0):
                yield {"enc": "sparse", "values": vs, "default": d}


# zero with both signs: 0.0 == -0.0, so one run / one dictionary entry / the default stands for both
SIGNED_ZERO_ALPHABETS = ((0.0, -0.0, 1.5), (-0.0, 0.0, NAN), (0.0, -0.0, None))


def signed_zero_cases(nmax):
    """Every sequence of length 1..nmax holding a negative zero, through RLE, dictionary and sparse columns, as list /
    float64 / float32 / float16 array (oracle only: Python equality for the round trip, the stored-form clauses under
    `==` -- adjacent runs differ, dictionary entries are unique, sparse storage excludes the default)."""
    seen = set()
    for alpha in SIGNED_ZERO_ALPHABETS:
        for n in range(1, nmax + 1):
            for seq in itertools.product(alpha, repeat=n):
                vs = list(seq)
                key = repr(vs)
                if key in seen or not any(is_neg_zero(v) for v in vs):
                    continue
                seen.add(key)
                conts = ("list", "array") if None in vs else ("list", "array", "array:float32", "array:float16")
                for cont in conts:
                    extra = {} if cont == "list" else {"container": cont}
                    yield dict({"enc": "rle", "values": vs}, **extra)
                    if None not in vs or len(vs) < 2:
                        yield dict({"enc": "dict", "values": vs}, **extra)
                    for d in (None, 0.0, -0.0, 0, 1.5):
                        yield dict({"enc": "sparse", "values": vs, "default": d}, **extra)
                if n <= 2:
                    for f in ("double", "halve"):
                        if f_applicable(f, vs):
                            yield {"enc": "rle", "values": vs, "f": f}
                            if None not in vs or len(vs) < 2:
                                yield {"enc": "dict", "values": vs, "f": f}
                            yield {"enc": "sparse", "values": vs, "default": -0.0, "f": f}
                    for ops in (["mat", "mat"], ["copy", "mat"], ["mat", "pickle", "mat"]):
                        yield {"enc": "rle", "values": vs, "ops": ops}
                        if None not in vs or len(vs) < 2:
                            yield {"enc": "dict", "values": vs, "ops": ops}
                        yield {"enc": "sparse", "values": vs, "default": 0.0, "ops": ops}
    for n in (0, 1, 3):
        yield {"enc": "const", "value": -0.0, "length": n}
        yield {"enc": "func", "value": -0.0, "length": n}
        yield {"enc": "const", "value": -0.0, "length": n, "f": "double"}


# text that differs only in what a normalisation, a strip, a case fold or a fixed-width field would remove
UNUSUAL_TEXT = ("", "a", "a ", " a", "A", "á", "á", "a\x00b", "ß", "日本", "\U0001f600", "a\t", "a\n")


def unusual_text_cases(nmax):
    for n in range(nmax + 1):
        for seq in itertools.product(UNUSUAL_TEXT, repeat=n):
            vs = list(seq)
            yield {"enc": "rle", "values": vs}
            yield {"enc": "dict", "values": vs}
            for d in (None, "", "a", "a "):
                yield {"enc": "sparse", "values": vs, "default": d}
            if n == 1:
                yield {"enc": "rle", "values": vs, "f": "suffix"}
                yield {"enc": "dict", "values": vs, "f": "suffix"}
                yield {"enc": "rle", "values": vs, "type_name": "VARCHAR[%d]" % len(vs[0])}
    for v in UNUSUAL_TEXT:
        yield {"enc": "const", "value": v, "length": 2}
        yield {"enc": "func", "value": v, "length": 2}
        yield {"enc": "const", "value": v, "length": 3, "type_name": "VARCHAR[%d]" % len(v)}


# sequences mixing classes whose values compare equal (see "sequences mixing classes" above)
MIX_ALPHABETS = [
    ("int/float", ([2, "py"], [2.0, "py"], [3.5, "py"])),
    ("bool/int", ([True, "py"], [1, "py"], [0, "py"], [False, "py"])),
    ("bool/int/float", ([1, "py"], [1.0, "py"], [True, "py"])),
    ("zeros", ([0, "py"], [0.0, "py"], [False, "py"])),
    ("numpy-int", ([2, "py"], [2, "int64"], [2, "int8"], [3, "py"])),
    ("numpy-float", ([2.0, "py"], [2.0, "float32"], [2, "py"], [1.5, "float32"])),
    ("numpy-bool", ([True, "py"], [True, "bool"], [1, "int64"], [1.0, "float64"])),
    ("bool/float next to int", ([True, "py"], [1.0, "py"], [0, "py"], [2, "py"])),
    ("+null", ([1, "py"], [1.0, "py"], [None, "py"])),
    ("2**53", ([2**53, "py"], [2.0**53, "py"], [2**53 - 1, "py"])),
    ("nan", ([NAN, "py"], [1, "py"], [1.0, "py"])),
]


def mix_defaults(alpha):
    """Sparse defaults for a mixture: null, every Python value of the alphabet (each equal to elements of other
    classes), one numpy-typed default."""
    out, seen = [{"default": None}], set()
    for v, k in alpha:
        key = (type(v).__name__, repr(v))
        if v is not None and key not in seen:
            seen.add(key)
            out.append({"default": v})
    for v, k in alpha:
        if k != "py" and default_np_ok(k, v):
            out.append({"default": v, "default_np": k})
            break
    return out


def mixed_cases(nmax, nmax_full):
    """Every sequence of length 0..nmax over each mixture alphabet through RLE, dictionary and sparse columns, handed
    over as a list, as an object array (the elements keep their classes) and as a typed array (numpy.array has
    brought them to one dtype before the class sees them); to length `nmax_full` also mapped, used twice, copied."""
    for name, alpha in MIX_ALPHABETS:
        for n in range(nmax + 1):
            for seq in itertools.product(alpha, repeat=n):
                mix = [list(p) for p in seq]
                vs = [p[0] for p in mix]
                for cont in ("list", "array:object", "array") if n else ("list",):
                    extra = {} if cont == "list" else {"container": cont}
                    yield dict({"enc": "rle", "mix": mix}, **extra)
                    if None not in vs or n < 2:
                        yield dict({"enc": "dict", "mix": mix}, **extra)
                    for d in mix_defaults(alpha):
                        yield dict({"enc": "sparse", "mix": mix}, **dict(extra, **d))
                    if n <= nmax_full:
                        for f in ("double", "halve"):
                            if f_applicable(f, vs):
                                yield dict({"enc": "rle", "mix": mix, "f": f}, **extra)
                                if None not in vs or n < 2:
                                    yield dict({"enc": "dict", "mix": mix, "f": f}, **extra)
                        for ops in (["mat", "mat"], ["copy", "mat"], ["mat", "pickle", "mat"], ["decoy", "mat", "flat", "mat"]):
                            yield dict({"enc": "rle", "mix": mix, "ops": ops}, **extra)
                if n <= nmax_full:
                    yield {"enc": "rle", "mix": mix, "container": "tuple"}


def random_mix(rng):
    """A random sequence over a pool of values each present in several classes, with sticky repeats (so equal
    neighbours of different classes are frequent)."""
    base = rng.choice([[0, 1, 2], [1, 2, 3], [2, 7, 100], [0, 1], [2**24, 2**24 - 1, 5], [2**53, 1, 2**53 - 1]])
    with_f32 = max(base) <= 2**24 and rng.random() < 0.4
    classes = [("py", int), ("py", float)] + ([("int64", int), ("int32", int)] if rng.random() < 0.5 else []) \
        + ([("float32", float)] if with_f32 else []) + ([("float64", float)] if rng.random() < 0.3 else [])
    pool = []
    for v in base:
        for k, t in classes:
            pool.append([t(v), k])
        if v in (0, 1) and rng.random() < 0.5:
            pool.append([bool(v), "py"])
    if rng.random() < 0.3:
        pool.append([rng.choice([1.5, 2.5, NAN]), "py"])
    with_null = rng.random() < 0.15
    n = rng.randint(0, 12) if rng.random() < 0.7 else rng.choice([20, 40, 100])
    mix, stick = [], rng.choice([0.0, 0.3, 0.6])
    for _ in range(n):
        if mix and rng.random() < stick:
            # the same value in another (or the same) class
            v = mix[-1][0]
            same = [p for p in pool if p[0] is not None and v is not None and py_eq(p[0], v)]
            mix.append(list(rng.choice(same or pool)))
        elif with_null and rng.random() < 0.2:
            mix.append([None, "py"])
        else:
            mix.append(list(rng.choice(pool)))
    enc = rng.choice(["rle", "rle", "dict", "sparse", "sparse"])
    if enc == "dict" and any(p[0] is None for p in mix) and len(mix) >= 2:
        enc = "rle"
    c = {"enc": enc, "mix": mix}
    cont = rng.choice(MIX_CONTAINERS)
    if cont != "list":
        c["container"] = cont
    if enc == "sparse":
        c["default"] = rng.choice([None, 0, 1, 2, 1.0, 2.0, True, 0.0] + [p[0] for p in mix[:3]])
    r = rng.random()
    if r < 0.2:
        f = rng.choice(MIX_FUNCS)
        if f_applicable(f, values_of(c)):
            c["f"] = f
    elif r < 0.3:
        c["ops"] = rng.choice([["mat", "mat"], ["copy", "mat"], ["mat", "map:double", "mat"], ["schema", "mat"]])
    if not valid_case(c):
        c.pop("f", None), c.pop("ops", None)
    if not valid_case(c):
        return {"enc": "rle", "mix": [[2.0, "py"], [2, "py"]]}
    return c


def gen_scalar(rng, kind):
    if kind == "int":
        r = rng.random()
        if r < 0.5:
            return rng.randint(-3, 3)
        if r < 0.8:
            return rng.randint(-1000, 1000)
        if r < 0.95:
            return rng.randint(-(2**40), 2**40)
        return rng.choice([2**53, -(2**53), 2**31, 2**53 - 1, 2**63 - 1, -(2**63), 2**53 + 1, 2**32, -(2**31) - 1])
    if kind == "float":
        r = rng.random()
        if r < 0.4:
            return rng.choice([0.0, 1.0, 1.5, -2.5, 0.1, NAN, float("inf"), float("-inf"), 1e300, 5e-324, 2.0**53, 3.0])
        if r < 0.8:
            return rng.randint(-40, 40) / 4.0
        return rng.uniform(-1e6, 1e6)
    if kind == "text":
        n = rng.choice([0, 1, 1, 2, 3, 4, 4, 7, 12, 40])
        return "".join(rng.choice("abcXYZ019 _é日\U0001f600") for _ in range(n))
    if kind == "bool":
        return rng.random() < 0.5
    raise InfraError(kind)


def gen_default(rng, kind, values):
    r = rng.random()
    if r < 0.2:
        return None
    if r < 0.35:
        return 0
    if r < 0.5:
        return ""
    present = [v for v in values if v is not None]
    if r < 0.7 and present:
        return rng.choice(present)  # a value of the data
    if r < 0.8:
        return gen_scalar(rng, kind)
    # another width / numeric kind than the data
    if kind == "int":
        return rng.choice([0.0, 1.0, 1.5, -2.0, NAN, True, float(rng.choice(present))] if present else [0.0, 1.5])
    if kind == "float":
        cands = [0, 1, -2, 3, True]
        cands += [int(v) for v in present if not is_nan(v) and abs(v) < 2**53 and v == int(v)][:3]
        return rng.choice(cands)
    if kind == "text":
        return rng.choice(["a", "abcdefghij", "é", "x" * 50] + [p[:1] for p in present[:2]] + [p + "zz" for p in present[:2]])
    return rng.choice([0, 1, 0.0, 1.0])


RANDOM_FUNCS = {"int": ("double", "halve", "tostr"), "float": ("double", "halve"), "text": ("upper", "suffix"),
                "bool": ("not", "toint")}

# sizes at and around the capacities of 8- and 16-bit signed / unsigned integers: a stored index array
# (dictionary codes, sparse indices, run lengths) narrowed to a "sufficient" integer type fails here
SMALL_BOUNDS = (127, 128, 129, 255, 256, 257)
LARGE_BOUNDS = (32767, 32768, 32769, 65535, 65536, 65537)


def boundary_cases(large=True, small=True):
    for kind in ("int", "text"):
        for n in SMALL_BOUNDS if small else ():
            d = {"shape": "distinct", "kind": kind, "n": n}
            yield {"enc": "dict", "spec": d}
            yield {"enc": "dict", "spec": d, "f": "id"}
            yield {"enc": "dict", "spec": d, "f": "halve" if kind == "int" else "suffix"}
            yield {"enc": "rle", "spec": d}
            yield {"enc": "rle", "spec": d, "f": "tostr" if kind == "int" else "suffix"}
            yield {"enc": "rle", "spec": {"shape": "run", "kind": kind, "n": n}}
            for dv in (None, 0, ""):
                yield {"enc": "sparse", "spec": d, "default": dv}
        for n in LARGE_BOUNDS if large else ():
            d = {"shape": "distinct", "kind": kind, "n": n}
            yield {"enc": "dict", "spec": d}
            if kind == "int":
                yield {"enc": "rle", "spec": d}
                yield {"enc": "rle", "spec": {"shape": "run", "kind": kind, "n": n}}
                yield {"enc": "sparse", "spec": d, "default": None}
    for n in (SMALL_BOUNDS if small else ()) + ((32767, 32768, 65535, 65536) if large else ()):
        yield {"enc": "const", "value": 7, "length": n}
        yield {"enc": "func", "value": "ab", "length": n}
        yield {"enc": "const", "value": True, "length": 1, "ops": ["mat", "len:%d" % n, "mat"]}
    # text at the widths where a one-byte / two-byte length field would end
    for w in (SMALL_BOUNDS if small else ()) + ((65535, 65536) if large else ()):
        t = "x" * (w - 1) + "y"
        yield {"enc": "const", "value": t, "length": 2}
        yield {"enc": "func", "value": t, "length": 2}
        yield {"enc": "rle", "values": ["a", t, t, ""]}
        yield {"enc": "dict", "values": ["a", t, t, ""]}
        for dv in (None, "", "a", t):
            yield {"enc": "sparse", "values": ["a", t, t, ""], "default": dv}
        yield {"enc": "sparse", "values": ["a", "", "b"], "default": t}
        yield {"enc": "rle", "values": ["a", t], "f": "suffix"}
    # the ends of int64, and the integers around 2**53 (exact as int64; see C09-K01 for float defaults)
    for v in (2**63 - 1, -(2**63), 2**53 + 1, -(2**53) - 1, 2**31, 2**32) if small else ():
        yield {"enc": "const", "value": v, "length": 3}
        yield {"enc": "func", "value": v, "length": 3}
        yield {"enc": "rle", "values": [v, v, 0, v]}
        yield {"enc": "dict", "values": [v, 0, v]}
        for dv in (None, 0, v, ""):
            yield {"enc": "sparse", "values": [v, 0, v, 1], "default": dv}


def random_case(ctx, big=False):
    rng = ctx.rng
    kind = rng.choice(["int", "int", "float", "float", "text", "text", "bool"])
    enc = rng.choice(["rle", "dict", "sparse", "sparse", "sparse", "const", "func"])
    if enc in ("const", "func"):
        v = None if rng.random() < 0.1 else gen_scalar(rng, kind)
        c = {"enc": enc, "value": v, "length": rng.choice([0, 1, 2, 3, 7, 50, 1000]) if rng.random() < 0.5 else rng.randint(0, 40)}
        if enc == "const" and rng.random() < 0.3 and v is not None:
            f = rng.choice(RANDOM_FUNCS[kind])
            if f_applicable(f, [v]):
                c["f"] = f
        return c
    n = rng.randint(0, 12) if rng.random() < 0.6 else rng.choice([13, 20, 33, 64, 100, 200])
    pool = [gen_scalar(rng, kind) for _ in range(rng.choice([1, 2, 3, 3, 5, 8]))]
    if rng.random() < 0.04 and kind in ("int", "text"):
        # many distinct values: more dictionary entries / runs than fit a byte or a short
        m = rng.choice([rng.randint(120, 135), rng.randint(250, 262), 300, 700])
        pool = list(range(-5, m - 5)) if kind == "int" else ["v%d" % i for i in range(m)]
        n = m + rng.randint(0, 50)
        rng.shuffle(pool)
        pool = pool + pool[: n - len(pool)]
    with_null = enc != "dict" and rng.random() < 0.3
    if with_null:
        pool.append(None)
    vs = []
    stick = rng.choice([0.0, 0.3, 0.7, 0.9])
    if len(pool) > 200:
        vs = list(pool)
    else:
        for _ in range(n):
            if vs and rng.random() < stick:
                vs.append(vs[-1])
            else:
                vs.append(rng.choice(pool))
    if enc == "dict" and rng.random() < 0.05 and len(vs) >= 1:
        vs[rng.randrange(len(vs))] = None
    if big and kind == "int" and vs:
        # typed (int64) arrays only: among objects Python compares an int with a float default
        # exactly, numpy after promotion to float64 -- the model has the latter
        vs = [v for v in vs if v is not None] or [1]
        vs[rng.randrange(len(vs))] = rng.choice([2**53 + 1, -(2**53) - 1, 2**62 + 1, 2**63 - 1])
    c = {"enc": enc, "values": vs}
    if enc == "sparse":
        c["default"] = gen_default(rng, kind, vs)
        if big and kind == "int":
            c["default"] = rng.choice([0.0, 1.5, float(2**53)])
    r = rng.random()
    if r < 0.35:
        f = rng.choice(RANDOM_FUNCS[kind] + ("id",))
        if f_applicable(f, vs) and not (enc == "dict" and None in vs and len(vs) >= 2):
            c["f"] = f
    elif r < 0.55 and not big:
        return random_variant(rng, c, kind)
    return c


KIND_TYPE = {"int": "INTEGER", "float": "DOUBLE", "text": "VARCHAR", "bool": "BOOLEAN"}


def random_variant(rng, c, kind):
    """A random sequence of uses of the one object / another container / a declared type."""
    base = dict(c)
    r = rng.random()
    if r < 0.5:
        ops = []
        for _ in range(rng.randint(1, 4)):
            q = rng.random()
            ops.append("mat" if q < 0.4 else "map:" + rng.choice(RANDOM_FUNCS[kind] + ("id", "invert", "tostr", "toint")) if q < 0.8
                       else rng.choice(["decoy", "flat", "copy", "schema", "pickle", "imap:double", "imap:inc", "iset:double", "iset:upper", "iset:not",
                                        "edit:double", "edit:upper", "edit:not"] + (["len:%d" % rng.randint(0, 9)] if c["enc"] in ("const", "func") else [])))
        c = dict(base, ops=ops + ["mat"])
        # drop the ops that are not applicable where they stand
        while not valid_case(c) and len(c["ops"]) > 1:
            for i in range(len(c["ops"]) - 1):
                c2 = dict(c, ops=c["ops"][:i] + c["ops"][i + 1:])
                if valid_case(c2) or len(c2["ops"]) == 1:
                    c = c2
                    break
            else:
                c = dict(c, ops=["mat", "mat"])
    elif r < 0.75 and c["enc"] not in ("const", "func"):
        cands = [k for k in CONTAINERS if k != "list" and container_ok(k, values_of(c))]
        c = dict(base, container=rng.choice(cands))
        if c["enc"] == "sparse" and rng.random() < 0.3:
            for dnp in rng.sample(DEFAULT_NP, len(DEFAULT_NP)):
                if default_np_ok(dnp, c["default"]):
                    c["default_np"] = dnp
                    break
    elif r < 0.85:
        c = dict(base, type=KIND_TYPE[kind])
        if c["enc"] == "func":
            c["cfg"] = [rng.randint(0, 5), "k"][: rng.randint(0, 2)]
    else:
        # declared by type name (any spelling), with further keywords of the shared constructor
        if c["enc"] in ("const", "func"):
            v, n = c["value"], c["length"]
            if kind == "text" and v is not None and rng.random() < 0.2 and "f" not in c:
                v = v.encode("utf-8").rstrip(b"\x00")
            t = rng.choice(type_spellings(v, rng.choice([n, n, len(v) if isinstance(v, (str, bytes)) else n, rng.randint(0, 40)])))
            c = dict(base, value=v, type_name=t)
            if rng.random() < 0.4:
                c["kw"] = rng.choice(kw_choices(parse_type_name(t)[0], v))
        else:
            vs = values_of(c)
            cands = list(declared_sequence_variants(base, vs))
            if cands:
                c = rng.choice(cands)
    return c if valid_case(c) else base


# --------------------------------------------------------------------------- entry points


def _chunks(it, n):
    batch = []
    for c in it:
        batch.append(c)
        if len(batch) >= n:
            yield batch
            batch = []
    if batch:
        yield batch


CORPUS = [
    # wave 7: an expansion handed out, then the stored values mapped in place (the seeded author's inputs), the caller's edit
    {"enc": "const", "value": 3, "length": 4, "ops": ["mat", "imap:double", "mat"]},
    {"enc": "const", "value": 1.5, "length": 1, "ops": ["mat", "imap:inc", "mat"]},
    {"enc": "const", "value": 7, "length": 0, "ops": ["mat", "imap:double", "mat"]},
    {"enc": "dict", "values": [5, 5, 5], "ops": ["mat", "iset:double", "mat", "edit:double", "mat"]},
    # wave 6: zero with both signs
    {"enc": "dict", "values": [0.0, -0.0, 0.0]},
    {"enc": "dict", "values": [-0.0, 0.0], "container": "array:float32"},
    # witnesses of C09-F01 (fixed) and boundary shapes; run first
    {"enc": "sparse", "values": [1.5, 0.0, 2.5], "default": 0},
    {"enc": "sparse", "values": ["ab", "", "cde"], "default": ""},
    {"enc": "sparse", "values": [1, None, 2], "default": 0},
    {"enc": "sparse", "values": ["a", "", "b"], "default": 0},
    {"enc": "sparse", "values": [10, 20], "default": ""},
    {"enc": "sparse", "values": ["a", None, "b"], "default": ""},
    {"enc": "sparse", "values": [1.5, 0.0, 2.5], "default": 0, "f": "double"},
    {"enc": "sparse", "values": [True, False, True], "default": 0},
    {"enc": "sparse", "values": [NAN, 1.0, NAN], "default": NAN},
    {"enc": "sparse", "values": [], "default": None},
    {"enc": "rle", "values": []},
    {"enc": "rle", "values": [NAN, NAN, 1.0]},
    {"enc": "rle", "values": ["a", "abc", "abc", None, None]},
    {"enc": "dict", "values": []},
    {"enc": "dict", "values": [NAN, NAN, 1.0]},
    {"enc": "dict", "values": ["b", "abc", "a", "b"]},
    {"enc": "dict", "values": [1, None]},
    {"enc": "const", "value": "The god of merchants, shepherds and messengers.", "length": 10},
    {"enc": "const", "value": None, "length": 3},
    {"enc": "func", "value": "abc", "length": 0},
    # witnesses of C09-F02 (fixed): float32 / float16 data against a Python number that only rounds to a stored value
    {"enc": "sparse", "values": [0.10000000149011612, 0.5], "default": 0.1, "container": "array:float32"},
    {"enc": "sparse", "values": [2048.0, 1.0], "default": 2049, "container": "array:float16"},
    {"enc": "sparse", "values": [16777216.0], "default": 16777217, "container": "array:float32"},
    # one object used more than once
    {"enc": "sparse", "values": [1, 0, 3], "default": 0, "ops": ["mat", "map:halve", "mat"]},
    {"enc": "rle", "values": [1, 1, 2], "ops": ["mat", "map:tostr", "mat", "mat"]},
    {"enc": "dict", "values": ["b", "a", "b"], "ops": ["map:suffix", "mat", "map:upper", "mat"]},
    {"enc": "const", "value": True, "length": 2, "f": "invert"},
    {"enc": "const", "value": 3, "length": 5, "ops": ["imap:double", "mat", "len:0", "mat"]},
    {"enc": "func", "value": 1.5, "length": 2, "cfg": [1, "a"], "ops": ["mat", "len:0", "mat", "len:3", "mat"]},
    # the row count of a constant / function column against the width declared in the type name
    {"enc": "const", "value": "abc", "length": 5, "type_name": "VARCHAR[20]"},
    {"enc": "func", "value": "abc", "length": 0, "type_name": "VARCHAR[20]"},
    {"enc": "const", "value": b"abc", "length": 2, "type_name": "BLOB[8]", "via": "from_dict"},
    # a default that is not a value of the data's dtype next to the element it would be narrowed to
    {"enc": "sparse", "values": [2, 3, 2, 7, 2], "default": 2.5},
    {"enc": "sparse", "values": ["a", "b", "a", "c"], "default": "abc"},
    {"enc": "sparse", "values": [True, False], "default": 2},
    # runs of infinities
    {"enc": "rle", "values": [1.5, float("inf"), float("inf"), float("-inf"), float("-inf"), 2.0]},
    # equal neighbours of different classes (the run values are brought to one dtype when they are stored)
    {"enc": "rle", "mix": [[2.0, "py"], [2.0, "py"], [2, "py"], [2, "py"], [3.5, "py"]]},
    {"enc": "rle", "mix": [[0, "py"], [0, "py"], [False, "py"], [1, "py"], [True, "py"], [True, "py"]]},
    {"enc": "rle", "mix": [[2, "int64"], [2, "py"], [2.0, "float32"], [3, "int8"]], "container": "array:object"},
    {"enc": "dict", "mix": [[1, "py"], [True, "py"], [1.0, "py"], [0, "py"]]},
    {"enc": "sparse", "mix": [[0, "py"], [0.0, "py"], [False, "py"], [1, "py"]], "default": 0},
    # C09-K03 (open): text ending in NUL
    {"enc": "const", "value": "a\x00", "length": 2},
    {"enc": "rle", "values": ["a\x00", "b", "b"]},
]


def run(ctx):
    import os
    import time

    # the budget is for the search: a source change first costs a rebuild of model and proofs
    # (Generated/Encodings.lean is a translation of the nine methods), which must not eat it
    ctx.t0 = time.time()
    if os.environ.get("C09_BUDGET_S"):  # (for testing the behaviour on a slow machine)
        ctx.budget_s = float(os.environ["C09_BUDGET_S"])
    cut = []  # enumerations stopped by the wall clock: never an error, recorded in the evidence
    done_scopes = {}

    def scope(name, gen, reserve=2.0):
        """Evaluate the enumeration in small batches; when the wall-clock budget runs out stop, record
        how far it got and go on to the decision (a slow machine is not a fault of anything)."""
        n = 0
        for batch in _chunks(gen, 1000):
            if ctx.time_left() < reserve and not ctx.replaying:
                cut.append({"scope": name, "cases_evaluated_before_the_cut": n})
                done_scopes[name] = (n, False)
                return False
            for c in batch:
                if not valid_case(c):
                    raise InfraError("%s case is not valid: %r" % (name, c))
            evaluate(ctx, batch)
            n += len(batch)
        done_scopes[name] = (n, True)
        return True

    for c in CORPUS:
        if not valid_case(c):
            raise InfraError("corpus case is not valid: %r" % (c,))
    evaluate(ctx, [dict(c) for c in CORPUS])
    ctx.note("rule", "one case = one sequence (or constant value and length) put through one column encoding, "
             "optionally with an element-wise function on the stored values or a sequence of uses of the one column object; "
             "non-trivial = at least two elements; distinct by canonical JSON of the case")
    ctx.note("assumptions", [
        "element kinds: one kind per sequence (integers within int64, floats, text, booleans), optionally with nulls; a negative "
        "zero is Python-equal to 0.0 and may come back as either (scope signed-zeros, oracle only); "
        "or a sequence mixing Python / numpy numeric classes whose values every class of the mixture holds exactly (2 / 2.0 / "
        "numpy.int64(2) / numpy.float32(2), True / 1 / 1.0; integers within 2**53 next to floats, 2**24 next to float32): there the "
        "stored-form clauses are judged on the values as stored (after numpy brought them to one dtype), the round trip at the value "
        "level, and an element may come back in the class of an equal element of the input or a wider one; numbers mixed with text are "
        "converted to text by numpy.array and are outside the property's quantifier",
        "the dictionary encoding does not support nulls (numpy.unique sorts with '<'): a TypeError there is not a violation",
        "map commutation for sparse columns is required of functions that fix the default (DESIGN.md section 7, readings)",
        "a sparse position whose input equals the default may come back as the default itself (0.0 stored among objects with default 0 -> 0)",
    ])
    # The quick tier's core (sized to finish inside the budget on a machine four times slower than an idle
    # one), then the extensions in order of what they add; the thorough tier runs everything deeper.
    core_n, nmax, nmax_map = ctx.scale((3, 5, 4), (4, 6, 5))
    nseq, nnarrow = ctx.scale((2, 2), (4, 3))
    scope("boundary-small", boundary_cases(large=False))
    # (before the single-column scopes: a value leaking from one function column into another is met here
    # first, inside one self-contained history, so the replay reproduces in a fresh process)
    scope("function-families", family_cases(deep=ctx.scale(False, True)))
    scope("scalars", scalar_cases())
    scope("declared-types", declared_cases())
    for n in range(core_n + 1):
        scope("exhaustive-length-%d" % n, exhaustive_level(n, n <= nmax_map))
    scope("sequences-of-uses", sequence_cases(nseq))
    scope("shared-input", shared_input_cases(ctx.scale(2, 3)))
    scope("narrow-containers", narrow_cases(nnarrow))
    scope("mixed-classes", mixed_cases(*ctx.scale((3, 2), (4, 3))))
    scope("extreme-floats", extreme_float_cases(ctx.scale(3, 4)))
    scope("unusual-text", unusual_text_cases(ctx.scale(2, 3)))
    scope("signed-zeros", signed_zero_cases(ctx.scale(3, 4)))
    for n in range(core_n + 1, nmax + 1):
        scope("exhaustive-length-%d" % n, exhaustive_level(n, n <= nmax_map), reserve=6.0)
        if n == core_n + 1:
            scope("boundary-large", boundary_cases(large=True, small=False), reserve=8.0)
    ctx.exhaustive = False
    complete = [n for n in range(nmax + 1) if done_scopes.get("exhaustive-length-%d" % n, (0, False))[1]]
    upto = -1
    while upto + 1 in complete:
        upto += 1
    ctx.note("exhaustive_scope", "all sequences of length 0..%d over each of %d three-symbol alphabets (ints, floats incl. NaN, text of "
             "widths 0..4, booleans, nulls) through RLE, dictionary and sparse (every listed default) encodings, mapped variants to "
             "length %d, constants/functions x lengths; then random.  Cases per enumeration (complete?): %s"
             % (upto, len(ALPHABETS), min(upto, nmax_map), {k: "%d%s" % (v[0], "" if v[1] else " (cut short)") for k, v in done_scopes.items()}))
    ctx.note("boundary_scope", "inputs with %s and %s distinct values / run lengths / lengths / text widths (ints and text) and the ends of "
             "int64 through dictionary, RLE, sparse, constant and function columns" % (list(SMALL_BOUNDS), list(LARGE_BOUNDS)))
    ctx.note("sequence_scope", "every sequence of length 0..%d over each alphabet through RLE, dictionary and sparse columns (defaults: "
             "null, the kind's zero, another kind) used more than once on one object -- expand twice; expand, map, expand; map, expand, "
             "map, expand; in-place map; another column of the class built in between; to_flatcolumn in between; length reassigned "
             "(constant / function) -- and handed over as tuple / numpy array, with a declared column type, with the default omitted; "
             "every sequence of length 0..%d over value pools at the limits of int8..uint64 / float16 / float32 / object / wide-text "
             "numpy arrays with defaults outside the dtype's range or precision and typed (numpy scalar) defaults" % (nseq, nnarrow))
    ctx.note("declared_scope", "constant and function columns of %s declared under every spelling of the type (OrsoTypes member; plain "
             "name in either letter case; VARCHAR[n] / BLOB[n] with n at the width of the value, at the row count, one next to it, "
             "20, 255; DECIMAL(p,s); DECIMAL; ARRAY<T> for nulls) x explicit row counts 0, 1, 2, 5, 20, 33, with further keywords of "
             "the shared constructor (precision, scale, element_type, nullable, description, aliases, default), built directly and "
             "through from_dict; RLE / dictionary / sparse columns declared by name with the flat-column keyword length (= text "
             "width); deep copies" % (["", "a", "abcd", "b''", "b'abc'", 0, 7, 1.5, True, None],))
    ctx.note("family_scope", "histories of 1..200 expansions of function columns that share bindings (%s; `cell` reads a cell "
             "that changes between expansions) and configurations: every ordered pair of configurations from each class of look-alike "
             "arguments %r as two column objects / one object reassigned / with other lengths / as argument pairs in both orders / "
             "repeated arguments; one configuration under two bindings; the same object expanded again; an unhashable argument "
             "mutated in place; 70 / 130 distinct configurations followed by their float look-alikes; every expansion judged "
             "against this column's binding on this column's configuration at that moment (same type, same sign of zero)"
             % (list(BINDINGS), [list(c) for c in EQUAL_ARGS]))
    ctx.note("mixed_scope", "every sequence of length 0..%d over each of %d alphabets mixing classes whose values compare equal "
             "(%s; numpy scalars by dtype name) through RLE, dictionary and sparse columns (defaults: null, every value of the alphabet, "
             "a numpy-typed one), handed over as list / object array / typed array, to length %d also mapped by value-level functions, "
             "expanded twice, copied, pickled; the stored-form clauses are judged on the values as stored (after numpy brought them to "
             "one dtype); an element never comes back in a class narrower than every element of the input equal to it"
             % (ctx.scale(3, 4), len(MIX_ALPHABETS), "; ".join("%s: %r" % (n, [tuple(p) for p in a]) for n, a in MIX_ALPHABETS), ctx.scale(2, 3)))
    ctx.note("unusual_scope", "every sequence of length 0..%d over %r (subnormal next to zero, neighbouring doubles, both infinities, "
             "1e308) and of length 0..%d over %r (trailing / leading blank, case, composed vs combining accent, inner NUL, sharp s, "
             "CJK, astral, tab, newline) through RLE, dictionary and sparse columns; hash-colliding integers %r likewise; text ending "
             "in NUL is open finding C09-K03" % (ctx.scale(3, 4), list(EXTREME_FLOATS), ctx.scale(2, 3), list(UNUSUAL_TEXT), list(COLLIDING_INTS)))
    n_random = ctx.scale(4000, 60000)
    done = 0
    while done < n_random and (ctx.time_left() > 4 or ctx.replaying):
        k = min(500, n_random - done)
        evaluate(ctx, [random_family(ctx.rng) if i % 16 == 5 else random_mix(ctx.rng) if i % 16 == 11
                       else random_case(ctx, big=(i % 97 == 0)) for i in range(k)])
        done += k
    if done < n_random:
        cut.append({"scope": "random", "cases_evaluated_before_the_cut": done, "planned": n_random})
    ctx.note("random_cases", done)
    # (empty when every enumeration ran to its end)
    ctx.note("exhaustive_cut_short", cut)
    flush_pending(ctx)


def intensify(ctx):
    for _ in range(10):
        if ctx.time_left() < 5:
            break
        evaluate(ctx, [random_family(ctx.rng) if i % 16 == 5 else random_mix(ctx.rng) if i % 16 == 11 else random_case(ctx)
                       for i in range(2000)])
    flush_pending(ctx)


def replay(ctx, case):
    if not valid_case(case):
        raise InfraError("replay case is not a valid C09 case: %r" % (case,))
    evaluate(ctx, [case])


def is_dict_object_array_nan(case, failure=None):
    """C09-K02: a dictionary column over an *object* array of floats containing NaN: numpy.unique sorts
    objects with `<`, a NaN leaves the array unsorted and equal values on both sides of it are not
    merged.  Only the uniqueness clause is suppressed (the expansion must still be exact)."""
    if case.get("enc") != "dict" or case.get("container") != "array:object":
        return False
    vals = values_of(case) if "mix" in case else case.get("values")
    if not isinstance(vals, list) or not any(is_nan(v) for v in vals):
        return False
    if failure is None:
        return True
    return (failure.get("clause") or "") == "stored form: dictionary entries are not unique"


def is_text_trailing_nul(case, failure=None):
    """C09-K03: text that ends in NUL characters comes back without them from every encoding (numpy's
    fixed-width text dtype pads with NULs and cannot tell padding from content).  Only the failure "the
    element came back as the input element without its trailing NULs" is suppressed."""
    import ast

    enc = case.get("enc")
    vals = [case.get("value")] if enc in ("const", "func") else case.get("values")
    if not isinstance(vals, list) or not any(isinstance(v, str) and v.endswith("\x00") for v in vals):
        return False
    if failure is None:
        return True
    if "an element of the expansion differs" not in (failure.get("clause") or ""):
        return False
    m = re.match(r"element \d+ of the expansion is (.+) \(str\), the input has (.+) \(str\)$", failure.get("detail") or "", re.S)
    if not m:
        return False
    try:
        got, want = ast.literal_eval(m.group(1)), ast.literal_eval(m.group(2))
    except (ValueError, SyntaxError):
        return False
    return isinstance(got, str) and isinstance(want, str) and want.endswith("\x00") and got == want.rstrip("\x00")


KNOWN_PREDICATES = {"sparse_big_int_float_default": is_big_int_float_default, "dict_object_array_nan": is_dict_object_array_nan,
                    "text_trailing_nul": is_text_trailing_nul}
