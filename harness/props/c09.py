"""C09 — Compressed column encodings are lossless.

Correspondence: sequences are encoded and expanded by orso.schema.{RLE,Dictionary,Sparse,Constant,
Function}Column and by Model/Encodings.lean; stored form (`.values`, `.lengths`, `.encoding`,
`.indices`), expansion (`.materialize()`) and numpy dtype kind are compared.  The oracle evaluates
the property on the implementation's own outputs: element-for-element reproduction (Python
equality, NaN equal to NaN, text exact, nulls exact, never narrowed to a smaller numeric type),
the compression clauses on the stored form, and commutation of an element-wise function with
expansion.
"""
import itertools
import math
import warnings

from .. import wire
from ..core import InfraError, shrink

NAN = float("nan")
ENCS = ("rle", "dict", "sparse", "const", "func")
FUNCS = ("double", "upper", "not", "id")  # dtype-preserving: also run on the Lean model
# dtype-changing functions on the stored values (int -> float, narrower -> wider text, int -> text,
# bool -> int): the expansion must follow the dtype of the *mapped* values.  Oracle only.
DTYPE_FUNCS = ("halve", "suffix", "tostr", "toint")
MODEL_MAX_LEN = 1500  # the list model is quadratic in places; longer inputs are oracle-only


# --------------------------------------------------------------------------- values


def is_nan(x):
    return isinstance(x, float) and x != x


def family(x):
    if x is None:
        return "null"
    if isinstance(x, str):
        return "text"
    if isinstance(x, (bool, int, float)):
        return "num"
    return "other"


def rank(x):
    return 0 if isinstance(x, bool) else 1 if isinstance(x, int) else 2


def py_eq(x, y):
    """Python equality with NaN equal to NaN, None only equal to None, text only to text."""
    if family(x) != family(y):
        return False
    if is_nan(x) or is_nan(y):
        return is_nan(x) and is_nan(y)
    return x == y


def reproduces(x, y, may_be_default=None):
    """`y` (from the expansion) reproduces `x` (from the input): equal, and not narrowed to a
    smaller numeric type (bool < int < float).  At a position of a sparse column whose input
    equals the default the default itself (whatever its numeric type) is accepted."""
    if not py_eq(x, y):
        return False
    if family(x) == "num" and rank(y) < rank(x):
        if may_be_default is not None and family(may_be_default[0]) == "num" and py_eq(x, may_be_default[0]) \
                and not is_nan(x) and type(y) is type(may_be_default[0]):
            return True
        return False
    return True


def canon(v):
    """numpy / Python value -> wire universe; NaN canonicalised."""
    import numpy

    if isinstance(v, numpy.ndarray):
        return [canon(x) for x in v.tolist()]
    if isinstance(v, (list, tuple)):
        return [canon(x) for x in v]
    if isinstance(v, numpy.generic):
        v = v.item()
    if isinstance(v, float) and v != v:
        return NAN
    if v is None or isinstance(v, (bool, int, float, str)):
        return v
    return {"__repr__": repr(v)[:80]}


def kind_of(a):
    return a.dtype.kind


def py_f(f, x):
    """Python mirror of the element-wise functions (nulls are fixed)."""
    if x is None:
        return None
    if f == "double":
        return x * 2
    if f == "upper":
        return x.upper()
    if f == "not":
        return not x
    if f == "halve":
        return x / 2
    if f == "suffix":
        return x + "-x"
    if f == "tostr":
        return str(x)
    if f == "toint":
        return int(x)
    return x


def np_f(f, arr):
    """The same function applied to a stored numpy array."""
    import numpy

    if arr.dtype.kind == "O":
        out = numpy.empty(len(arr), dtype=object)
        for i, x in enumerate(arr.tolist()):
            out[i] = py_f(f, x)
        return out
    if len(arr) == 0:
        return arr.copy()  # numpy.array([]) is float64 whatever the kind of the (absent) elements
    if f == "double":
        return arr * 2
    if f == "upper":
        return numpy.char.upper(arr)
    if f == "not":
        return numpy.logical_not(arr)
    if f == "halve":
        return arr / 2
    if f == "suffix":
        return numpy.char.add(arr, "-x")
    if f == "tostr":
        return arr.astype(str)
    if f == "toint":
        return arr.astype(numpy.int64)
    return arr.copy()


def f_applicable(f, values):
    ks = {type(v) for v in values if v is not None}
    if f == "id":
        return True
    if f == "double":
        return ks <= {int, float} and all(v is None or isinstance(v, float) or abs(v) < 2**61 for v in values)
    if f == "upper":  # the driver's mirror is ASCII upper-casing
        return ks <= {str} and all(v is None or v.isascii() for v in values)
    if f == "not":
        return ks <= {bool}
    if f == "halve":
        return ks <= {int, float} and all(v is None or isinstance(v, float) or abs(v) <= 2**53 for v in values)
    if f == "suffix":
        return ks <= {str}
    if f == "tostr":
        return ks <= {int}
    if f == "toint":
        return ks <= {bool}
    return False


def spec_values(spec):
    """Deterministic long inputs in compact form (so that replays stay small and shrink on `n`):
    `distinct`: a permutation of n distinct values followed by three repeats; `run`: one value n
    times, then another."""
    n, kind = spec["n"], spec["kind"]
    mk = (lambda i: i + 1) if kind == "int" else (lambda i: "v%d" % i)
    if spec["shape"] == "distinct":
        vs = [mk((i * 7919 + 13) % n) for i in range(n)]
        return vs + vs[:3]
    return [mk(0)] * n + [mk(1)]


def values_of(case):
    if "spec" in case:
        return spec_values(case["spec"])
    return case["values"]


def has_model(case):
    if case.get("f") in DTYPE_FUNCS:
        return False
    return case["enc"] in ("const", "func") or len(values_of(case)) <= MODEL_MAX_LEN


def fresh(v):
    """An equal value that is a new object, so that identity cannot stand in for equality."""
    if isinstance(v, bool) or v is None:
        return v
    if isinstance(v, int):
        return int(str(v))
    if isinstance(v, float):
        return NAN * 1 if v != v else float.fromhex(v.hex())
    if isinstance(v, str):
        return (v + " ")[:-1]
    return v


# --------------------------------------------------------------------------- implementation


def run_impl(case):
    """Encode (optionally map the stored values) and expand on the real classes."""
    import numpy
    from orso import schema

    enc, f = case["enc"], case.get("f")
    out = {}
    try:
        with warnings.catch_warnings():
            warnings.simplefilter("ignore")
            if enc == "rle":
                col = schema.RLEColumn(name="c", values=[fresh(v) for v in values_of(case)])
                out["values"], out["vkind"] = canon(col.values), kind_of(col.values)
                out["lengths"] = [int(x) for x in col.lengths]
            elif enc == "dict":
                col = schema.DictionaryColumn(name="c", values=[fresh(v) for v in values_of(case)])
                out["values"], out["vkind"] = canon(col.values), kind_of(col.values)
                out["codes"] = [int(x) for x in col.encoding]
            elif enc == "sparse":
                col = schema.SparseColumn(name="c", values=[fresh(v) for v in values_of(case)], default_value=fresh(case["default"]))
                out["values"], out["vkind"] = canon(col.values), kind_of(col.values)
                out["indices"] = [int(x) for x in col.indices]
                out["total"] = int(col.total_length)
            elif enc == "const":
                col = schema.ConstantColumn(name="c", value=case["value"], length=case["length"])
                out["values"], out["vkind"] = canon(col.values), kind_of(col.values)
            elif enc == "func":
                v = case["value"]
                calls = []

                def binding(*cfg):
                    calls.append(cfg)
                    return v

                col = schema.FunctionColumn(name="c", binding=binding, length=case["length"])
            else:
                raise InfraError("bad encoding %r" % (enc,))
            if f is not None and enc != "func":
                col.values = np_f(f, col.values)
                out["mapped"] = canon(col.values)
            m = col.materialize()
            if not isinstance(m, numpy.ndarray):
                m = numpy.asarray(m)
            out["mat"], out["mkind"] = canon(m), kind_of(m)
            if enc == "func":
                out["calls"] = len(calls)
                # an impure binding (a counter): "its value repeated" means one value, however
                # many times the binding is consulted
                ticks = []

                def counter(*cfg):
                    ticks.append(len(ticks))
                    return ticks[-1]

                col2 = schema.FunctionColumn(name="c", binding=counter, length=case["length"])
                out["counter_mat"] = canon(col2.materialize())
    except InfraError:
        raise
    except Exception as e:
        return {"raised": type(e).__name__, "msg": str(e)[:120]}
    return out


# --------------------------------------------------------------------------- model


def model_line(case):
    enc, f = case["enc"], case.get("f")
    if enc in ("rle", "dict"):
        return "C09 %s%s " % (enc, "_map" if f else "") + wire.line(*([f] if f else []), list(values_of(case)))
    if enc == "sparse":
        return "C09 sparse%s " % ("_map" if f else "") + wire.line(*([f] if f else []), list(values_of(case)), case["default"])
    if enc == "const":
        return "C09 const%s " % ("_map" if f else "") + wire.line(*([f] if f else []), case["value"], case["length"])
    return "C09 func " + wire.line(case["value"], case["length"])


def model_out(case, text):
    """Driver answer -> the same dictionary shape as run_impl."""
    if not text.startswith("ok"):
        raise InfraError("model rejected case %r: %r" % (case, text))
    m = [canon(x) for x in wire.dec_all(text[2:])]
    enc, f = case["enc"], case.get("f")

    def mat(x):
        if isinstance(x, list) and len(x) == 2 and x[0] == "err" and isinstance(x[1], str) and x[1].endswith("Error"):
            raise InfraError("model's expansion failed on %r: %r" % (case, x))
        return x

    if len(m) == 1 and isinstance(m[0], list) and m[0][:1] == ["err"]:
        return {"raised": m[0][1]}
    if enc == "rle":
        if f:
            return {"mapped": m[0], "mat": mat(m[1]), "mkind": m[2]}
        return {"values": m[0], "lengths": m[1], "mat": mat(m[2]), "vkind": m[3], "mkind": m[3]}
    if enc == "dict":
        if f:
            return {"mapped": m[0], "mat": mat(m[1]), "mkind": m[2]}
        return {"values": m[0], "codes": m[1], "mat": mat(m[2]), "vkind": m[3], "mkind": m[3]}
    if enc == "sparse":
        if f:
            return {"mapped": m[0], "mat": mat(m[1]), "mkind": m[2]}
        return {"indices": m[0], "values": m[1], "total": m[2], "vkind": m[3], "mat": mat(m[4]), "mkind": m[5]}
    if enc == "const":
        if f:
            return {"mapped": m[0], "mat": mat(m[1]), "mkind": m[2]}
        return {"values": m[0], "mat": mat(m[1]), "vkind": m[2], "mkind": m[2]}
    return {"mat": m[0], "mkind": m[1]}


def same_obs(impl, model):
    """Compare the observations both sides have (floats by bit pattern, bool is not int)."""
    if ("raised" in impl) != ("raised" in model):
        return False
    if "raised" in impl:
        return impl["raised"] == model["raised"]
    for k, v in model.items():
        if k not in impl:
            return False
        if k in ("vkind", "mkind"):
            # the dtype of an empty array carries no element: float64 / object / text all expand to []
            if k == "mkind" and impl.get("mat") == [] and model.get("mat") == []:
                continue
            if k == "vkind" and impl.get("values") == [] and model.get("values") == []:
                continue
            if impl[k] != v:
                return False
        elif not wire.same(impl[k], v):
            return False
    return True


# --------------------------------------------------------------------------- oracle


def original(case):
    if case["enc"] in ("const", "func"):
        return [case["value"]] * case["length"]
    return list(values_of(case))


def seq_reproduces(xs, ys, default=None):
    """None, or 'generic clause :: detail'."""
    if not isinstance(ys, list) or len(xs) != len(ys):
        return "the expansion has another length than the input :: expansion has length %s, the input %d" % (
            len(ys) if isinstance(ys, list) else "?", len(xs))
    for i, (x, y) in enumerate(zip(xs, ys)):
        if not reproduces(x, y, default):
            return "an element of the expansion differs from the input (changed, truncated or narrowed) :: element %d of the expansion is %r (%s), the input has %r (%s)" % (
                i, y, type(y).__name__, x, type(x).__name__)
    return None


def oracle(case, out):
    """The property evaluated on the implementation's outputs. Returns a clause or None."""
    enc, f = case["enc"], case.get("f")
    xs = original(case)
    if "raised" in out:
        if enc == "dict" and any(v is None for v in xs):
            return None  # the dictionary encoding does not support nulls: outside the quantifier
        return "%s column raised %s" % (enc, out["raised"])
    if f is None:
        d = [case["default"]] if enc == "sparse" else None
        r = seq_reproduces(xs, out["mat"], d)
        if r:
            return "round trip: " + r
        if enc == "rle":
            vs, ls = out["values"], out["lengths"]
            if len(vs) != len(ls):
                return "stored form: run values and run lengths differ in number :: %d values, %d lengths" % (len(vs), len(ls))
            if any(l < 1 for l in ls):
                return "stored form: a run length is not positive"
            if sum(ls) != len(xs):
                return "stored form: run lengths do not sum to the input length :: sum %d, input %d" % (sum(ls), len(xs))
            for i in range(len(vs) - 1):
                if vs[i] == vs[i + 1]:
                    return "stored form: adjacent runs hold the same value"
        elif enc == "dict":
            vs, cs = out["values"], out["codes"]
            seen = set()
            for v in vs:
                k = "nan" if is_nan(v) else (family(v), v)  # hash-equal exactly when py_eq
                if k in seen:
                    return "stored form: dictionary entries are not unique"
                seen.add(k)
            if len(cs) != len(xs):
                return "stored form: number of codes differs from the input length :: %d codes, %d elements" % (len(cs), len(xs))
            for i, c in enumerate(cs):
                # codes are positions 0..len(values)-1; a negative code would index from the end
                if not (isinstance(c, int) and 0 <= c <= len(vs) - 1):
                    return "stored form: a code does not index the dictionary :: code %r at element %d, %d entries" % (c, i, len(vs))
                if not reproduces(xs[i], vs[c]):
                    return "stored form: a code indexes another entry than its element"
        elif enc == "sparse":
            vs, ix, dv = out["values"], out["indices"], case["default"]
            if len(vs) != len(ix):
                return "stored form: sparse indices and values differ in number :: %d indices, %d values" % (len(ix), len(vs))
            for v in vs:
                if not is_nan(v) and family(v) == family(dv) and v == dv:
                    return "stored form: sparse storage holds the default value"
            if any(not (0 <= i < len(xs)) for i in ix) or any(a >= b for a, b in zip(ix, ix[1:])):
                return "stored form: sparse indices are not increasing positions of the input"
            if out["total"] != len(xs):
                return "stored form: total length is not the input's length"
        elif enc == "const":
            if len(out["values"]) != 1 or not reproduces(case["value"], out["values"][0]):
                return "stored form: constant column does not store its value once"
        elif enc == "func":
            cm = out.get("counter_mat")
            if cm is not None and (len(cm) != case["length"] or any(x != cm[0] for x in cm)):
                return "function column does not repeat one value of its binding :: a counting binding expands to %r" % (cm[:6],)
        return None
    # an element-wise function on the stored values, then expansion
    if enc == "sparse":
        dv = case["default"]
        at_default = [x for x in xs if family(x) == family(dv) and not is_nan(x) and x == dv]
        if at_default:
            # some element is represented by the default: the statement is only meaningful for
            # functions that fix the default (the stored form does not contain it)
            fd = py_f(f, dv) if f_applicable(f, [dv]) else object()
            if not py_eq(fd, dv):
                return None
    want = [py_f(f, x) for x in xs]
    r = seq_reproduces(want, out["mat"], [case["default"]] if enc == "sparse" else None)
    if r:
        return "map then expand: " + r
    return None


def _norm(clause):
    return None if clause is None else clause.split(" :: ")[0]


# --------------------------------------------------------------------------- validity


def scalar_ok(v):
    if v is None or isinstance(v, (bool, str)):
        return True
    if isinstance(v, int):
        return -(2**63) <= v < 2**63
    if isinstance(v, float):
        return not (v == 0 and math.copysign(1, v) < 0)
    return False


def homogeneous(values):
    ks = {type(v) for v in values if v is not None}
    return len(ks) <= 1


def valid_case(c):
    if not isinstance(c, dict) or c.get("enc") not in ENCS:
        return False
    f = c.get("f")
    if f is not None and (f not in FUNCS + DTYPE_FUNCS or c["enc"] == "func"):
        return False
    if c["enc"] in ("const", "func"):
        if not (isinstance(c.get("length"), int) and not isinstance(c.get("length"), bool) and 0 <= c["length"] <= 200000):
            return False
        if "value" not in c or not scalar_ok(c["value"]):
            return False
        return f is None or f_applicable(f, [c["value"]])
    if "spec" in c:
        sp = c["spec"]
        if "values" in c or not isinstance(sp, dict) or sp.get("shape") not in ("distinct", "run") \
                or sp.get("kind") not in ("int", "text") or not isinstance(sp.get("n"), int) \
                or isinstance(sp.get("n"), bool) or not (1 <= sp["n"] <= 200000) or set(sp) != {"shape", "kind", "n"}:
            return False
        vs = spec_values(sp)
    else:
        vs = c.get("values")
    if not isinstance(vs, list) or not all(scalar_ok(v) for v in vs) or not homogeneous(vs):
        return False
    if c["enc"] == "sparse" and ("default" not in c or not scalar_ok(c["default"])):
        return False
    return f is None or f_applicable(f, vs)


# --------------------------------------------------------------------------- evaluation


def is_big_int_float_default(case, failure=None):
    """C09-K01: sparse column of integers beyond 2**53 with a float default (numpy promotes
    int64 with float64 to float64, which rounds such integers)."""
    if case.get("enc") != "sparse" or not isinstance(case.get("default"), float):
        return False
    if "spec" in case or not isinstance(case.get("values"), list):
        return False
    if not any(isinstance(v, int) and not isinstance(v, bool) and abs(v) > 2**53 for v in case["values"]):
        return False
    if failure is not None:
        import re

        cl = failure.get("clause") or ""
        if "an element of the expansion differs" not in cl:
            return False
        m = re.match(r"element (\d+) ", failure.get("detail") or "")
        if not m:
            return False
        i = int(m.group(1))  # the failing element must be one of the big integers
        v = case["values"][i] if i < len(case["values"]) else None
        return isinstance(v, int) and not isinstance(v, bool) and abs(v) > 2**53
    return True


def evaluate(ctx, cases):
    with_model = [has_model(c) for c in cases]
    it = iter(ctx.model.batch([model_line(c) for c, w in zip(cases, with_model) if w]))
    mouts = [next(it) if w else None for w in with_model]
    for c, mo in zip(cases, mouts):
        out = run_impl(c)
        xs = original(c)
        nontrivial = len(xs) >= 2
        ctx.case(c, nontrivial)
        ctx.hit("enc:" + c["enc"] + (":map:" + c["f"] if c.get("f") else ""))
        ctx.hit("len:%s" % (len(xs) if len(xs) < 6 else "6-20" if len(xs) <= 20 else "21-120" if len(xs) <= 120
                            else "121-300" if len(xs) <= 300 else "301-30000" if len(xs) <= 30000 else "30001+"))
        if "spec" in c:
            ctx.hit("spec:%s:%s:%d" % (c["spec"]["shape"], c["spec"]["kind"], c["spec"]["n"]))
        ks = sorted({type(v).__name__ for v in xs}) or ["empty"]
        ctx.hit("kind:" + "+".join(ks))
        if c["enc"] == "sparse":
            ctx.hit("default:" + (repr(c["default"]) if c["default"] in (None, 0, "") and not isinstance(c["default"], (bool, float))
                                  else type(c["default"]).__name__))
        if "raised" in out:
            ctx.hit("raised:" + out["raised"])
        clause = oracle(c, out)
        if mo is None:
            ctx.hit("oracle-only")
        m = model_out(c, mo) if mo is not None else None
        # the model is proved lossless: its own answer must satisfy the same oracle, otherwise the
        # driver glue / wire / this harness is broken (never a VIOLATION)
        if m is not None and "raised" not in m and not is_big_int_float_default(c):
            m2 = dict(m)
            if "values" not in m2 and c.get("f") is None and c["enc"] != "func":
                raise InfraError("model output lacks the stored form for %r" % (c,))
            mc = oracle(c, m2)
            if mc is not None:
                raise InfraError("the Lean model's own output violates the property on %r: %s (%r)" % (c, mc, m))
        if clause is not None:
            def still(c2):
                if not valid_case(c2):
                    return False
                try:
                    return _norm(oracle(c2, run_impl(c2))) == _norm(clause)
                except InfraError:
                    return False

            # long inputs: each attempt costs a full encode / expand, keep the search short
            budget = 300 if len(xs) <= 2000 else 40
            c_min = shrink(c, still, budget=budget) if not ctx.replaying else c
            o2 = run_impl(c_min)
            full = oracle(c_min, o2) or clause
            ctx.fail(c_min, _norm(full), impl=o2, model=m if c_min is c else None,
                     detail=full.split(" :: ")[1] if " :: " in full else None)
        elif m is not None and not same_obs(out, m):
            ctx.disagree(c, out, m)


# --------------------------------------------------------------------------- generators

ALPHABETS = [
    ("int", (0, 1, 300)),
    ("float", (0.0, 1.5, NAN)),
    ("float2", (1.0, 2.5, -3.0)),
    ("text", ("", "a", "abcd")),
    ("text2", ("a", "ab", "abc")),
    ("bool+null", (True, False, None)),
    ("int+null", (0, 7, None)),
    ("float+null", (0.0, 2.5, None)),
    ("text+null", ("", "abc", None)),
]

DEFAULTS = {
    "int": (None, 0, "", 0.0, 1.5, 1, True, 300),
    "float": (None, 0, "", 0.0, 1, NAN, 1.5),
    "float2": (None, 0, "", 1, 2.5),
    "text": (None, 0, "", "a", "abcde", "ab"),
    "text2": (None, 0, "", "abc", "abcdef", "b"),
    "bool+null": (None, 0, "", False, True, 1, 0.0),
    "int+null": (None, 0, "", 0.0, 7, 1.5),
    "float+null": (None, 0, "", 0.0, 2.5),
    "text+null": (None, 0, "", "abc", "a"),
}

FUNC2_OF = {"int": ("halve", "tostr"), "float": ("halve",), "float2": ("halve",), "text": ("suffix",), "text2": ("suffix",),
            "bool+null": ("toint",), "int+null": ("halve", "tostr"), "float+null": ("halve",), "text+null": ("suffix",)}

FUNC_OF = {"int": "double", "float": "double", "float2": "double", "text": "upper", "text2": "upper",
           "bool+null": "not", "int+null": "double", "float+null": "double", "text+null": "upper"}


def exhaustive_cases(nmax, nmax_map):
    for name, alpha in ALPHABETS:
        for n in range(nmax + 1):
            for seq in itertools.product(alpha, repeat=n):
                vs = list(seq)
                if not homogeneous(vs):
                    continue
                yield {"enc": "rle", "values": vs}
                yield {"enc": "dict", "values": vs}
                for d in DEFAULTS[name]:
                    yield {"enc": "sparse", "values": vs, "default": d}
                for f in ((FUNC_OF[name],) + FUNC2_OF[name]) if n <= nmax_map else ():
                    if f_applicable(f, vs):
                        yield {"enc": "rle", "values": vs, "f": f}
                        if None not in vs or len(vs) < 2:
                            yield {"enc": "dict", "values": vs, "f": f}
                        for d in DEFAULTS[name]:
                            yield {"enc": "sparse", "values": vs, "default": d, "f": f}
    scalars = [0, 1, -5, 2**40, 0.0, 1.5, NAN, float("inf"), "", "a", "abcd", "The god of merchants", True, False, None]
    for v in scalars:
        for n in (0, 1, 2, 3, 5, 10):
            yield {"enc": "const", "value": v, "length": n}
            yield {"enc": "func", "value": v, "length": n}
            for f in ("double", "upper", "not") + DTYPE_FUNCS:
                if v is not None and f_applicable(f, [v]):
                    yield {"enc": "const", "value": v, "length": n, "f": f}


def gen_scalar(rng, kind):
    if kind == "int":
        r = rng.random()
        if r < 0.5:
            return rng.randint(-3, 3)
        if r < 0.8:
            return rng.randint(-1000, 1000)
        if r < 0.95:
            return rng.randint(-(2**40), 2**40)
        return rng.choice([2**53, -(2**53), 2**31, 2**53 - 1])
    if kind == "float":
        r = rng.random()
        if r < 0.4:
            return rng.choice([0.0, 1.0, 1.5, -2.5, 0.1, NAN, float("inf"), float("-inf"), 1e300, 5e-324, 2.0**53, 3.0])
        if r < 0.8:
            return rng.randint(-40, 40) / 4.0
        return rng.uniform(-1e6, 1e6)
    if kind == "text":
        n = rng.choice([0, 1, 1, 2, 3, 4, 4, 7, 12, 40])
        return "".join(rng.choice("abcXYZ019 _é日\U0001f600") for _ in range(n))
    if kind == "bool":
        return rng.random() < 0.5
    raise InfraError(kind)


def gen_default(rng, kind, values):
    r = rng.random()
    if r < 0.2:
        return None
    if r < 0.35:
        return 0
    if r < 0.5:
        return ""
    present = [v for v in values if v is not None]
    if r < 0.7 and present:
        return rng.choice(present)  # a value of the data
    if r < 0.8:
        return gen_scalar(rng, kind)
    # another width / numeric kind than the data
    if kind == "int":
        return rng.choice([0.0, 1.0, 1.5, -2.0, NAN, True, float(rng.choice(present))] if present else [0.0, 1.5])
    if kind == "float":
        cands = [0, 1, -2, 3, True]
        cands += [int(v) for v in present if not is_nan(v) and abs(v) < 2**53 and v == int(v)][:3]
        return rng.choice(cands)
    if kind == "text":
        return rng.choice(["a", "abcdefghij", "é", "x" * 50] + [p[:1] for p in present[:2]] + [p + "zz" for p in present[:2]])
    return rng.choice([0, 1, 0.0, 1.0])


RANDOM_FUNCS = {"int": ("double", "halve", "tostr"), "float": ("double", "halve"), "text": ("upper", "suffix"),
                "bool": ("not", "toint")}

# sizes at and around the capacities of 8- and 16-bit signed / unsigned integers: a stored index array
# (dictionary codes, sparse indices, run lengths) narrowed to a "sufficient" integer type fails here
SMALL_BOUNDS = (127, 128, 129, 255, 256, 257)
LARGE_BOUNDS = (32767, 32768, 32769, 65535, 65536, 65537)


def boundary_cases(large=True):
    for kind in ("int", "text"):
        for n in SMALL_BOUNDS:
            d = {"shape": "distinct", "kind": kind, "n": n}
            yield {"enc": "dict", "spec": d}
            yield {"enc": "dict", "spec": d, "f": "id"}
            yield {"enc": "dict", "spec": d, "f": "halve" if kind == "int" else "suffix"}
            yield {"enc": "rle", "spec": d}
            yield {"enc": "rle", "spec": d, "f": "tostr" if kind == "int" else "suffix"}
            yield {"enc": "rle", "spec": {"shape": "run", "kind": kind, "n": n}}
            for dv in (None, 0, ""):
                yield {"enc": "sparse", "spec": d, "default": dv}
        for n in LARGE_BOUNDS if large else ():
            d = {"shape": "distinct", "kind": kind, "n": n}
            yield {"enc": "dict", "spec": d}
            if kind == "int":
                yield {"enc": "rle", "spec": d}
                yield {"enc": "rle", "spec": {"shape": "run", "kind": kind, "n": n}}
                yield {"enc": "sparse", "spec": d, "default": None}
    for n in SMALL_BOUNDS + ((32767, 32768, 65535, 65536) if large else ()):
        yield {"enc": "const", "value": 7, "length": n}
        yield {"enc": "func", "value": "ab", "length": n}


def random_case(ctx, big=False):
    rng = ctx.rng
    kind = rng.choice(["int", "int", "float", "float", "text", "text", "bool"])
    enc = rng.choice(["rle", "dict", "sparse", "sparse", "sparse", "const", "func"])
    if enc in ("const", "func"):
        v = None if rng.random() < 0.1 else gen_scalar(rng, kind)
        c = {"enc": enc, "value": v, "length": rng.choice([0, 1, 2, 3, 7, 50, 1000]) if rng.random() < 0.5 else rng.randint(0, 40)}
        if enc == "const" and rng.random() < 0.3 and v is not None:
            f = rng.choice(RANDOM_FUNCS[kind])
            if f_applicable(f, [v]):
                c["f"] = f
        return c
    n = rng.randint(0, 12) if rng.random() < 0.6 else rng.choice([13, 20, 33, 64, 100, 200])
    pool = [gen_scalar(rng, kind) for _ in range(rng.choice([1, 2, 3, 3, 5, 8]))]
    if rng.random() < 0.04 and kind in ("int", "text"):
        # many distinct values: more dictionary entries / runs than fit a byte or a short
        m = rng.choice([rng.randint(120, 135), rng.randint(250, 262), 300, 700])
        pool = list(range(-5, m - 5)) if kind == "int" else ["v%d" % i for i in range(m)]
        n = m + rng.randint(0, 50)
        rng.shuffle(pool)
        pool = pool + pool[: n - len(pool)]
    with_null = enc != "dict" and rng.random() < 0.3
    if with_null:
        pool.append(None)
    vs = []
    stick = rng.choice([0.0, 0.3, 0.7, 0.9])
    if len(pool) > 200:
        vs = list(pool)
    else:
        for _ in range(n):
            if vs and rng.random() < stick:
                vs.append(vs[-1])
            else:
                vs.append(rng.choice(pool))
    if enc == "dict" and rng.random() < 0.05 and len(vs) >= 1:
        vs[rng.randrange(len(vs))] = None
    if big and kind == "int" and vs:
        # typed (int64) arrays only: among objects Python compares an int with a float default
        # exactly, numpy after promotion to float64 -- the model has the latter
        vs = [v for v in vs if v is not None] or [1]
        vs[rng.randrange(len(vs))] = rng.choice([2**53 + 1, -(2**53) - 1, 2**62 + 1, 2**63 - 1])
    c = {"enc": enc, "values": vs}
    if enc == "sparse":
        c["default"] = gen_default(rng, kind, vs)
        if big and kind == "int":
            c["default"] = rng.choice([0.0, 1.5, float(2**53)])
    if rng.random() < 0.35:
        f = rng.choice(RANDOM_FUNCS[kind] + ("id",))
        if f_applicable(f, vs) and not (enc == "dict" and None in vs and len(vs) >= 2):
            c["f"] = f
    return c


# --------------------------------------------------------------------------- entry points


def _chunks(it, n):
    batch = []
    for c in it:
        batch.append(c)
        if len(batch) >= n:
            yield batch
            batch = []
    if batch:
        yield batch


CORPUS = [
    # witnesses of C09-F01 (fixed) and boundary shapes; run first
    {"enc": "sparse", "values": [1.5, 0.0, 2.5], "default": 0},
    {"enc": "sparse", "values": ["ab", "", "cde"], "default": ""},
    {"enc": "sparse", "values": [1, None, 2], "default": 0},
    {"enc": "sparse", "values": ["a", "", "b"], "default": 0},
    {"enc": "sparse", "values": [10, 20], "default": ""},
    {"enc": "sparse", "values": ["a", None, "b"], "default": ""},
    {"enc": "sparse", "values": [1.5, 0.0, 2.5], "default": 0, "f": "double"},
    {"enc": "sparse", "values": [True, False, True], "default": 0},
    {"enc": "sparse", "values": [NAN, 1.0, NAN], "default": NAN},
    {"enc": "sparse", "values": [], "default": None},
    {"enc": "rle", "values": []},
    {"enc": "rle", "values": [NAN, NAN, 1.0]},
    {"enc": "rle", "values": ["a", "abc", "abc", None, None]},
    {"enc": "dict", "values": []},
    {"enc": "dict", "values": [NAN, NAN, 1.0]},
    {"enc": "dict", "values": ["b", "abc", "a", "b"]},
    {"enc": "dict", "values": [1, None]},
    {"enc": "const", "value": "The god of merchants, shepherds and messengers.", "length": 10},
    {"enc": "const", "value": None, "length": 3},
    {"enc": "func", "value": "abc", "length": 0},
]


def run(ctx):
    for c in CORPUS:
        if not valid_case(c):
            raise InfraError("corpus case is not valid: %r" % (c,))
    evaluate(ctx, [dict(c) for c in CORPUS])
    nb = 0
    for batch in _chunks(boundary_cases(), 20):
        for c in batch:
            if not valid_case(c):
                raise InfraError("boundary case is not valid: %r" % (c,))
        evaluate(ctx, batch)
        nb += len(batch)
    ctx.note("boundary_scope", "%d cases with %s and %s distinct values / run lengths / lengths (ints and text) through dictionary, "
             "RLE, sparse, constant and function columns" % (nb, list(SMALL_BOUNDS), list(LARGE_BOUNDS)))
    ctx.note("rule", "one case = one sequence (or constant value and length) put through one column encoding, "
             "optionally with an element-wise function on the stored values; non-trivial = at least two elements; "
             "distinct by canonical JSON of the case")
    ctx.note("assumptions", [
        "element kinds: one kind per sequence (integers within int64, floats without -0.0, text, booleans), optionally with nulls; "
        "mixed-kind lists are converted by numpy.array before any encoding sees them and are outside the property's quantifier",
        "the dictionary encoding does not support nulls (numpy.unique sorts with '<'): a TypeError there is not a violation",
        "map commutation for sparse columns is required of functions that fix the default (DESIGN.md section 7, readings)",
        "a sparse position whose input equals the default may come back as the default itself (0.0 stored among objects with default 0 -> 0)",
    ])
    nmax, nmax_map = ctx.scale((5, 4), (6, 5))
    total = 0
    for batch in _chunks(exhaustive_cases(nmax, nmax_map), 4000):
        if ctx.time_left() < 5:
            if ctx.violations:
                break  # a failing input is already recorded; shrinking it used the budget
            raise InfraError("time budget exhausted inside the exhaustive scope")
        evaluate(ctx, batch)
        total += len(batch)
    ctx.exhaustive = False
    ctx.note("exhaustive_scope", "all sequences of length 0..%d over each of %d three-symbol alphabets (ints, floats incl. NaN, text of widths 0..4, "
             "booleans, nulls) through RLE, dictionary and sparse (every listed default) encodings, mapped variants to length %d, "
             "constants/functions x lengths: %d cases; then random" % (nmax, len(ALPHABETS), nmax_map, total))
    n_random = ctx.scale(4000, 60000)
    done = 0
    while done < n_random and ctx.time_left() > 6:
        k = min(2000, n_random - done)
        evaluate(ctx, [random_case(ctx, big=(i % 97 == 0)) for i in range(k)])
        done += k
    ctx.note("random_cases", done)


def intensify(ctx):
    for _ in range(10):
        if ctx.time_left() < 5:
            break
        evaluate(ctx, [random_case(ctx) for _ in range(2000)])


def replay(ctx, case):
    if not valid_case(case):
        raise InfraError("replay case is not a valid C09 case: %r" % (case,))
    evaluate(ctx, [case])


KNOWN_PREDICATES = {"sparse_big_int_float_default": is_big_int_float_default}
