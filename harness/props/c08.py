"""C08 — Timestamp parsing round-trips ISO-8601 and epoch forms and is total.

Three-way discipline:
  * oracle: the statement evaluated on parse_iso's / the casts' own outputs (round trip of every
    listed rendering, native inputs, epoch seconds, None for everything that is not date-shaped,
    never an exception);
  * correspondence: parse_iso vs Model/Iso.lean (`parseIso`) on every input of the modelled domain,
    the casts vs `Iso.cast`;
  * mirror: the model's renderer / validity / ordinal vs Python's datetime with the implementation
    out of the picture (InfraError on mismatch).
"""
import contextlib
import datetime
import math
import os
import re
import struct
import sys
import time
import warnings

from .. import wire
from ..core import InfraError, _jsonable, shrink

DT = datetime.datetime
MIN_EPOCH = -62135596800
MAX_EPOCH = 253402300799

# --------------------------------------------------------------------------- values of a case


def _objects():
    import decimal
    import fractions

    import numpy

    class S(str):
        pass

    class I(int):
        pass

    class D(datetime.date):
        pass

    class T(datetime.datetime):
        pass

    class NoHash:
        __hash__ = None

    class HashRaises:
        def __hash__(self):
            raise TypeError("unhashable")

    class EqRaises:
        def __eq__(self, other):
            raise RuntimeError("no comparison")

        __hash__ = object.__hash__

    class LenRaises:
        def __len__(self):
            raise RuntimeError("no length")

    class DictSub(dict):
        pass

    class ListSub(list):
        pass

    class Slots:
        __slots__ = ()

    # name -> (value, lenient): lenient = numeric-like, a reader may treat it as an integer/float
    return {
        "None": (None, False), "True": (True, True), "False": (False, True), "list": ([1], False), "tuple": ((2023, 1, 1), False),
        "dict": ({}, False), "set": (set(), False), "object": (object(), False), "complex": (1 + 2j, False), "type": (int, False),
        "time": (datetime.time(1, 2, 3), False), "timedelta": (datetime.timedelta(1), False),
        "bytearray": (bytearray(b"2023-04-18"), False), "memoryview": (memoryview(b"2023-04-18"), False),
        "strsub_date": (S("2023-04-18"), True), "strsub_digits": (S("1234"), True), "intsub": (I(5), True),
        "datesub": (D(2023, 4, 18), True), "datetimesub": (T(2023, 4, 18, 1, 2, 3), True),
        "Decimal": (decimal.Decimal("5"), True), "Fraction": (fractions.Fraction(5, 2), True),
        "np.int32": (numpy.int32(5), True), "np.int16": (numpy.int16(-5), True), "np.uint64": (numpy.uint64(2**64 - 1), True),
        "np.float32": (numpy.float32(1.5), True), "np.bool": (numpy.bool_(True), True), "np.array": (numpy.array([1, 2]), False),
        "np.str": (numpy.str_("2023-04-18"), True), "np.bytes": (numpy.bytes_(b"2023-04-18"), True),
        "ellipsis": (Ellipsis, False), "range": (range(3), False), "lambda": (lambda: 0, False), "frozenset": (frozenset(), False),
        "float_str": ("1.5", False), "neg_str": ("-12", False), "exp_str": ("1e5", False),
        # unhashable / hostile-but-legal objects (a cache keyed on the argument, or an `==` on it, would raise)
        "unhashable_obj": (NoHash(), False), "hash_raises": (HashRaises(), False), "eq_raises": (EqRaises(), False),
        "len_raises": (LenRaises(), False), "dictsub": (DictSub(), False), "listsub": (ListSub([1]), False),
        "nested_list": ([[2023, 4, 18]], False), "dict_date": ({"year": 2023}, False), "set_text": ({"2023-04-18"}, False),
        "bytearray_digits": (bytearray(b"1234"), False), "np.array_str": (numpy.array(["2023-04-18"]), False),
        "np.array0d": (numpy.array(5), True), "np.float16": (numpy.float16(1.5), True), "np.nan64": (numpy.float64("nan"), True),
        "Decimal_nan": (decimal.Decimal("NaN"), True), "Decimal_inf": (decimal.Decimal("Infinity"), True),
        "generator": ((x for x in ()), False), "slots_obj": (Slots(), False), "exception": (ValueError("2023-04-18"), False),
    }


OBJ = None
WARNED = []


def obj(name):
    global OBJ
    if OBJ is None:
        OBJ = _objects()
    return OBJ[name]


class StrSub(str):
    """A proper subclass of str: `type(value) != str`, so the parser answers None; parse_time still takes it for text."""


def render(c):
    """Python-side canonical rendering of an iso case (independent of the model)."""
    y, m, d, H, M, S, us = c["dt"]
    t = "%04d-%02d-%02d" % (y, m, d)
    if c["form"] != "date":
        t += c["sep"] + "%02d:%02d" % (H, M)
    if c["form"] == "sec":
        t += ":%02d" % S
        if c["k"]:
            t += "." + ("%06d" % us)[: c["k"]]
    suf = c["suffix"]
    if suf[0] == "z":
        t += "Z"
    elif suf[0] in ("plus", "minus"):
        t += ("+" if suf[0] == "plus" else "-") + "%02d:%02d" % (suf[1], suf[2])
    elif suf[0] in ("plusb", "minusb"):
        t += ("+" if suf[0] == "plusb" else "-") + "%02d%02d" % (suf[1], suf[2])
    elif suf[0] in ("plush", "minush"):
        t += ("+" if suf[0] == "plush" else "-") + "%02d" % suf[1]
    return t


def sec_text(c):
    """Text of an 'isotail' case: the seconds form followed by an arbitrary tail."""
    y, m, d, H, M, S, _ = c["dt"]
    return "%04d-%02d-%02d%s%02d:%02d:%02d" % (y, m, d, c["sep"], H, M, S) + c["tail"]


def tail_read(t):
    """Python mirror of `Iso.tailRead` (the tails after which a seconds-form rendering is read)."""
    if len(t) > 14:
        return False
    u = t[:-1] if t.endswith("Z") else t
    return "+" not in u or len(u.split("+")[0]) <= 9


# the suffixes after which the minute and date-only forms are read (Lean: `Suffix.dropped`)
DROPPED_SUFFIXES = ("none", "z", "plus", "plusb", "plush")
LISTED_TAIL = re.compile(r"^(\.[0-9]{1,9})?(Z|[+-][0-9]{2}(:?[0-9]{2})?)?$")


def value_of(c):
    """The Python value handed to parse_iso for a case."""
    import numpy

    k = c["kind"]
    if k == "iso":
        t = render(c)
        return t.encode("utf-8") if c.get("enc") == "bytes" else t
    if k == "isotail":
        t = sec_text(c)
        return t.encode("utf-8") if c.get("enc") == "bytes" else t
    if k == "num":
        return num_value(c["ty"], c["n"])
    if k == "text":
        return c["text"]
    if k == "bytes":
        return c["bytes"]
    if k == "strsub":
        return StrSub(c["text"])
    if k == "buffer":
        return bytearray(c["bytes"]) if c["as"] == "bytearray" else memoryview(c["bytes"])
    if k == "int":
        return c["n"]
    if k == "npint":
        return numpy.int64(c["n"])
    if k == "float":
        return c["x"]
    if k == "npfloat":
        return numpy.float64(c["x"])
    if k == "npfloat32":
        return numpy.float32(c["x"])
    if k == "date":
        return datetime.date(*c["ymd"])
    if k == "datetime":
        tz = None
        if c.get("tz") is not None:
            tz = datetime.timezone(datetime.timedelta(minutes=c["tz"]))
        return DT(*c["dt"], tzinfo=tz)
    if k == "obj":
        return obj(c["name"])[0]
    if k == "time":
        tz = None
        if c.get("tz") is not None:
            tz = datetime.timezone(datetime.timedelta(minutes=c["tz"]))
        return datetime.time(*c["hms"], tzinfo=tz)
    if k == "npdt":
        return numpy.datetime64(c["text"], c["unit"])
    if k == "pandas":
        import pandas

        return pandas.Timestamp(c["text"])
    raise InfraError("bad case kind %r" % (c,))


NUM_TYPES = ["int", "float", "bool", "Decimal", "Fraction", "np.int64", "np.float64", "np.int32", "np.int16", "np.uint64", "np.float32",
             "np.bool", "intsub", "floatsub", "str", "bytes", "np.str", "complex"]
# label -> the class as the source would write it
SRC_NAME = {"int": "int", "float": "float", "bool": "bool", "Decimal": "decimal.Decimal", "Fraction": "fractions.Fraction",
            "np.int64": "numpy.int64", "np.float64": "numpy.float64", "np.int32": "numpy.int32", "np.int16": "numpy.int16",
            "np.uint64": "numpy.uint64", "np.float32": "numpy.float32", "np.bool": "numpy.bool_", "str": "str", "bytes": "bytes",
            "np.str": "numpy.str_", "complex": "complex"}
# the numeric classes the statement's "integer and float inputs" are demanded of: the class table of the unchanged source
# (`input_type in (int, numpy.int64, float, numpy.float64)`); theorem C08.epoch_classes_are_the_stated_ones
ADMITTED_INT = ("int", "np.int64")
ADMITTED_FLOAT = ("float", "np.float64")
# numeric neighbours: not in the table of the unchanged source (None there); a reader may take them for numbers, so the oracle accepts
# None or the epoch value, and the model (table read from the source on this run) says which
NEIGHBOURS = ("bool", "Decimal", "Fraction", "np.int32", "np.int16", "np.uint64", "np.float32", "np.bool", "intsub", "floatsub")


class IntSub(int):
    pass


class FloatSub(float):
    pass


_TABLE = None


def source_table():
    """[mode, class names] of the table in front of the Unix-seconds branch as the extractor read it from the working tree on this run."""
    global _TABLE
    if _TABLE is None:
        import json
        import os

        from .. import core
        try:
            with open(os.path.join(core.LEAN, "OrsoVerif", "Generated", "generated.json")) as f:
                _TABLE = json.load(f).get("iso.epoch_types") or ["exact", []]
        except (OSError, ValueError):
            _TABLE = ["exact", []]
    return _TABLE


def num_types():
    """NUM_TYPES plus one label `src:<name>` for every class the source's table names on this run that has no label yet."""
    known = set(SRC_NAME.values()) | {"numpy.bool"}
    return NUM_TYPES + ["src:" + nm for nm in source_table()[1] if nm not in known and _resolve(nm) is not None]


def _resolve(name):
    import decimal
    import fractions

    import numpy
    try:
        cls = eval(name, {"__builtins__": {}}, {"numpy": numpy, "np": numpy, "datetime": datetime, "decimal": decimal, "fractions": fractions,
                                                "int": int, "float": float, "bool": bool, "complex": complex, "str": str, "bytes": bytes})
    except Exception:  # noqa: BLE001 - a name the harness cannot build: not fed
        return None
    return cls if isinstance(cls, type) and cls not in (str, bytes, datetime.datetime, datetime.date, datetime.time) else None


def num_value(ty, n):
    """The number n as a value of the named type (all ==-equal to n where the type can hold it)."""
    import decimal
    import fractions

    import numpy

    if ty.startswith("src:"):
        return _resolve(ty[4:])(n)
    return {
        "int": lambda: int(n), "float": lambda: float(n), "bool": lambda: bool(n), "Decimal": lambda: decimal.Decimal(n),
        "Fraction": lambda: fractions.Fraction(n), "np.int64": lambda: numpy.int64(n), "np.float64": lambda: numpy.float64(n),
        "np.int32": lambda: numpy.int32(n), "np.int16": lambda: numpy.int16(n), "np.uint64": lambda: numpy.uint64(n),
        "np.float32": lambda: numpy.float32(n),
        "np.bool": lambda: numpy.bool_(n), "intsub": lambda: IntSub(n), "floatsub": lambda: FloatSub(n), "str": lambda: str(n),
        "bytes": lambda: str(n).encode(), "np.str": lambda: numpy.str_(str(n)), "complex": lambda: complex(n),
    }[ty]()


def holds(ty, n):
    """The class can hold n exactly (`int(value) == n`), so the value is ==-equal to n."""
    try:
        v = num_value(ty, n)
        if ty in ("str", "bytes", "np.str"):
            return n >= 0
        if ty == "complex":
            return v == n
        return int(v) == n and (ty not in ("bool", "np.bool") or n in (0, 1))
    except Exception:  # noqa: BLE001 - OverflowError of numpy scalars etc.
        return False


def num_class_name(v):
    """Name (as `Iso.mro` knows it) of the class of a number that is none of int / numpy.int64 / float / numpy.float64, else None."""
    import decimal
    import fractions

    import numpy

    t = type(v)
    if t is bool:
        return "bool"
    if isinstance(v, int):
        return "int subclass"
    if isinstance(v, float):
        return "float subclass"
    if t is numpy.bool_:
        return "numpy.bool"
    if isinstance(v, (numpy.integer, numpy.floating)):
        return "numpy." + t.__name__
    if t is decimal.Decimal:
        return "decimal.Decimal"
    if t is fractions.Fraction:
        return "fractions.Fraction"
    return None


def model_input(v):
    """Wire form of the model's `Input`, or None when v is outside the modelled domain."""
    import numpy

    t = type(v)
    if t is int:
        return ["int", v]
    if t is numpy.int64:
        return ["npint", int(v)]
    if t is float:
        return ["float", v]
    if t is numpy.float64:
        return ["npfloat", float(v)]
    nm = num_class_name(v)
    if nm is not None:
        if hasattr(v, "to_pydatetime"):
            return None
        try:
            return ["num", nm, int(v)]  # `int(value)` is what the epoch branch would compute
        except (ValueError, OverflowError, TypeError):
            return ["other"]  # NaN / infinity: whatever the table says, `int(value)` raises a caught class -> None
    if isinstance(v, bytes):
        try:
            s = bytes(v).decode("utf-8")
        except UnicodeDecodeError:
            return ["bytes", bytes(v)]
        return ["bytes", bytes(v)] if text_in_domain(s) else None
    if t is str:
        return ["str", v] if text_in_domain(v) else None
    if isinstance(v, str):
        # an instance of a proper subclass of str (numpy.str_ too): None for the parser (`type(value) != str`), text for parse_time
        return ["strsub", str.__str__(v)] if text_in_domain(str.__str__(v)) else None
    if t is datetime.datetime:
        return ["datetime", [v.year, v.month, v.day, v.hour, v.minute, v.second, v.microsecond]]
    if t is datetime.date:
        return ["date", v.year, v.month, v.day]
    if t is numpy.datetime64 or hasattr(v, "to_pydatetime"):
        return None
    if isinstance(v, datetime.time):
        return ["time", v.hour, v.minute, v.second, v.microsecond]
    return ["other"]


def text_in_domain(s):
    """The model's isdigit/int() are exact on ASCII and on non-ASCII characters that are neither
    digits/numerics nor white space."""
    for ch in s:
        o = ord(ch)
        if o >= 128 and (ch.isdigit() or ch.isdecimal() or ch.isnumeric() or ch.isspace()):
            return False
        if 0xD800 <= o <= 0xDFFF:
            return False
    return True


def fields(r):
    return [r.year, r.month, r.day, r.hour, r.minute, r.second, r.microsecond]


def outcome(fn, v):
    try:
        r = fn(v)
    except BaseException as e:  # noqa: BLE001 - "never raises" is the property
        if isinstance(e, (KeyboardInterrupt, SystemExit, MemoryError)):
            raise
        return ["raises", type(e).__name__]
    if r is None:
        return ["none"]
    if isinstance(r, datetime.datetime):
        return ["value", fields(r)]
    if isinstance(r, datetime.date):
        return ["date", r.year, r.month, r.day]
    if isinstance(r, datetime.time):
        return ["time", r.hour, r.minute, r.second, r.microsecond]
    return ["weird", repr(r)[:80]]


# --------------------------------------------------------------------------- oracle


def date_shaped(s):
    return len(s) >= 10 and s[4] == "-" and s[7] == "-"


def expected(c, v):
    """('value', fields) demanded by the statement, ('none',) demanded None, ('any',) only totality,
    ('either', fields) None or that value."""
    k = c["kind"]
    if k == "iso":
        y, m, d, H, M, S, us = c["dt"]
        if c["form"] == "sec":
            return ("value", [y, m, d, H, M, S, 0])
        if c["suffix"][0] not in DROPPED_SUFFIXES:
            # -HH:MM / -HHMM / -HH after the minute / date-only form: the unchanged parser does not read them (minute form: None;
            # 'YYYY-MM-DD-05:00' is 16 characters and reads 05:00) - documented boundary (theorems minute_form_tails / date_form_tails)
            return ("any",)
        # "with a trailing Z or a numeric offset" crossed with "the minute-precision and date-only forms return the corresponding
        # minute and midnight" (quantifier: "crossed with separator / fraction / suffix / encoding variants"): the Z strip and the
        # '+' split come in front of the choice of the form, theorems minute_form / date_form (Suffix.dropped)
        sfx = "" if c["suffix"][0] == "none" else " followed by Z / +offset"
        if c["form"] == "min":
            return ("value", [y, m, d, H, M, 0, 0], "the minute-precision form%s does not return that minute" % sfx)
        return ("value", [y, m, d, 0, 0, 0, 0], "the date-only form%s does not return midnight" % sfx)
    if k == "isotail":
        t = c["tail"]
        if LISTED_TAIL.match(t) and tail_read(t):
            # a fraction of 1..9 digits and / or Z / +HH:MM / +HHMM / +HH / -HH:MM / -HHMM / -HH, inside the parser's windows
            return ("value", list(c["dt"][:6]) + [0])
        return ("any",)
    if k == "num":
        n, ty = c["n"], c["ty"]
        inside = MIN_EPOCH <= n <= MAX_EPOCH
        f = fields(DT(1970, 1, 1) + datetime.timedelta(seconds=n)) if inside else None
        if ty in ("str", "bytes"):
            return ("none",) if n < 0 or not inside else ("value", f)
        if ty in ADMITTED_INT:
            # "integer inputs are read as Unix seconds in UTC": demanded of the integer classes of the unchanged source's table
            return ("epoch", f) if inside else ("none",)
        if ty in ADMITTED_FLOAT:
            return ("floatsec", float(n), False) if inside else ("any",)
        if ty in NEIGHBOURS or ty.startswith("src:"):
            return ("either", f) if inside else ("none",)
        return ("any",)
    if k == "date":
        return ("value", list(c["ymd"]) + [0, 0, 0, 0])
    if k == "datetime":
        return ("value", list(c["dt"][:6]) + [0])
    if k in ("int", "npint"):
        n = c["n"]
        if MIN_EPOCH <= n <= MAX_EPOCH:
            return ("epoch", fields(DT(1970, 1, 1) + datetime.timedelta(seconds=n)))
        return ("none",)
    if k in ("float", "npfloat"):
        x = c["x"]
        if x != x or abs(x) == float("inf") or not (MIN_EPOCH - 1 < x < MAX_EPOCH + 1):
            return ("none",)
        if x < MIN_EPOCH or x > MAX_EPOCH:
            return ("any",)  # within one second of the limits: depends on the rounding direction
        return ("floatsec", x, False)
    if k == "npfloat32":
        # a numeric neighbour (not in the table of the unchanged source: None there); when read, read like a float
        x = float(v)
        if x != x or abs(x) == float("inf") or not (MIN_EPOCH - 1 < x < MAX_EPOCH + 1):
            return ("none",)
        if x < MIN_EPOCH or x > MAX_EPOCH:
            return ("any",)
        return ("floatsec", x, True)
    if k in ("text", "bytes"):
        if k == "bytes":
            try:
                s = c["bytes"].decode("utf-8")
            except UnicodeDecodeError:
                return ("none",)
        else:
            s = c["text"]
        if s.isdigit():
            if s.isascii() and len(s) <= 4300:
                n = int(s)
                if n <= MAX_EPOCH:
                    return ("value", fields(DT(1970, 1, 1) + datetime.timedelta(seconds=n)))
                return ("none",)
            return ("any",)
        if not date_shaped(s):
            return ("none",)
        if len(s) <= 33:
            # no listed form has 11..15 or 17..18 characters in front of its Z / +offset (date 10, minute 16, seconds 19 and more):
            # a rendering cut off inside a field is "other input" (theorems date_form_tails / minute_form_tails / text_grammar)
            u = s[:-1] if s.endswith("Z") else s
            w = u.split("+")[0] if "+" in u else u
            if len(w) in (11, 12, 13, 14, 15, 17, 18):
                return ("none",)
        return ("any",)
    if k == "obj":
        return ("any",) if obj(c["name"])[1] else ("none",)
    if k == "buffer":
        return ("none",)  # bytearray / memoryview are not bytes: "every other input yields None"
    if k == "strsub":
        return ("any",)  # a reader may or may not take a str subclass for text; it must not raise (and is compared with the model)
    if k == "time":
        return ("none",)
    return ("any",)


def check(exp, out):
    """Clause text if `out` violates the expectation."""
    if out[0] == "raises":
        return "parser raised %s" % out[1]
    if out[0] == "weird":
        return "parser returned neither None nor a datetime"
    if exp[0] == "epoch" and out != ["value", exp[1]]:
        return "integer input (int, numpy.int64: the integer classes the parser's table admits) not read as Unix seconds in UTC"
    if exp[0] == "value" and out != ["value", exp[1]]:
        if len(exp) > 2:
            return "round trip: " + exp[2]
        return "round trip: the parsed value is not the rendered date-time (whole seconds)"
    if exp[0] == "none" and out != ["none"]:
        return "input that is not a date yields a value instead of None"
    if exp[0] == "either" and out not in (["none"], ["value", exp[1]]):
        return "integer-like input read as another instant"
    if exp[0] == "floatsec":
        if out == ["none"] and exp[2]:
            return None
        if out[0] != "value" or out[1][6] != 0:
            return "float epoch not read as whole Unix seconds"
        delta = DT(*out[1][:6]) - DT(1970, 1, 1)
        got = delta.days * 86400 + delta.seconds  # exact integer
        # "read as Unix seconds in UTC", whole seconds: the second the instant lies in.  For x >= 0 (and integral x) that is
        # int(x) = floor(x), demanded exactly - never the next second, however close x is to it.  For a negative fraction the
        # statement leaves two readings: the second toward zero (int(x): the unchanged tree, theorem float_epoch_truncates) and
        # the wall-clock second containing the instant (floor(x)); both accepted here, the model says which one the tree takes.
        if got not in (math.trunc(exp[1]), math.floor(exp[1])):
            if abs(got - exp[1]) < 1:
                return "float epoch not truncated to the whole Unix second it lies in (carried into the next second)"
            return "float epoch read as another instant"
    return None


def _norm(clause):
    return None if clause is None else clause.split(":")[0].split(" expected")[0]


def PARSE():
    from orso.tools import parse_iso

    return parse_iso


def impl_all(c, v):
    from orso.tools import parse_iso
    from orso.types import OrsoTypes

    out = {"parse": outcome(parse_iso, v)}
    if c.get("casts"):
        out["DATE"] = outcome(OrsoTypes.DATE.parse, v)
        out["TIMESTAMP"] = outcome(OrsoTypes.TIMESTAMP.parse, v)
        out["TIME"] = outcome(OrsoTypes.TIME.parse, v)
    return out


def oracle(c, v, out):
    exp = expected(c, v)
    cl = check(exp, out["parse"])
    if cl:
        return cl
    if c.get("casts") and v is not None:
        p = out["parse"]
        if p[0] == "value":
            f = p[1]
            if out["TIMESTAMP"] != ["value", f]:
                return "TIMESTAMP cast disagrees with parse_iso"
            if out["DATE"] != ["date"] + f[:3]:
                return "DATE cast disagrees with parse_iso"
        elif p[0] == "none":
            if out["TIMESTAMP"][0] != "raises" or out["DATE"][0] != "raises":
                return "cast returns a value where parse_iso yields None"
    return None


# --------------------------------------------------------------------------- ambient interpreter state

# Process-wide settings the statement does not mention: the result must be the same function of the argument under each of them.
# `warnings=error` is what `python -W error`, PYTHONWARNINGS=error, warnings.simplefilter('error') and pytest's
# filterwarnings=error set: any warnings.warn inside the parser then RAISES the warning class.
AMBIENTS = ["warnings=error", "warnings=ignore", "warnings=always", "TZ=UTC", "TZ=Asia/Kolkata", "TZ=Pacific/Kiritimati", "TZ=unset",
            "locale=C", "locale=C.UTF-8", "int_max_str_digits=0", "int_max_str_digits=640", "decimal=prec1-traps"]


@contextlib.contextmanager
def ambient(name):
    """Run the body under the named process-wide setting and restore the previous one."""
    if not name:
        yield
        return
    key, _, val = name.partition("=")
    if key == "warnings":
        with warnings.catch_warnings():
            warnings.simplefilter(val)
            yield
    elif key == "TZ":
        old = os.environ.get("TZ")
        if val == "unset":
            os.environ.pop("TZ", None)
        else:
            os.environ["TZ"] = val
        time.tzset()
        try:
            yield
        finally:
            if old is None:
                os.environ.pop("TZ", None)
            else:
                os.environ["TZ"] = old
            time.tzset()
    elif key == "locale":
        import locale

        old = locale.setlocale(locale.LC_ALL)
        try:
            locale.setlocale(locale.LC_ALL, val)
        except locale.Error:
            yield  # not installed on this machine: the body runs under the current locale
            return
        try:
            yield
        finally:
            locale.setlocale(locale.LC_ALL, old)
    elif key == "int_max_str_digits":
        old = sys.get_int_max_str_digits()
        sys.set_int_max_str_digits(int(val))
        try:
            yield
        finally:
            sys.set_int_max_str_digits(old)
    elif key == "decimal":
        import decimal

        with decimal.localcontext() as dctx:
            dctx.prec = 1
            dctx.traps[decimal.Inexact] = True
            dctx.traps[decimal.Rounded] = True
            yield
    else:
        raise InfraError("unknown ambient setting %r" % (name,))


# --------------------------------------------------------------------------- evaluation


def cast_model_out(o):
    """Model `CastOut` -> the shape of `outcome`."""
    if o[0] == "timestamp":
        return ["value", o[1]]
    if o[0] == "raises":
        return ["raises", o[1]]
    return o


def evaluate(ctx, cases):
    vals = [value_of(c) for c in cases]
    lines, slots = [], []
    for i, (c, v) in enumerate(zip(cases, vals)):
        mi = model_input(v)
        if mi is not None and v is not None:
            slots.append((i, "parse"))
            lines.append("C08 parse " + wire.line(mi))
            if mi[0] in ("str", "bytes"):
                # the same text through the hand-written skeleton (what the lemmas reason about); the
                # "parse" op runs the string branch regenerated from the source on this run
                try:
                    t = mi[1] if mi[0] == "str" else mi[1].decode("utf-8")
                    slots.append((i, "skel"))
                    lines.append("C08 parseskel " + wire.line(t))
                except UnicodeDecodeError:
                    pass
            if c.get("casts"):
                for k in ("DATE", "TIMESTAMP", "TIME"):
                    slots.append((i, k))
                    lines.append("C08 cast " + wire.line(k, mi))
            if mi[0] in ("str", "strsub"):
                # mirror: the model of datetime.time.fromisoformat vs CPython's, the implementation out of the picture
                slots.append((i, "timeiso"))
                lines.append("C08 timeiso " + wire.line(mi[1]))
        if c["kind"] == "iso":
            slots.append((i, "render"))
            lines.append("C08 render " + wire.line(c["form"], c["dt"], c["sep"], c["k"], c["suffix"]))
        if c["kind"] == "isotail":
            slots.append((i, "tailread"))
            lines.append("C08 tailread " + wire.line(c["tail"]))
    mres = [dict() for _ in cases]
    for (i, what), o in zip(slots, ctx.model.batch(lines)):
        if not o.startswith("ok "):
            raise InfraError("model rejected %s of case %r: %r" % (what, cases[i], o))
        dec = wire.dec_all(o[3:])
        mres[i][what] = dec if what == "tailread" else dec[0]
        if what == "parse":
            mres[i]["parsegen"] = dec[1]  # the dispatch program translated from the source on this run (Gen.IsoDispatch.dispatch)
        if what in ("DATE", "TIMESTAMP", "TIME"):
            # [what the cast program translated from the source on this run returns, what the specification form Iso.cast says]
            mres[i][what + ":spec"] = dec[1]
    for c, v, m in zip(cases, vals, mres):
        if "timeiso" in m:
            t = str.__str__(v)
            try:
                r = datetime.time.fromisoformat(t)
                want = ["time", r.hour, r.minute, r.second, r.microsecond]
            except ValueError:
                want = ["raises", "ValueError"]
            ctx.hit("time.fromisoformat:" + want[0])
            if m["timeiso"] != want:
                raise InfraError("model of datetime.time.fromisoformat %r differs from CPython %r on %r" % (m["timeiso"], want, t))
        if "tailread" in m:
            t = c["tail"]
            u = t[:-1] if t.endswith("Z") else t
            cut = u.split("+")[0] if "+" in u else u
            if m["tailread"] != [tail_read(t), cut]:
                raise InfraError("model tailRead/cutTail %r differs from the Python mirror %r on %r" % (m["tailread"], [tail_read(t), cut], t))
        if "render" in m:
            t = render(c)
            if m["render"] != t:
                raise InfraError("model rendering %r differs from Python's %r" % (m["render"], t))
            y, mo, d, H, M, S, us = c["dt"]
            if c["form"] == "sec" and c["k"] in (0, 3, 6) and c["suffix"][0] == "none":
                iso = DT(y, mo, d, H, M, S, us).isoformat(sep=c["sep"], timespec={0: "seconds", 3: "milliseconds", 6: "microseconds"}[c["k"]])
                if iso != t:
                    raise InfraError("harness rendering %r differs from datetime.isoformat %r" % (t, iso))
        amb = c.get("ambient")
        strict = None
        with ambient(amb):
            out = impl_all(c, v)
            again = outcome(PARSE(), v)
        if amb:
            ctx.hit("ambient:" + amb)
        else:
            # clause-free observation: does the parser (or a cast) emit any warning at all on this input?
            with warnings.catch_warnings(record=True) as rec:
                warnings.simplefilter("always")
                impl_all(c, v)
            if rec:
                ctx.hit("warnings-emitted:" + rec[0].category.__name__, len(rec))
                if len(WARNED) < 5:
                    WARNED.append({"case": _jsonable(c), "category": rec[0].category.__name__, "message": str(rec[0].message)[:160]})
            else:
                ctx.hit("warnings-emitted:none")
            # the same input with warnings promoted to errors, judged by the same clauses
            with ambient("warnings=error"):
                strict = impl_all(c, v)
        ctx.case(c, True)
        if len(ctx.samples) < 6 and ctx.evaluations % 9973 == 1:
            ctx.samples.append(_jsonable(c))
        if again != out["parse"]:
            ctx.fail(c, "parser gives different results for the same argument on a repeated call", impl={"first": out["parse"], "second": again})
            continue
        ctx.hit("kind:" + c["kind"] + (":" + c["form"] if c["kind"] == "iso" else "") + (":" + c["ty"] if c["kind"] == "num" else ""))
        if c["kind"] in ("text", "bytes", "isotail", "iso", "strsub"):
            try:
                L = len(v if isinstance(v, str) else v.decode("utf-8"))
                ctx.hit("textlen:%s" % (L if L in (9, 10, 11, 15, 16, 17, 18, 19, 20, 28, 29, 32, 33, 34) else "other"))
            except UnicodeDecodeError:
                ctx.hit("textlen:undecodable")
        ctx.hit("outcome:" + out["parse"][0])
        if c["kind"] == "iso":
            ctx.hit("suffix:" + c["suffix"][0])
            ctx.hit("fraction:%d" % c["k"])
        clause = oracle(c, v, out)
        if clause is not None:
            c_min = c
            if not ctx.replaying and c["kind"] in ("text", "bytes", "int"):
                def still(c2):
                    try:
                        if c2.get("kind") != c["kind"]:
                            return False
                        v2 = value_of(c2)
                        with ambient(c2.get("ambient")):
                            o3 = impl_all(c2, v2)
                        return _norm(oracle(c2, v2, o3)) == _norm(clause)
                    except InfraError:
                        return False
                c_min = shrink(c, still)
            v2 = value_of(c_min)
            with ambient(c_min.get("ambient")):
                o2 = impl_all(c_min, v2)
            ctx.fail(c_min, oracle(c_min, v2, o2) or clause, impl=o2, model=m if c_min is c else None,
                     detail={"input": repr(v2)[:120]} if c_min["kind"] in ("iso", "isotail") else None)
            continue
        if strict is not None and strict != out:
            c2 = dict(c, ambient="warnings=error")
            cl2 = oracle(c2, v, strict)
            ctx.hit("differs-under-warnings=error")
            if cl2 is not None:
                ctx.fail(c2, cl2, impl=strict, model=m,
                         detail={"input": repr(v)[:120], "ambient": "warnings promoted to errors (python -W error / PYTHONWARNINGS=error / "
                                 "warnings.simplefilter('error')); under the default filter the outcome is %r" % (out["parse"],)})
            else:
                ctx.disagree(c2, strict, out, "the implementation under warnings.simplefilter('error') vs under the default warnings filter (the result depends on ambient interpreter state)")
            continue
        if "parse" in m:
            mp = m["parse"]
            ip = out["parse"]
            if m["parsegen"] != ip:
                ctx.disagree(c, ip, m["parsegen"], "parse_iso vs the dispatch program translated from the source on this run (Gen.IsoDispatch.dispatch + Gen.IsoText.textBranch)")
                continue
            if mp != ip:
                ctx.disagree(c, ip, mp, "parse_iso vs Iso.parseIso (the specification form Iso.body; string branch regenerated from the source)")
                continue
            if "skel" in m and m["skel"] != ip:
                ctx.disagree(c, ip, m["skel"], "parse_iso vs the hand-written skeleton Iso.textPath (the code has moved away from the proven skeleton)")
                continue
            for k in ("DATE", "TIMESTAMP", "TIME"):
                if k not in m:
                    continue
                if k == "TIME" and isinstance(v, (str, bytes)) and ip == ["none"]:
                    ctx.hit("time-cast-of-unread-text:" + out[k][0])
                if cast_model_out(m[k]) != out[k]:
                    ctx.disagree(c, {k: out[k]}, {k: m[k]}, "OrsoTypes.%s.parse vs the cast program translated from the source (Gen.IsoCast)" % k)
                    break
                if cast_model_out(m[k + ":spec"]) != out[k]:
                    ctx.disagree(c, {k: out[k]}, {k: m[k + ":spec"]}, "OrsoTypes.%s.parse vs the specification form Iso.cast (the code has moved away from the proven specification)" % k)
                    break


# --------------------------------------------------------------------------- generators

SUFFIXES = lambda rng: [["none"], ["z"], ["plus", rng.randint(0, 14), rng.choice([0, 30, 45, 59])],
                        ["minus", rng.randint(0, 12), rng.choice([0, 30, 59])],
                        ["plusb", rng.randint(0, 14), rng.choice([0, 30, 45])], ["minusb", rng.randint(0, 12), rng.choice([0, 30])],
                        ["plush", rng.randint(0, 14)], ["minush", rng.randint(0, 12)]]
EDGE_DAYS = [(1, 1, 1), (1, 12, 31), (4, 2, 29), (100, 2, 28), (400, 2, 29), (999, 12, 31), (1000, 1, 1), (1582, 10, 10),
             (1900, 2, 28), (1969, 12, 31), (1970, 1, 1), (1999, 12, 31), (2000, 2, 29), (2024, 2, 29), (2038, 1, 19),
             (9999, 12, 31), (9999, 1, 1), (2023, 10, 9), (10, 10, 10)]


def rand_dt(rng):
    if rng.random() < 0.25:
        y, m, d = rng.choice(EDGE_DAYS)
    else:
        o = rng.randint(1, 3652059)
        dd = datetime.date.fromordinal(o)
        y, m, d = dd.year, dd.month, dd.day
    r = rng.random()
    if r < 0.15:
        H, M, S, us = 0, 0, 0, 0
    elif r < 0.3:
        H, M, S, us = 23, 59, 59, 999999
    else:
        H, M, S, us = rng.randint(0, 23), rng.randint(0, 59), rng.randint(0, 59), rng.choice([0, 1, 500000, 999999, rng.randint(0, 999999)])
    return [y, m, d, H, M, S, us]


def iso_cases(ctx, n_dt, casts_every=7):
    rng = ctx.rng
    i = 0
    for _ in range(n_dt):
        dt = rand_dt(rng)
        for sep in ("T", " "):
            for suf in SUFFIXES(rng):
                for k in range(7):
                    i += 1
                    c = {"kind": "iso", "form": "sec", "dt": dt, "sep": sep, "k": k, "suffix": suf,
                         "enc": "bytes" if (i % 3 == 0) else "str"}
                    if i % casts_every == 0:
                        c["casts"] = True
                    yield c
                yield {"kind": "iso", "form": "min", "dt": dt, "sep": sep, "k": 0, "suffix": suf, "enc": "bytes" if i % 2 else "str", "casts": i % 5 == 0}
        for suf in SUFFIXES(rng):
            yield {"kind": "iso", "form": "date", "dt": dt, "sep": "T", "k": 0, "suffix": suf, "enc": "bytes" if i % 2 else "str", "casts": True}


GRID_DAYS = [[2024, 2, 29, 12, 34, 56, 789012], [1, 1, 1, 0, 0, 0, 0], [9999, 12, 31, 23, 59, 59, 999999], [1970, 1, 1, 0, 0, 0, 1]]
GRID_SUFFIXES = [["none"], ["z"], ["plus", 1, 0], ["plusb", 1, 0], ["plush", 1], ["plus", 0, 0], ["plus", 14, 59], ["plusb", 5, 30],
                 ["minus", 5, 0], ["minusb", 5, 30], ["minush", 12], ["minus", 0, 0]]


def grid_cases(ctx, days=None):
    """Deterministic and exhaustive on every run (and again in `intensify`): EVERY layout of a canonical rendering - date-only,
    minute form (T / space), seconds form (T / space) without and with a fraction of 1 / 3 / 6 digits - crossed with EVERY tail
    (none, Z, +HH:MM, +HHMM, +HH, -HH:MM, -HHMM, -HH) and both encodings (str, UTF-8 bytes), each through the parser and the three
    casts.  Four fixed days (a leap day, both ends of the range, the epoch) and one day of this run.  Simplest layouts first, so the
    first failing case of a clause is a small one."""
    days = GRID_DAYS + [rand_dt(ctx.rng)] if days is None else days
    layouts = [("date", "T", 0), ("min", "T", 0), ("min", " ", 0)] + [("sec", sep, k) for k in (0, 1, 3, 6) for sep in ("T", " ")]
    for dt in days:
        for form, sep, k in layouts:
            for suf in GRID_SUFFIXES:
                for enc in ("str", "bytes"):
                    ctx.hit("grid:%s:%s%s" % (form, suf[0], ":frac" if k else ""))
                    yield {"kind": "iso", "form": form, "dt": dt, "sep": sep, "k": k, "suffix": suf, "enc": enc, "casts": True}


EPOCH_EDGES = [0, 1, -1, MIN_EPOCH, MIN_EPOCH - 1, MIN_EPOCH + 1, MAX_EPOCH, MAX_EPOCH + 1, MAX_EPOCH - 1, 2**31 - 1, 2**31, -(2**31),
               2**32, 2**53, 2**63 - 1, 2**63, -(2**63), -(2**63) - 1, 2**64, 67768036191676799, 67768036191676800,
               -67768040609740801, -67768040609740800, 10**17, -(10**17), 10**18, 10**30, -(10**30), 86399, 86400, -86400, -86401,
               951782400, 951868800, 4107542400, -2203891200, 10**12]
FLOAT_EDGES = [0.0, -0.0, 0.5, -0.5, -1.5, 1.5, 1e9, 1.7e9 + 0.999999, float("nan"), float("inf"), float("-inf"), 1e300, -1e300, 5e-324,
               2.0**63, -(2.0**63), 2.0**62, 1e18, 1e17, 6.7e16, float(MAX_EPOCH), MAX_EPOCH + 0.5, float(MAX_EPOCH + 1), float(MIN_EPOCH),
               MIN_EPOCH - 0.5, float(MIN_EPOCH - 1), 1e12, -1e12, 4.5e15, 9007199254740993.0, -62135596800.99999]


def epoch_cases(ctx, n):
    rng = ctx.rng
    for e in EPOCH_EDGES:
        yield {"kind": "int", "n": e, "casts": True}
        if -(2**63) <= e < 2**63:
            yield {"kind": "npint", "n": e}
        if e >= 0:
            yield {"kind": "text", "text": str(e), "casts": True}
            yield {"kind": "bytes", "bytes": str(e).encode()}
    for x in FLOAT_EDGES:
        yield {"kind": "float", "x": x, "casts": True}
        yield {"kind": "npfloat", "x": x}
    for nd in list(range(1, 41)) + [100, 4299, 4300, 4301, 5000]:
        yield {"kind": "text", "text": "".join(rng.choice("0123456789") for _ in range(nd))}
        yield {"kind": "text", "text": "9" * nd}
        yield {"kind": "text", "text": "0" * nd}
    for _ in range(n):
        r = rng.random()
        if r < 0.45:
            yield {"kind": "int", "n": rng.randint(MIN_EPOCH, MAX_EPOCH), "casts": rng.random() < 0.2}
        elif r < 0.6:
            yield {"kind": "int", "n": rng.choice([-1, 1]) * rng.getrandbits(rng.choice([36, 40, 56, 62, 63, 64, 70, 100]))}
        elif r < 0.8:
            yield {"kind": "float", "x": rng.uniform(MIN_EPOCH, MAX_EPOCH) if rng.random() < 0.7 else rng.uniform(-1e4, 1e4)}
        elif r < 0.9:
            yield {"kind": "float", "x": struct.unpack(">d", struct.pack(">Q", rng.getrandbits(64)))[0]}
        elif r < 0.95:
            yield {"kind": "npint", "n": rng.randint(-(2**63), 2**63 - 1) if rng.random() < 0.3 else rng.randint(MIN_EPOCH, MAX_EPOCH)}
        else:
            n0 = rng.randint(0, MAX_EPOCH + 10**6)
            yield {"kind": "text", "text": "0" * rng.randint(0, 3) + str(n0), "casts": rng.random() < 0.3}


ALPHA = "0123456789-: TZ+._x/,tz\t\n"
UNI = "é日\U0001f600Ω"
OUTSIDE = ["２０２３-04-18", "²³", "٣", "2023-04-1８", "20 23-04-18", "１２３４", "١٢", "2023-04-18 "]


def text_cases(ctx, n):
    rng = ctx.rng
    fixed = ["", " ", "2023-04-18X12:34:56", "2023-04-18X12-34:56", "2023-04-1Z", "Z" * 10, "+" * 10, "2023-04-18+", "2023-04-18Z",
             "0000-01-01", "2023-02-29", "1900-02-29", "2000-02-29", "2023-04-18T24:00:00", "2023-04-18T23:59:60", " 123-04-18",
             "1_23-04-18", "-123-04-18", "2023-04-18T12:34:5", "2023-04-18T12:34:56ZZ", "2023-04-18T12:34:56Z+", "2023-04-18-05:00",
             "2023-04-18T12:34:56.123456789+05:00", "2023-04-18T12:34:56.123456789Z", "2023-04-18T12:34:56.1234567890123Z",
             "2023-04-18T12:34:56.12345678901234", "2023-04-18T12:34:56.123456789012345", "1234x12y28", "2023/04/18", "20230418",
             "20230418T123456", "2023-4-18", "23-04-18", "18-04-2023", "2023-04-18T12", "2023-04-18T12:3", "2023-04-18 12:34:", "abcdefghij",
             "2023-13-01", "2023-00-10", "2023-01-00", "2023-01-32", "2023-04-31", "10000-01-01", "2023-04-18T12:60", "2023-W16-2",
             "2023-04-18T12:34:56,5", "+2023-04-18", "1__3-04-18", "_123-04-18", "123_-04-18", "12 3-04-18", "2023-04-18 1 :34",
             "é023-04-18", "2023-04-18T12:34:56é", "\t123-04-18", "2023-04-18\n", "2023-04-18 ", "2023-04-18T12:34:56+", "1.5", "-5", "1e5"]
    for t in fixed + OUTSIDE:
        yield {"kind": "text", "text": t, "casts": True}
        try:
            yield {"kind": "bytes", "bytes": t.encode("utf-8")}
        except UnicodeEncodeError:
            pass
    for b in [b"\xff" * 10, b"2023-04-18\xff", b"\xc3", b"\xed\xa0\x80" * 4, b"2023-04-18T12:34:56\xc3\xa9", b"\xf4\x90\x80\x80" * 3, b"\xc0\x80" * 5]:
        yield {"kind": "bytes", "bytes": b, "casts": True}
    for _ in range(n):
        r = rng.random()
        if r < 0.55:  # mutate a valid rendering
            c = {"kind": "iso", "form": rng.choice(["sec", "sec", "min", "date"]), "dt": rand_dt(rng), "sep": rng.choice("T "), "k": rng.choice([0, 0, 3, 6]),
                 "suffix": rng.choice(SUFFIXES(rng))}
            t = list(render(c))
            for _ in range(rng.choice([1, 1, 1, 2, 3])):
                op = rng.random()
                if op < 0.5 and t:
                    t[rng.randrange(len(t))] = rng.choice(ALPHA + (UNI if rng.random() < 0.1 else ""))
                elif op < 0.7 and t:
                    del t[rng.randrange(len(t))]
                elif op < 0.9:
                    t.insert(rng.randint(0, len(t)), rng.choice(ALPHA))
                elif len(t) > 1:
                    i = rng.randrange(len(t) - 1)
                    t[i], t[i + 1] = t[i + 1], t[i]
            text = "".join(t)
        else:
            L = rng.choice([0, 1, 5, 9, 10, 11, 15, 16, 17, 18, 19, 20, 26, 27, 28, 29, 32, 33, 34, 40]) if rng.random() < 0.6 else rng.randint(0, 40)
            text = "".join(rng.choice(ALPHA) for _ in range(L))
            if rng.random() < 0.4 and L >= 10:
                text = text[:4] + "-" + text[5:7] + "-" + text[8:]
        if rng.random() < 0.25:
            yield {"kind": "bytes", "bytes": text.encode("utf-8"), "casts": rng.random() < 0.2}
        else:
            yield {"kind": "text", "text": text, "casts": rng.random() < 0.2}


TAILS = ["", "Z", ".1", ".12", ".123", ".1234567", ".12345678", ".123456789", ".123456789Z", ".1234567890", ".12345678901234",
         ".123456789012345", "+05:30", "-05:30", "+0530", "-0530", "+05", "-05", ".5+05:30", ".123456+05:30", ".123456-05:30",
         ".1234567+05:30", ".12345678+05:30", ".123456789+05:30", ".123456789-05:30", ".123456789+0530", ".123456789+05",
         ".1234567890+1", ".123456789+", "+", "++", "Z+", "+Z", "ZZ", "+05:30Z", "-05:30Z", "z", " UTC", " +05:30", ".", ".Z", ".+", "-", ":",
         ":00", ".١", ".5é", "é", "+é", "\t", " ", "x" * 14, "x" * 15, "0" * 14, "+" * 14, "Z" * 14, "." + "9" * 13, "+" + "9" * 13]


def tail_cases(ctx, n):
    """The seconds form followed by every named tail (fractions of every length, every offset spelling, the boundaries of
    both length windows) and by random tails; as text and as UTF-8 bytes."""
    rng = ctx.rng
    i = 0
    for sep in ("T", " "):
        dt = rand_dt(rng)
        for t in TAILS:
            i += 1
            yield {"kind": "isotail", "dt": dt, "sep": sep, "tail": t, "enc": "bytes" if i % 3 == 0 else "str", "casts": i % 4 == 0}
    for _ in range(n):
        L = rng.choice([0, 1, 2, 5, 6, 8, 9, 10, 11, 13, 14, 15]) if rng.random() < 0.7 else rng.randint(0, 16)
        r = rng.random()
        if r < 0.4:
            t = "".join(rng.choice(".0123456789+-:Z") for _ in range(L))
        elif r < 0.8:  # a fraction, then an offset-like rest
            k = rng.randint(0, min(L, 12))
            t = ("." + "".join(rng.choice("0123456789") for _ in range(k - 1)) if k else "") + "".join(rng.choice("+-:Z0123456789") for _ in range(L - k))
        else:
            t = "".join(rng.choice(ALPHA) for _ in range(L))
        yield {"kind": "isotail", "dt": rand_dt(rng), "sep": rng.choice("T "), "tail": t, "enc": "bytes" if rng.random() < 0.25 else "str",
               "casts": rng.random() < 0.1}


def boundary_cases(ctx):
    """Deterministic: every total length 8..36 for each of the three forms (cut or padded), with each padding character,
    and a `+` / `Z` / `-` / `.` planted at every offset — exactly at and one past every threshold in the source
    (10, 16, 19 characters; windows 10..33 and 10..28 before the `+`; subscripts 4, 7, 10, 13, 16)."""
    bases = ["2023-04-18", "2023-04-18T12:34", "2023-04-18 12:34:56", "0001-01-01T00:00:00", "9999-12-31 23:59:59"]
    seen = set()
    for b in bases:
        for L in range(8, 37):
            for pad in "0 .-:Z+x9":
                t = (b + pad * 40)[:L]
                if t not in seen:
                    seen.add(t)
                    yield {"kind": "text", "text": t, "casts": L in (10, 16, 19)}
        for ch in "+Z-.:T x":
            for pos in range(0, 34):
                for total in (len(b), 19, 28, 29, 30, 33, 34):
                    t = list((b + ".123456789012345678901234567890")[:total])
                    if pos < len(t):
                        t[pos] = ch
                        t = "".join(t)
                        if t not in seen:
                            seen.add(t)
                            yield {"kind": "text", "text": t}
    for t in list(seen)[:0]:
        pass


EDGE_TEXTS = [
    # non-ASCII digits (Arabic-Indic, fullwidth, Devanagari), superscripts, white space, signs, NUL
    "٢٠٢٣-٠٤-١٨", "２０２３-０４-１８", "２０２３-04-18", "2023-04-1８", "2023-०४-18", "²⁰²³-04-18", "١٢٣٤٥٦٧٨٩٠", "１２３４", "१२३", "²³", "①②③",
    "2023-04-18\u00a0", "\u20032023-04-18", " 2023-04-18", "2023-04-18 ", "\t2023-04-18T12:34:56", "2023-04-18T12:34:56\n", "2023-04-18 \x0c12:34",
    "+023-04-18", "-023-04-18", "2023-+4-18", "2023--4-18", "2023-04-+8", "2023-04--8", "2023-04-18T+2:34:56", "2023-04-18T-2:34:56", "2023-04-18T12:+4:56",
    "2023-04-18T12:34:+6", "2023-04-18T12:34:-6", "2023-04-18 12:34:5_", "2_23-04-18", "20_3-04-18", "2023-1_-18",
    "2023-04-18\x00", "\x002023-04-18", "2023-04-18T12:34:56\x00", "2023\x0004-18", "\x00" * 10, "12\x0034",
    # separators and zone designators
    "2023-04-18t12:34:56", "2023-04-18t12:34", "2023-04-18_12:34:56", "2023-04-18T12:34:56z", "2023-04-18T12:34:56Z", "2023-04-18 12:34:56Z",
    "2023-04-18T12:34z", "2023-04-18z", "2023-04-18T12:34:56+00:00", "2023-04-18T12:34:56-00:00", "2023-04-18T12:34:56+14:00", "2023-04-18T12:34:56-12:00",
    "2023-04-18T12:34:56+05:30:15", "2023-04-18T12:34:56 +05:30", "2023-04-18T12:34:56UTC", "2023-04-18T12:34:56 Z", "2023-04-18T12:34+05:30", "2023-04-18+05:30",
    # fractional seconds of 1..12 digits, comma
    ] + ["2023-04-18T12:34:56." + "123456789012"[:k] for k in range(1, 13)] + ["2023-04-18 12:34:56." + "987654321098"[:k] + "Z" for k in range(1, 13)] + [
    "2023-04-18T12:34:56,5", "2023-04-18T12:34:56.", "2023-04-18T12:34:56.Z", "2023-04-18T12:34:56.5.5",
    # years, leap days, end-of-day spellings
    "0000-01-01", "0000-12-31T23:59:59", "0001-01-01", "0001-01-01T00:00:00", "9999-12-31", "9999-12-31T23:59:59", "9999-12-31T23:59:59.999999Z", "10000-01-01",
    "1900-02-29", "2100-02-29", "1700-02-29", "2000-02-29", "1600-02-29", "0400-02-29", "0100-02-29", "0004-02-29", "2023-02-29", "2024-02-29", "2024-02-30",
    "2023-04-18T24:00:00", "2023-04-18T24:00", "2023-04-18 24:00:00Z", "2023-12-31T23:59:60", "2016-12-31T23:59:60Z", "2023-04-18T23:60:00", "2023-04-18T23:59:61",
    # a time of day on its own (what parse_time reads after the parser gave up), every layout of datetime.time.fromisoformat
    "12:34:56", "12:34", "12", "T12:34:56", "123456", "1234", "12:34:56.5", "12:34:56.123456", "12:34:56.1234567", "12:34:56,123", "12:34:56Z", "12:34:56+05:30",
    "12:34:56-05:30", "12:34:56.789+05:30", "24:00:00", "23:59:60", "23:60", "00:00", "00:00:00.000000", "12:34:56.1234567890", "12:34:56 ", " 12:34:56",
    "12:34:5", "1:34:56", "12:34:56:5", "12304512", "12x+01:00", "12:30:Z", "12:34:56+24:00", "12:34:56-23:59", "12:34:56.Z", "12:34\x00", "12\x00", "１２:34", "12:34:56é",
]


def edge_cases(ctx):
    """Deterministic: every named edge text as str, UTF-8 bytes, an instance of a str subclass, bytearray and memoryview, each with all
    three casts (and, like every case, each call made twice)."""
    seen = set()
    for t in EDGE_TEXTS:
        if t in seen:
            continue
        seen.add(t)
        yield {"kind": "text", "text": t, "casts": True}
        yield {"kind": "strsub", "text": t, "casts": True}
        b = t.encode("utf-8")
        yield {"kind": "bytes", "bytes": b, "casts": True}
        yield {"kind": "buffer", "as": "bytearray", "bytes": b, "casts": True}
        yield {"kind": "buffer", "as": "memoryview", "bytes": b, "casts": True}


def timeofday_cases(ctx, n):
    """Times of day written on their own, in every layout `datetime.time.fromisoformat` reads (HH, HH:MM, HH:MM:SS, basic forms,
    `.`/`,` fractions of 0..9 digits, leading T, zone designators), valid and just out of range, then mutated; as str, bytes, str subclass."""
    rng = ctx.rng
    alpha = "0123456789" * 3 + "::..,TZ+- \x00éx"
    for _ in range(n):
        if rng.random() < 0.15:
            t = "".join(rng.choice(alpha) for _ in range(rng.randint(0, 12)))
        else:
            H, M, S = rng.choice([0, 9, 12, 23, 24, rng.randint(0, 23)]), rng.choice([0, 59, 60, rng.randint(0, 59)]), rng.choice([0, 59, 60, rng.randint(0, 59)])
            t = rng.choice(["%02d:%02d:%02d", "%02d:%02d:%02d", "%02d:%02d:%02d", "%02d%02d%02d", "%02d:%02d%.0s", "%02d%02d%.0s", "%02d%.0s%.0s"]) % (H, M, S)
            if rng.random() < 0.5:
                t += rng.choice("..,") + "".join(rng.choice("0123456789") for _ in range(rng.randint(0, 9)))
            if rng.random() < 0.3:
                t += rng.choice(["Z", "+01:00", "-0530", "+23:59", "+24:00", "-23:59:59", "+00:00:00.5", "+1", "+", "-12", "+12:", "Z ", "z"])
            t = list(t)
            for _ in range(rng.choice([0, 0, 0, 1, 1, 2])):
                op = rng.random()
                if op < 0.4 and t:
                    t[rng.randrange(len(t))] = rng.choice(alpha)
                elif op < 0.7 and t:
                    del t[rng.randrange(len(t))]
                else:
                    t.insert(rng.randint(0, len(t)), rng.choice(alpha))
            if rng.random() < 0.1:
                t.insert(0, "T")
            t = "".join(t)
        r = rng.random()
        if r < 0.6:
            yield {"kind": "text", "text": t, "casts": True}
        elif r < 0.85:
            yield {"kind": "bytes", "bytes": t.encode("utf-8"), "casts": True}
        else:
            yield {"kind": "strsub", "text": t, "casts": True}


WHOLE_SECONDS = [0, 1, 2, 59, 60, 3599, 86399, 86400, 951782400, 1718530754, 2**31 - 1, 2**31, 2**32, 10**10, MAX_EPOCH - 1, MAX_EPOCH, 10**15]
FRACTIONS = [0.5, 0.25, 0.999, 0.999999, 0.99999949, 0.9999995, 0.99999951, 0.9999996, 0.9999999, 0.99999999, 0.0000004, 0.0000005, 0.0000006, 1e-9]


def float_boundary_cases(ctx):
    """Deterministic and exhaustive on every run: floats adjacent to a whole second.  For every whole second n of WHOLE_SECONDS
    and its negative: the float n itself, its two neighbours nextafter(n, +-inf), n + f and n - f for every fraction f of FRACTIONS
    (half a second, a quarter, and both sides of the half-microsecond where datetime.fromtimestamp rounds) - as Python float (with the
    three casts), numpy.float64, and rounded to numpy.float32 (a numeric neighbour).  Small magnitudes first."""
    seen = set()
    for n in WHOLE_SECONDS:
        for sgn in (1, -1):
            base = float(sgn * n)
            xs = [base, math.nextafter(base, math.inf), math.nextafter(base, -math.inf)]
            xs += [base + f for f in FRACTIONS] + [base - f for f in FRACTIONS]
            for x in xs:
                key = struct.pack(">d", x)
                if key in seen:
                    continue
                seen.add(key)
                ctx.hit("float-boundary:" + ("integral" if x == math.floor(x) else
                                             ("negative-fraction" if x < 0 else
                                              ("within-half-microsecond-below-a-second" if x - math.floor(x) >= 0.9999995 else "positive-fraction"))))
                yield {"kind": "float", "x": x, "casts": True}
                yield {"kind": "npfloat", "x": x, "casts": abs(n) < 100}
    import numpy
    seen32 = set()
    for n in WHOLE_SECONDS:
        for sgn in (1, -1):
            b32 = numpy.float32(sgn * n)
            for y in [b32, numpy.nextafter(b32, numpy.float32(math.inf)), numpy.nextafter(b32, numpy.float32(-math.inf)),
                      numpy.float32(sgn * n + 0.5), numpy.float32(sgn * n - 0.5), numpy.float32(sgn * n + 0.9999996), numpy.float32(sgn * n - 0.9999996)]:
                x = float(y)
                if x not in seen32 and x == x and abs(x) != math.inf:
                    seen32.add(x)
                    yield {"kind": "npfloat32", "x": x, "casts": abs(n) < 100}


def ambient_cases(ctx):
    """Deterministic: a representative of every input stream (one day of the layout x tail x encoding grid, the epoch and float
    edges, the floats next to a whole second, every foreign object and native kind, the edge texts, digit strings at the
    integer-conversion limits) under every setting of AMBIENTS, judged by the same clauses and compared with the same model."""
    def rep():
        for c in grid_cases(ctx, days=GRID_DAYS[:1]):
            if c["enc"] == "str" or c["suffix"][0] in ("plus", "z"):
                yield c
        for e in EPOCH_EDGES:
            yield {"kind": "int", "n": e, "casts": True}
            if e >= 0:
                yield {"kind": "text", "text": str(e), "casts": True}
        for x in FLOAT_EDGES + [0.9999996, 1718530754.9999998, math.nextafter(1.0, 0.0), -0.9999996, 86399.9999999]:
            yield {"kind": "float", "x": x, "casts": True}
            yield {"kind": "npfloat", "x": x}
        for c in object_cases(ctx):
            if c["kind"] not in ("npdt", "pandas"):
                yield c
        for t in EDGE_TEXTS[:60] + ["1e+10 seconds ago", "2023-04-18T12:34:56+xx", "+", "9" * 640, "9" * 641, "9" * 4300, "9" * 4301, "9" * 5000]:  # no zero-padded digit strings: the digit limit is a declared platform parameter (4300) of the model
            yield {"kind": "text", "text": t, "casts": True}
        for ty in ("Decimal", "Fraction", "np.float32", "np.uint64", "bool"):
            for n in (0, 1, 86399):
                if holds(ty, n):
                    yield {"kind": "num", "ty": ty, "n": n, "casts": True}
    base = list(rep())
    for a in AMBIENTS:
        for c in base:
            yield dict(c, ambient=a)


def num_cases(ctx, n):
    """==-equal numbers of different types, each judged on its own: 1, 1.0, True, Decimal(1), Fraction(1), numpy scalars, the
    digits as text / bytes — in fresh random orders, so that an answer remembered from an equal argument of another type shows."""
    rng = ctx.rng
    vals = [0, 1, 2, 59, 86399, 86400, 2**24 - 1] + [rng.randint(0, 2**24 - 1) for _ in range(n)]
    for v in vals:
        tys = [t for t in num_types() if holds(t, v)]
        rng.shuffle(tys)
        for t in tys:
            yield {"kind": "num", "ty": t, "n": v, "casts": t in ("int", "bool", "Decimal", "str")}


NUMCLASS_VALUES = [0, 1, -1, 59, 86399, 86400, 32767, 1718530754, 2**31 - 1, 2**31, MIN_EPOCH, MIN_EPOCH - 1, MAX_EPOCH, MAX_EPOCH + 1,
                   -(2**63), 2**63 - 1, 2**63]


def numclass_cases(ctx):
    """Deterministic: every numeric class the source's table names on this run, every class of the unchanged source's table and
    their neighbours (other numpy widths, bool, numpy.bool_, Decimal, Fraction, subclasses of int / float, digits as text) x the
    second counts at and one past both ends of the range, 0 / 1 / -1, 32-bit limits — each through the parser and all three casts."""
    for ty in num_types():
        ctx.hit("numclass:" + ("table-of-this-run:" if SRC_NAME.get(ty, ty[4:]) in source_table()[1] else "") + ty)
        for v in NUMCLASS_VALUES:
            if holds(ty, v):
                yield {"kind": "num", "ty": ty, "n": v, "casts": True}


def seq_cases(ctx, n):
    """Sequences on one interpreter: the ==-class of a fresh number n1 in one order, then the ==-class of another fresh number
    n2 in the reverse order; for every type the two answers must be the same function of the number."""
    rng = ctx.rng
    yield {"kind": "seq", "n": [1, 0], "order": ["int", "bool", "float", "np.bool", "Decimal", "np.int64", "str"]}
    yield {"kind": "seq", "n": [0, 1], "order": ["bool", "Fraction", "int", "np.float64", "bytes"]}
    for _ in range(n):
        order = [t for t in num_types() if t not in ("bool", "np.bool", "np.int16")]
        rng.shuffle(order)
        a, b = rng.sample(range(2, 2**24), 2)
        yield {"kind": "seq", "n": [a, b], "order": order[: rng.randint(3, len(order))]}


def norm_num(out, n):
    """Outcome of parse_iso(<n as some type>) as a function of n: 'none', 'epoch' (the date-time of second n), or the raw outcome."""
    if out[0] == "value" and out[1] == fields(DT(1970, 1, 1) + datetime.timedelta(seconds=n)):
        return "epoch"
    return out[0] if out[0] == "none" else out


def evaluate_seq(ctx, c):
    parse = PARSE()
    n1, n2 = c["n"]
    first = {t: outcome(parse, num_value(t, n1)) for t in c["order"]}
    second = {t: outcome(parse, num_value(t, n2)) for t in reversed(c["order"])}
    ctx.case(c, True)
    ctx.hit("kind:seq")
    ctx.hit("seq-calls", 2 * len(c["order"]))
    for t in c["order"]:
        for n, o in ((n1, first[t]), (n2, second[t])):
            item = {"kind": "num", "ty": t, "n": n}
            cl = check(expected(item, None), o)
            if cl:
                ctx.fail(c, "in a sequence of calls with ==-equal arguments of different types: " + cl, impl={"type": t, "n": n, "outcome": o, "first_pass": first, "second_pass": second})
                return
        if norm_num(first[t], n1) != norm_num(second[t], n2):
            ctx.fail(c, "parser result depends on earlier calls with ==-equal arguments of other types (not a function of its argument)",
                     impl={"type": t, "first_pass": first, "second_pass": second})
            return


def native_cases(ctx, n):
    rng = ctx.rng
    for y, m, d in EDGE_DAYS:
        yield {"kind": "date", "ymd": [y, m, d], "casts": True}
        yield {"kind": "datetime", "dt": [y, m, d, 23, 59, 59, 999999], "casts": True}
    for _ in range(n):
        dt = rand_dt(rng)
        r = rng.random()
        if r < 0.3:
            yield {"kind": "date", "ymd": dt[:3], "casts": rng.random() < 0.5}
        elif r < 0.8:
            yield {"kind": "datetime", "dt": dt, "casts": rng.random() < 0.5}
        else:
            yield {"kind": "datetime", "dt": dt, "tz": rng.choice([0, 60, -300, 330, 765, -719]), "casts": rng.random() < 0.5}


def object_cases(ctx):
    """Deterministic (seed independent): every foreign object and every native kind, each with all three casts."""
    global OBJ
    if OBJ is None:
        OBJ = _objects()
    for name in OBJ:
        yield {"kind": "obj", "name": name, "casts": True}
    for hms in [[0, 0, 0, 0], [1, 2, 3, 0], [23, 59, 59, 999999], [12, 0, 0, 500000]]:
        yield {"kind": "time", "hms": hms, "casts": True}
        yield {"kind": "time", "hms": hms, "tz": 60, "casts": True}
    for y, m, d in EDGE_DAYS:
        yield {"kind": "date", "ymd": [y, m, d], "casts": True}
        for hmsu in ([0, 0, 0, 0], [23, 59, 59, 999999], [1, 2, 3, 4]):
            yield {"kind": "datetime", "dt": [y, m, d] + hmsu, "casts": True}
            yield {"kind": "datetime", "dt": [y, m, d] + hmsu, "tz": -300, "casts": True}
    for n in [0, 1, -1, 86399, MIN_EPOCH, MAX_EPOCH, MAX_EPOCH + 1, 10**30]:
        yield {"kind": "int", "n": n, "casts": True}
        yield {"kind": "float", "x": float(n), "casts": True}
        if -(2**63) <= n < 2**63:
            yield {"kind": "npint", "n": n, "casts": True}
            yield {"kind": "npfloat", "x": float(n), "casts": True}
    for t in ["2023-04-18", "2023-04-18T12:34", "2023-04-18 12:34:56", "2023-04-18T12:34:56.789Z", "2023-04-18T12:34:56+05:00", "12:34:56", "1234", "", "x"]:
        yield {"kind": "text", "text": t, "casts": True}
        yield {"kind": "bytes", "bytes": t.encode(), "casts": True}
    for text, unit in [("2023-01-01", "D"), ("2023-01-01T12:34:56", "s"), ("2023-01-01T12:34:56.789", "ms"), ("2023-01-01T12:34:56.789", "us"),
                       ("2023-01-01T12:34:56.789", "ns"), ("NaT", "s"), ("1969-12-31T23:59:59.5", "ns"), ("2023", "Y"), ("2023-01-01T00", "h"),
                       ("0001-01-01", "D"), ("9999-12-31T23:59:59", "s"), ("1677-09-22", "ns"), ("2262-04-11", "ns")]:
        yield {"kind": "npdt", "text": text, "unit": unit, "casts": True}
    for text in ["2023-01-01 12:00:00.5", "1970-01-01", "2262-04-11 23:47:16", "1677-09-22"]:
        yield {"kind": "pandas", "text": text}


# --------------------------------------------------------------------------- calendar sweep (model vs datetime vs parse_iso)


def sweep_years(ctx, years):
    """Every day of the given years: validity, rendering and ordinal of the model vs datetime.date, and
    parse_iso of every day's isoformat."""
    from orso.tools import parse_iso

    outs = ctx.model.batch(["C08 year " + wire.line(y) for y in years])
    for y, o in zip(years, outs):
        if not o.startswith("ok "):
            raise InfraError("model rejected year %d: %r" % (y, o))
        texts, ords, parsed = wire.dec_all(o[3:])
        texts = texts.split(" ")
        o0 = datetime.date(y, 1, 1).toordinal()
        o1 = datetime.date(y, 12, 31).toordinal()
        days = [datetime.date.fromordinal(k) for k in range(o0, o1 + 1)]
        if [d.isoformat() for d in days] != texts or ords != list(range(o0, o1 + 1)):
            raise InfraError("model calendar of year %d differs from datetime.date (validity / rendering / ordinal)" % y)
        if not parsed:
            raise InfraError("model: a day of year %d does not round-trip in the model itself" % y)
        for d, t in zip(days, texts):
            r = parse_iso(t)
            if r != DT(d.year, d.month, d.day):
                ctx.hit("calendar-sweep-mismatch")
                if ctx.dist["calendar-sweep-mismatch"] <= 3:  # judged by the ordinary pipeline; a few are enough
                    c = {"kind": "iso", "form": "date", "dt": [d.year, d.month, d.day, 0, 0, 0, 0], "sep": "T", "k": 0, "suffix": ["none"]}
                    evaluate(ctx, [c])
        ctx.evaluations += len(days)
        ctx.hit("calendar-days", len(days))


def sweep_seconds(ctx, ymd, step):
    from orso.tools import parse_iso

    y, m, d = ymd
    base = DT(y, m, d)
    e0 = (base - DT(1970, 1, 1)).days * 86400
    for s in range(0, 86400, step):
        H, M, S = s // 3600, s % 3600 // 60, s % 60
        t = "%04d-%02d-%02dT%02d:%02d:%02d" % (y, m, d, H, M, S)
        want = DT(y, m, d, H, M, S)
        if parse_iso(t) != want or parse_iso(e0 + s) != want:
            ctx.hit("seconds-sweep-mismatch")
            if ctx.dist["seconds-sweep-mismatch"] <= 3:
                evaluate(ctx, [{"kind": "iso", "form": "sec", "dt": [y, m, d, H, M, S, 0], "sep": "T", "k": 0, "suffix": ["none"]},
                               {"kind": "int", "n": e0 + s}])
    ctx.evaluations += 86400 // step
    ctx.hit("seconds-of-day", 86400 // step)


def batches(ctx, it, size=4000):
    buf = []
    for c in it:
        buf.append(c)
        if len(buf) >= size:
            evaluate(ctx, buf)
            buf = []
            if ctx.time_left() < 5:
                ctx.note("stopped_early", "time budget")
                return
    evaluate(ctx, buf)


def non_utc_local_time():
    """The statement says Unix seconds are read *in UTC*: give the process a local time zone that is never UTC (half-hour
    offset, daylight saving) so that a read in local time cannot coincide with the UTC reading."""
    import os
    import time

    os.environ["TZ"] = "America/St_Johns"
    time.tzset()
    if time.localtime(0).tm_hour == 0 and time.localtime(0).tm_min == 0:
        return "local time zone could not be changed (tzset without effect): a local-time read is not distinguishable here"
    return "process local time zone set to America/St_Johns (UTC-03:30 / -02:30) during the run"


def run(ctx):
    ctx.note("local_time_zone", non_utc_local_time())
    ctx.note("rule", "one case = one input value (a rendering variant of a date-time, an epoch number, a text/bytes, a native or foreign "
             "object) given to parse_iso (and to the DATE/TIMESTAMP/TIME casts when 'casts'); all counted cases are non-trivial; "
             "distinct by canonical JSON; calendar-sweep days are counted in evaluations only")
    ctx.note("assumptions", [
        "platform parameters of the model: 64-bit time_t (OverflowError outside), C int tm_year (OSError when year-1900 does not fit), "
        "sys.get_int_max_str_digits() = 4300; compared on every run at the exact thresholds",
        "str.isdigit / int(str) are modelled exactly on ASCII and on non-ASCII characters that are neither digits nor white space; "
        "other text is checked by the oracle only (never raises, and the statement's demands)",
        "objects exposing to_pydatetime (pandas) and numpy.datetime64 are outside the statement's 'native' inputs: oracle 'never raises' only",
    ])
    rng = ctx.rng
    # 1. calendar
    if ctx.tier == "thorough":
        years = list(range(1, 10000))
        ctx.exhaustive = True
        ctx.note("exhaustive_scope", "every calendar day 0001-01-01..9999-12-31: model validity/rendering/ordinal vs datetime.date, "
                 "and parse_iso(isoformat) on the implementation; every second of 4 days; then sampled variants and random inputs")
    else:
        years = sorted(set([1, 2, 4, 100, 400, 1582, 1900, 1970, 2000, 2024, 2100, 9996, 9999] + [rng.randint(1, 9999) for _ in range(60)]))
        ctx.exhaustive = False
        ctx.note("exhaustive_scope", "every day of %d years (sampled; all years in the thorough tier)" % len(years))
    for i in range(0, len(years), 500):
        sweep_years(ctx, years[i:i + 500])
    for ymd in ([(1970, 1, 1), (1, 1, 1), (9999, 12, 31), (2024, 2, 29)] if ctx.tier == "thorough" else [(1969, 12, 31)]):
        sweep_seconds(ctx, ymd, 1 if ctx.tier == "thorough" else 7)
    # 2. variants, epochs, natives, objects, malformed text
    batches(ctx, grid_cases(ctx))
    batches(ctx, object_cases(ctx))
    batches(ctx, float_boundary_cases(ctx))
    batches(ctx, epoch_cases(ctx, ctx.scale(5000, 40000)))
    batches(ctx, native_cases(ctx, ctx.scale(1000, 8000)))
    batches(ctx, text_cases(ctx, ctx.scale(10000, 80000)))
    batches(ctx, iso_cases(ctx, ctx.scale(120, 900)))
    batches(ctx, tail_cases(ctx, ctx.scale(3000, 30000)))
    batches(ctx, boundary_cases(ctx))
    batches(ctx, edge_cases(ctx))
    batches(ctx, timeofday_cases(ctx, ctx.scale(4000, 40000)))
    ctx.note("epoch_class_table_of_this_run", source_table())
    batches(ctx, numclass_cases(ctx))
    batches(ctx, num_cases(ctx, ctx.scale(40, 400)))
    for c in seq_cases(ctx, ctx.scale(60, 600)):
        evaluate_seq(ctx, c)
    batches(ctx, ambient_cases(ctx))
    ctx.note("ambient_settings", AMBIENTS)
    ctx.note("warnings_emitted_by_the_parser_or_casts", WARNED if WARNED else "none on any generated input (every input was also run under "
             "warnings.simplefilter('always') with the warnings recorded, and under simplefilter('error'))")


def intensify(ctx):
    batches(ctx, grid_cases(ctx))
    batches(ctx, float_boundary_cases(ctx))
    batches(ctx, ambient_cases(ctx))
    batches(ctx, tail_cases(ctx, 10000))
    batches(ctx, text_cases(ctx, 20000))
    batches(ctx, epoch_cases(ctx, 10000))
    batches(ctx, iso_cases(ctx, 150))
    batches(ctx, edge_cases(ctx))
    batches(ctx, timeofday_cases(ctx, 10000))


def replay(ctx, case):
    non_utc_local_time()
    if case.get("kind") == "seq":
        evaluate_seq(ctx, case)
    else:
        evaluate(ctx, [case])


KNOWN_PREDICATES = {}
