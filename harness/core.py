"""Shared machinery of the orso proof/correspondence checks (see DESIGN.md §4, §5)."""
import fcntl
import hashlib
import importlib
import json
import os
import random
import re
import subprocess
import sys
import time
import traceback

from . import wire

VERIF = os.path.dirname(os.path.dirname(os.path.abspath(__file__)))
REPO = os.environ.get("ORSO_REPO", "/repo")
LEAN = os.path.join(VERIF, "lean")
DRIVER = os.path.join(LEAN, ".lake", "build", "bin", "orso_model")
ALLOWED_AXIOMS = {"propext", "Classical.choice", "Quot.sound"}
FORBIDDEN = re.compile(
    r"\bsorry\b|\badmit\b|^\s*axiom\s|native_decide|bv_decide|implemented_by|\bunsafe\s|maxHeartbeats\s+0"
)

TRUSTED_BASE = [
    "Lean 4.33.0 kernel; axioms allowed: propext, Classical.choice, Quot.sound (audited per theorem each run with #print axioms)",
    "statements in lean/OrsoVerif/Props/*.lean (read them: they are the claims)",
    "harness/extract.py (source -> Generated/*.lean), harness/wire.py + Model/Wire.lean (self-tested each run)",
    "the correspondence harness harness/props/*.py: generators, canonicalisation, oracle",
]


class InfraError(Exception):
    """Something in the machinery (not in orso) is broken: exit 2."""


# --------------------------------------------------------------------------- build


def sh(cmd, cwd=None, timeout=3600, env=None, input=None):
    p = subprocess.run(
        cmd, cwd=cwd, timeout=timeout, env=env, input=input, capture_output=True, text=True
    )
    return p.returncode, p.stdout + p.stderr


class BuildLock:
    def __enter__(self):
        os.makedirs(os.path.join(LEAN, ".lake"), exist_ok=True)
        self.f = open(os.path.join(LEAN, ".lake", "verif.lock"), "w")
        fcntl.flock(self.f, fcntl.LOCK_EX)
        return self

    def __exit__(self, *a):
        fcntl.flock(self.f, fcntl.LOCK_UN)
        self.f.close()


def lake_build(targets, timeout=3000):
    with BuildLock():
        rc, out = sh(["lake", "build"] + targets, cwd=LEAN, timeout=timeout)
    return rc, out


def strip_comments(src: str) -> str:
    # remove nested block comments /- ... -/ and line comments
    out = []
    i, depth, n = 0, 0, len(src)
    while i < n:
        if src.startswith("/-", i):
            depth += 1
            i += 2
        elif depth and src.startswith("-/", i):
            depth -= 1
            i += 2
        elif depth:
            if src[i] == "\n":
                out.append("\n")
            i += 1
        elif src.startswith("--", i):
            while i < n and src[i] != "\n":
                i += 1
        else:
            out.append(src[i])
            i += 1
    return "".join(out)


def theorems_of(prop_id):
    """Names (namespace-qualified) and line spans of theorems in Props/<id>.lean."""
    path = os.path.join(LEAN, "OrsoVerif", "Props", prop_id + ".lean")
    src = strip_comments(open(path).read())
    names = []
    ns = []
    lines = src.split("\n")
    for ln, l in enumerate(lines, 1):
        m = re.match(r"\s*namespace\s+(\S+)", l)
        if m:
            ns.append(m.group(1))
            continue
        m = re.match(r"\s*end\s+(\S+)", l)
        if m and ns and ns[-1] == m.group(1):
            ns.pop()
            continue
        m = re.match(r"\s*(?:@\[[^\]]*\]\s*)?(?:private\s+|protected\s+)?theorem\s+(\S+)", l)
        if m:
            names.append((".".join(ns + [m.group(1)]), ln))
    spans = []
    for i, (nm, ln) in enumerate(names):
        end = names[i + 1][1] - 1 if i + 1 < len(names) else len(lines)
        spans.append((nm, ln, end))
    return path, spans


def lean_sources():
    for root, _, files in os.walk(os.path.join(LEAN, "OrsoVerif")):
        for f in files:
            if f.endswith(".lean"):
                yield os.path.join(root, f)
    yield os.path.join(LEAN, "Driver.lean")


def grep_forbidden():
    hits = []
    for p in lean_sources():
        src = strip_comments(open(p).read())
        for ln, l in enumerate(src.split("\n"), 1):
            if FORBIDDEN.search(l):
                hits.append("%s:%d: %s" % (os.path.relpath(p, VERIF), ln, l.strip()))
    return hits


def proof_audit(prop_id, build_rc, build_out, thorough=False):
    """Return dict(obligations, discharged, failed=[(name, why)], axioms={name: [...]})."""
    path, spans = theorems_of(prop_id)
    res = {"obligations": len(spans), "discharged": 0, "failed": [], "axioms": {}, "theorems": [s[0] for s in spans]}
    if not spans:
        raise InfraError("no theorems found in %s" % path)
    bad_lines = {}
    if build_rc != 0:
        rel = os.path.relpath(path, LEAN)
        own = False
        for m in re.finditer(r"error: ([\w/\.]+\.lean):(\d+):(\d+):|([\w/\.]+\.lean):(\d+):(\d+): error", build_out):
            f_, l_ = (m.group(1), m.group(2)) if m.group(1) else (m.group(4), m.group(5))
            if f_.endswith(rel):
                own = True
                bad_lines[int(l_)] = True
        if not own:
            # a dependency (model, lemma file, generated table) no longer compiles
            first = re.search(r"(error: [\w/\.]+\.lean:\d+:\d+:[^\n]*|[\w/\.]+\.lean:\d+:\d+: error[^\n]*)", build_out)
            why = first.group(1) if first else "lake build failed"
            res["failed"] = [(nm, "dependency does not compile: " + why) for nm, _, _ in spans]
            return res
    ok_names = []
    for nm, lo, hi in spans:
        bl = [l for l in bad_lines if lo <= l <= hi]
        if bl:
            res["failed"].append((nm, "proof no longer checks (line %d of %s)" % (bl[0], os.path.relpath(path, VERIF))))
        else:
            ok_names.append(nm)
    if build_rc != 0:
        # the module did not produce an .olean: axioms cannot be printed; the
        # theorems without an error inside are counted as not discharged either
        # (listed after the ones whose own proof broke)
        for nm in ok_names:
            res["failed"].append((nm, "module failed to build; theorem not re-checked"))
        return res
    audit = os.path.join(LEAN, ".lake", "Audit_%s.lean" % prop_id)
    with open(audit, "w") as f:
        f.write("import OrsoVerif.Props.%s\n" % prop_id)
        for nm in ok_names:
            f.write("#print axioms %s\n" % nm)
    rc, out = sh(["lake", "env", "lean", audit], cwd=LEAN, timeout=1200)
    if rc != 0:
        raise InfraError("axiom audit failed to run:\n" + out[-2000:])
    flat = re.sub(r"\s+", " ", out)
    for nm in ok_names:
        m = re.search(r"'%s' depends on axioms: \[([^\]]*)\]" % re.escape(nm), flat)
        if m:
            ax = [a.strip() for a in m.group(1).split(",") if a.strip()]
        elif re.search(r"'%s' does not depend on any axioms" % re.escape(nm), flat):
            ax = []
        else:
            res["failed"].append((nm, "not found by #print axioms"))
            continue
        res["axioms"][nm] = ax
        extra = [a for a in ax if a not in ALLOWED_AXIOMS]
        if extra:
            res["failed"].append((nm, "depends on disallowed axioms %s" % extra))
        else:
            res["discharged"] += 1
    hits = grep_forbidden()
    if hits:
        res["failed"].append(("<project>", "forbidden construct: " + "; ".join(hits[:5])))
        res["discharged"] = min(res["discharged"], res["obligations"] - 1)
    if thorough:
        mods = ["OrsoVerif.Props.%s" % prop_id]
        rc, out = sh(["lake", "env", "leanchecker"] + mods, cwd=LEAN, timeout=3000)
        res["leanchecker"] = "ok" if rc == 0 else "FAILED: " + out[-500:]
        if rc != 0:
            res["failed"].append(("<leanchecker>", out[-300:]))
            res["discharged"] = 0
    return res


# --------------------------------------------------------------------------- model driver


class Model:
    """Batch interface to the native model driver (one line in, one line out)."""

    def __init__(self):
        self.calls = 0
        self.lines = 0

    def batch(self, lines):
        if not lines:
            return []
        if not os.path.exists(DRIVER):
            raise InfraError("model driver not built: " + DRIVER)
        data = "\n".join(lines) + "\n"
        p = subprocess.run([DRIVER], input=data, capture_output=True, text=True, timeout=3000)
        if p.returncode != 0:
            raise InfraError("model driver crashed rc=%s: %s" % (p.returncode, p.stderr[-500:]))
        out = p.stdout.split("\n")
        if out and out[-1] == "":
            out.pop()
        if len(out) != len(lines):
            raise InfraError("driver returned %d lines for %d requests" % (len(out), len(lines)))
        self.calls += 1
        self.lines += len(lines)
        return out

    def one(self, line):
        return self.batch([line])[0]


def wire_selftest(model, rng, n=200):
    from .gen import gen_pyval

    vals = [gen_pyval(rng, 3) for _ in range(n)]
    vals += [float("nan"), -0.0, 2**64 - 1, -(2**63), "", b"", [], {}, "é\U0001f600", 10**40]
    outs = model.batch(["echo " + wire.line(v) for v in vals])
    for v, o in zip(vals, outs):
        if not o.startswith("ok"):
            raise InfraError("wire self-test: driver rejected %r -> %r" % (v, o))
        back = wire.dec_all(o[2:])
        if len(back) != 1 or not wire.same(back[0], v):
            raise InfraError("wire self-test: %r came back as %r" % (v, back))
    return len(vals)


# --------------------------------------------------------------------------- context


def _jsonable(x, depth=0):
    if depth > 12:
        return "..."
    if x is None or isinstance(x, (bool, int, str)):
        if isinstance(x, int) and not isinstance(x, bool) and abs(x) > 2**62:
            return {"__int__": str(x)}
        return x
    if isinstance(x, float):
        if x != x or x in (float("inf"), float("-inf")) or (x == 0 and str(x) == "-0.0"):
            return {"__float__": repr(x)}
        return x
    if isinstance(x, (bytes, bytearray)):
        return {"__bytes__": bytes(x).hex()}
    if isinstance(x, (list, tuple)):
        return [_jsonable(v, depth + 1) for v in x]
    if isinstance(x, dict):
        if all(isinstance(k, str) for k in x):
            return {k: _jsonable(v, depth + 1) for k, v in x.items()}
        return {"__items__": [[_jsonable(k, depth + 1), _jsonable(v, depth + 1)] for k, v in x.items()]}
    if isinstance(x, (set, frozenset)):
        return {"__set__": sorted((_jsonable(v, depth + 1) for v in x), key=repr)}
    return {"__repr__": repr(x)[:300]}


def unjson(x):
    if isinstance(x, list):
        return [unjson(v) for v in x]
    if isinstance(x, dict):
        if "__int__" in x and len(x) == 1:
            return int(x["__int__"])
        if "__float__" in x and len(x) == 1:
            return float(x["__float__"])
        if "__bytes__" in x and len(x) == 1:
            return bytes.fromhex(x["__bytes__"])
        if "__items__" in x and len(x) == 1:
            return {_hashable(unjson(k)): unjson(v) for k, v in x["__items__"]}
        if "__set__" in x and len(x) == 1:
            return set(_hashable(unjson(v)) for v in x["__set__"])
        return {k: unjson(v) for k, v in x.items()}
    return x


def _hashable(v):
    if isinstance(v, list):
        return tuple(_hashable(x) for x in v)
    return v


class Ctx:
    def __init__(self, prop_id, tier, seed):
        self.prop_id = prop_id
        self.tier = tier
        self.seed = seed
        self.rng = random.Random((seed * 1000003) ^ int(hashlib.sha256(prop_id.encode()).hexdigest()[:8], 16))
        self.model = Model()
        self.evaluations = 0
        self.distinct = set()
        self.samples = []
        self.dist = {}
        self.violations = []  # (replay path, line)
        self.known_hits = {}  # finding id -> text
        self.disagreements = []  # model vs implementation, oracle silent
        self.disagreements_checked = 0
        self.notes = {}
        self.t0 = time.time()
        self.budget_s = 45 if tier == "quick" else 600
        self.known = [k for k in load_known() if k.get("property") == prop_id]
        self.replaying = False
        self.exhaustive = None
        self._viol_n = 0

    # -- budget
    def time_left(self):
        return self.budget_s - (time.time() - self.t0)

    def scale(self, quick, thorough):
        return quick if self.tier == "quick" else thorough

    # -- statistics
    def hit(self, key, n=1):
        self.dist[key] = self.dist.get(key, 0) + n

    def case(self, case, nontrivial=True, key=None):
        """Count one evaluated case; `key` identifies distinct cases."""
        self.evaluations += 1
        if nontrivial:
            k = key if key is not None else json.dumps(_jsonable(case), sort_keys=True, default=repr)
            self.distinct.add(hashlib.blake2b(k.encode() if isinstance(k, str) else repr(k).encode(), digest_size=8).digest())
        if len(self.samples) < 6 and (self.evaluations in (1, 7, 50, 400, 3000, 20000)):
            self.samples.append(_jsonable(case))

    # -- outcomes
    def _write_replay(self, payload):
        os.makedirs(os.path.join(VERIF, "replays"), exist_ok=True)
        self._viol_n += 1
        path = os.path.join("replays", "%s-%d-%d.json" % (self.prop_id, self.seed, self._viol_n))
        with open(os.path.join(VERIF, path), "w") as f:
            json.dump(payload, f, indent=1, sort_keys=True, default=repr)
        return path

    def fail(self, case, clause, impl=None, model=None, detail=None):
        """The property's oracle fails on `case` against the implementation."""
        failure = {"clause": clause, "impl": _jsonable(impl), "model": _jsonable(model), "detail": detail}
        for k in self.known:
            if k.get("status") == "open" and match_known(self.prop_id, k, case, failure):
                if k["id"] not in self.known_hits:
                    self.known_hits[k["id"]] = k["title"]
                self.hit("known-finding:" + k["id"])
                return "known"
        sig = clause
        if any(v.get("sig") == sig for v in self.violations) and len(self.violations) >= 1:
            self.hit("violation-dup:" + clause)
            return "dup"
        payload = {
            "property": self.prop_id,
            "seed": self.seed,
            "tier": self.tier,
            "kind": "failing-input",
            "case": _jsonable(case),
            "failure": failure,
        }
        path = self._write_replay(payload)
        self.violations.append({"sig": sig, "path": path, "suffix": ""})
        return "violation"

    def disagree(self, case, impl, model, what="model and implementation differ"):
        """Model and implementation differ on `case` but the oracle is not (yet) known to fail."""
        self.disagreements.append({"case": _jsonable(case), "impl": _jsonable(impl), "model": _jsonable(model), "what": what})
        self.hit("disagreement")

    def note(self, key, value):
        self.notes[key] = value


# --------------------------------------------------------------------------- known findings

_KNOWN = None


def load_known():
    global _KNOWN
    if _KNOWN is None:
        p = os.path.join(VERIF, "known_findings.json")
        _KNOWN = json.load(open(p))["findings"] if os.path.exists(p) else []
    return _KNOWN


def match_known(prop_id, entry, case, failure):
    mod = importlib.import_module("harness.props." + prop_id.lower())
    pred = getattr(mod, "KNOWN_PREDICATES", {}).get(entry.get("predicate"))
    if pred is None:
        return False
    try:
        return bool(pred(case, failure))
    except Exception:
        return False


# --------------------------------------------------------------------------- shrinking


def shrink(case, still_fails, budget=300, max_seconds=30.0):
    """Greedy structural delta debugging over JSON-like cases.

    Shrinking is a convenience, never a duty: a changed tree can make one evaluation of a candidate arbitrarily slow
    (a seeded change made `fetchmany()` allocate a 10**9-slot batch, eight seconds a call), so besides the number of
    tries there is a wall-clock cap after which the smallest case found so far is returned."""
    tries = 0
    t_end = time.time() + max_seconds

    def candidates(x):
        if isinstance(x, list):
            for i in range(len(x)):
                yield x[:i] + x[i + 1 :]
            for i in range(len(x)):
                for c in candidates(x[i]):
                    yield x[:i] + [c] + x[i + 1 :]
        elif isinstance(x, tuple):
            for c in candidates(list(x)):
                yield tuple(c)
        elif isinstance(x, dict):
            for k in list(x):
                for c in candidates(x[k]):
                    y = dict(x)
                    y[k] = c
                    yield y
        elif isinstance(x, bool):
            return
        elif isinstance(x, int):
            if x != 0:
                yield 0
                if abs(x) > 1:
                    yield x // 2
                    yield x - (1 if x > 0 else -1)
        elif isinstance(x, str):
            if x:
                yield x[: len(x) // 2]
                yield x[1:]
        elif isinstance(x, bytes):
            if x:
                yield x[: len(x) // 2]
                yield x[1:]

    cur = case
    progress = True
    while progress and tries < budget:
        progress = False
        for c in candidates(cur):
            tries += 1
            if tries >= budget or time.time() > t_end:
                tries = budget
                break
            try:
                if still_fails(c):
                    cur = c
                    progress = True
                    break
            except Exception:
                continue
    return cur


# --------------------------------------------------------------------------- evidence


def write_evidence(ctx, audit, wall, extra_assumptions=()):
    cov = {
        "obligations": audit["obligations"],
        "discharged": audit["discharged"],
        "checker_cmd": "cd lean && lake build OrsoVerif.Props.%s && lake env lean .lake/Audit_%s.lean  (# print axioms of every theorem)%s"
        % (ctx.prop_id, ctx.prop_id, " && lake env leanchecker OrsoVerif.Props.%s" % ctx.prop_id if ctx.tier == "thorough" else ""),
        "trusted_base": TRUSTED_BASE + list(ctx.notes.get("trusted_base_extra", [])),
        "theorems": audit.get("theorems", []),
        "axioms_used": sorted({a for v in audit.get("axioms", {}).values() for a in v}),
        "proof_failures": [list(x) for x in audit.get("failed", [])],
        "evaluations": ctx.evaluations,
        "distinct_nontrivial": len(ctx.distinct),
        "rule": ctx.notes.get("rule", "cases are generated by harness/props/%s.py; distinct = distinct canonical JSON of the case; trivial cases (empty inputs, immediate argument errors) are not counted" % ctx.prop_id.lower()),
        "samples": ctx.samples[:6] or [{"note": "no correspondence case was generated"}],
        "traces_validated_against_impl": ctx.evaluations,
        "disagreements_checked": ctx.disagreements_checked,
        "model_vs_impl_disagreements": len(ctx.disagreements),
        "input_distribution": dict(sorted(ctx.dist.items())),
        "model_driver_lines": ctx.model.lines,
        "known_findings_reproduced": sorted(ctx.known_hits),
    }
    if ctx.exhaustive is not None:
        cov["exhaustive"] = bool(ctx.exhaustive)
    if "leanchecker" in audit:
        cov["leanchecker"] = audit["leanchecker"]
    for k, v in ctx.notes.items():
        if k not in ("rule", "trusted_base_extra", "assumptions"):
            cov[k] = v
    ev = {
        "property_id": ctx.prop_id,
        "tier": ctx.tier,
        "seed": ctx.seed,
        "level": "proof",
        "coverage": cov,
        "assumptions": list(ctx.notes.get("assumptions", [])) + list(extra_assumptions),
        "wall_s": round(wall, 2),
        "violations": len(ctx.violations),
    }
    os.makedirs(os.path.join(VERIF, "evidence"), exist_ok=True)
    tmp = os.path.join(VERIF, "evidence", ctx.prop_id + ".json.tmp")
    with open(tmp, "w") as f:
        json.dump(ev, f, indent=1, sort_keys=True, default=repr)
    os.replace(tmp, os.path.join(VERIF, "evidence", ctx.prop_id + ".json"))
