"""Python statements -> Lean definitions (the statement-level companion of pyexpr.py).

A function body written in a small imperative subset of Python is translated, statement by statement,
into a Lean definition of type `Option <result>` (`none` = the exception Python / numpy raises):

* `x = e`, `self.x = e`, `x += e`, `xs.append(e)`, `xs.extend(e)`  ->  `let x := ...` (shadowing)
* `if c: ... return` (early return)                               ->  `if c then <body> else <rest>`
* `if c: ... else: ...` assigning variables                        ->  `match (if c then (..) else (..)) with | (vars) => <rest>`
* `for v in xs: ...` / `for a, b in zip(xs, ys): ...`              ->  an auxiliary definition for the loop body and
                                                                       `List.foldl body (carried variables) xs`
* `x is None` / `x is not None` on variables of an `Option` type -> `x.isNone` / `x.isSome`
* `x.__class__ is y.__class__` / `type(x) is type(y)` (also `==`, `is not`, `!=`) on two elements -> the parameter
  `sameClass x y` (when the Spec names one under `cmp["SameClass"]`)
* expressions: names, integer constants, `[]`, `[e]`, `[e] * n`, `+`, `len`, `xs[0]`, `xs[1:]`, `xs[idx]`,
  `a == b`, `a != b` (element comparisons are parameters of the generated definition: for floats they are
  IEEE comparisons), `a or b` on integers (Python truthiness: `a if a != 0 else b`), and the numpy calls
  listed in `Translator.call` (`numpy.array`, `numpy.where`, `numpy.full`, `numpy.unique`), which become the
  primitives of `Model/Np.lean`.

Anything else raises `Untranslatable`; the caller then writes the pinned text and reports the item as
degraded (a refactor is never an alarm).  The caller also pins the *shape* it proves theorems about
(which variables a loop carries); a translation of another shape is `Untranslatable` as well.
"""
import ast


class Untranslatable(Exception):
    pass


RESERVED = {"default", "end", "from", "in", "at", "fun", "open", "then", "do", "have", "show", "let", "match", "with",
            "if", "else", "where", "type", "class", "instance", "structure", "theorem", "def", "by", "local", "private"}


def ident(pyname):
    s = pyname.replace(".", "_")
    if s.startswith("_"):
        s = "u" + s  # (`_length` -> `u_length`: a leading underscore marks an unused binder in Lean)
    return s + "_" if s in RESERVED else s


class V:
    """A translated expression: Lean term, Lean type, whether the term is `Option`-valued (may raise)."""

    def __init__(self, term, ty, fallible=False, tuple1=False):
        self.term, self.ty, self.fallible, self.tuple1 = term, ty, fallible, tuple1


def list_of(ty):
    return "List " + (ty if " " not in ty else "(" + ty + ")")


def elem_of(ty):
    if not ty.startswith("List "):
        raise Untranslatable("not a list type: " + ty)
    t = ty[5:]
    return t[1:-1] if t.startswith("(") and t.endswith(")") else t


class Spec:
    def __init__(self, name, binders, out_type, elem="α", ctx_binders="", ctx_args="", env=None, var_types=None,
                 init_scope=None, prelude=(), outputs=None, skip_targets=(), skip_stmts=(), cmp=None, expect_loops=None,
                 doc="", frozen_self=False):
        self.name, self.binders, self.out_type, self.elem = name, binders, out_type, elem
        self.ctx_binders, self.ctx_args = ctx_binders, ctx_args
        self.env = env or {}
        self.var_types = var_types or {}
        self.init_scope = init_scope or {}
        self.prelude = list(prelude)
        self.outputs = outputs
        self.skip_targets = set(skip_targets)
        self.skip_stmts = set(skip_stmts)
        self.cmp = cmp or {}
        self.expect_loops = expect_loops
        self.doc = doc
        self.frozen_self = frozen_self  # the function must not assign to `self.*` (the model takes it to be pure)


def pyname_of(node):
    """`x` or `self.x` as a variable name, else None."""
    if isinstance(node, ast.Name):
        return node.id
    if isinstance(node, ast.Attribute) and isinstance(node.value, ast.Name) and node.value.id == "self":
        return "self." + node.attr
    return None


def class_of(node):
    """`x.__class__` / `type(x)` -> the node of `x`, else None."""
    if isinstance(node, ast.Attribute) and node.attr == "__class__":
        return node.value
    if isinstance(node, ast.Call) and isinstance(node.func, ast.Name) and node.func.id == "type" and len(node.args) == 1 \
            and not node.keywords:
        return node.args[0]
    return None


def assigned(stmts):
    """Variable names assigned anywhere in the statements, in order of first assignment."""
    out = []

    def add(n):
        if n is not None and n not in out:
            out.append(n)

    for s in stmts:
        for n in ast.walk(s):
            if isinstance(n, ast.Assign):
                for t in n.targets:
                    if isinstance(t, ast.Tuple):
                        for e in t.elts:
                            add(pyname_of(e))
                    elif isinstance(t, ast.Subscript):
                        add(pyname_of(t.value))
                    else:
                        add(pyname_of(t))
            elif isinstance(n, ast.AugAssign):
                add(pyname_of(n.target))
            elif isinstance(n, ast.Expr) and isinstance(n.value, ast.Call) and isinstance(n.value.func, ast.Attribute) \
                    and n.value.func.attr in ("append", "extend"):
                add(pyname_of(n.value.func.value))
            elif isinstance(n, ast.For):
                for e in ([n.target] if not isinstance(n.target, ast.Tuple) else n.target.elts):
                    add(pyname_of(e))
    return out


def has_return(stmts):
    return any(isinstance(n, ast.Return) for s in stmts for n in ast.walk(s))


def tup(names):
    return names[0] if len(names) == 1 else "(" + ", ".join(names) + ")"


def tup_type(types):
    return types[0] if len(types) == 1 else " × ".join(t if " " not in t or t.startswith("List ") else "(" + t + ")" for t in types)


def indent(text, n=2):
    return "\n".join((" " * n + l) if l else l for l in text.split("\n"))


class Translator:
    def __init__(self, spec):
        self.spec = spec
        self.aux = []
        self.loops = []

    # ------------------------------------------------------------------ expressions

    def cmp_term(self, op, a, b):
        """Scalar comparison of two elements through the comparison parameters of the definition."""
        c = self.spec.cmp
        if isinstance(op, ast.Eq):
            return "%s %s %s" % (c["Eq"], a, b) if "Eq" in c else "!(%s %s %s)" % (c["NotEq"], a, b)
        if isinstance(op, ast.NotEq):
            return "%s %s %s" % (c["NotEq"], a, b) if "NotEq" in c else "!(%s %s %s)" % (c["Eq"], a, b)
        raise Untranslatable("comparison %s on elements" % type(op).__name__)

    def expr(self, n, scope, want=None):
        sp = self.spec
        key = ast.unparse(n)
        if key in sp.env:
            t, ty = sp.env[key]
            return V(t, ty)
        pn = pyname_of(n)
        if pn is not None:
            if pn in scope:
                return V(scope[pn][0], scope[pn][1])
            raise Untranslatable("unbound variable " + pn)
        if isinstance(n, ast.Constant):
            if isinstance(n.value, bool) or not isinstance(n.value, int) or n.value < 0:
                raise Untranslatable("constant %r" % (n.value,))
            return V("%d" % n.value, "Nat")
        if isinstance(n, ast.List):
            if not n.elts:
                if want is None:
                    raise Untranslatable("empty list of unknown type")
                return V("[]", want)
            if len(n.elts) == 1:
                e = self.expr(n.elts[0], scope)
                self.pure(e)
                return V("[%s]" % e.term, list_of(e.ty))
            raise Untranslatable("list display with %d elements" % len(n.elts))
        if isinstance(n, ast.BinOp):
            if isinstance(n.op, ast.Mult) and isinstance(n.left, ast.List) and len(n.left.elts) == 1:
                e = self.expr(n.left.elts[0], scope)
                k = self.expr(n.right, scope)
                self.pure(e, k)
                if k.ty != "Nat":
                    raise Untranslatable("list repeated by a %s" % k.ty)
                return V("List.replicate %s %s" % (self.paren(k.term), self.paren(e.term)), list_of(e.ty))
            a, b = self.expr(n.left, scope), self.expr(n.right, scope)
            self.pure(a, b)
            if isinstance(n.op, ast.Add) and a.ty == b.ty == "Nat":
                return V("%s + %s" % (self.paren(a.term), self.paren(b.term)), "Nat")
            if isinstance(n.op, ast.Add) and a.ty == b.ty and a.ty.startswith("List "):
                return V("%s ++ %s" % (self.paren(a.term), self.paren(b.term)), a.ty)
            raise Untranslatable("operator %s on %s, %s" % (type(n.op).__name__, a.ty, b.ty))
        if isinstance(n, ast.BoolOp):
            vs = [self.expr(v, scope) for v in n.values]
            self.pure(*vs)
            if all(v.ty == "Nat" for v in vs) and isinstance(n.op, ast.Or):
                # Python truthiness of integers: `a or b` is `a` unless `a == 0`
                t = vs[-1].term
                for v in reversed(vs[:-1]):
                    t = "if %s != 0 then %s else %s" % (self.paren(v.term), v.term, self.paren(t))
                return V(t, "Nat")
            if all(v.ty == "Bool" for v in vs):
                j = " || " if isinstance(n.op, ast.Or) else " && "
                return V(j.join(self.paren(v.term) for v in vs), "Bool")
            raise Untranslatable("boolean operator on %s" % [v.ty for v in vs])
        if isinstance(n, ast.UnaryOp) and isinstance(n.op, ast.Not):
            v = self.expr(n.operand, scope)
            self.pure(v)
            if v.ty != "Bool":
                raise Untranslatable("not on %s" % v.ty)
            return V("!%s" % self.paren(v.term), "Bool")
        if isinstance(n, ast.Compare) and len(n.ops) == 1:
            op, right = n.ops[0], n.comparators[0]
            # `type(x) in (int, float)`: a dtype-level test, a parameter of the definition
            if isinstance(op, ast.In) and isinstance(n.left, ast.Call) and ast.unparse(n.left.func) == "type" \
                    and ast.unparse(right) in sp.env:
                x = self.expr(n.left.args[0], scope)
                self.pure(x)
                return V("%s %s" % (sp.env[ast.unparse(right)][0], self.paren(x.term)), "Bool")
            # `x.__class__ is y.__class__` / `type(x) is type(y)` (also `==`, and the negations) on two elements:
            # "of the same class", a parameter of the definition like the element comparisons
            ca, cb = class_of(n.left), class_of(right)
            if ca is not None and cb is not None and isinstance(op, (ast.Is, ast.IsNot, ast.Eq, ast.NotEq)) and "SameClass" in sp.cmp:
                a, b = self.expr(ca, scope), self.expr(cb, scope)
                self.pure(a, b)
                if not (a.ty == b.ty == sp.elem):
                    raise Untranslatable("class comparison of %s with %s" % (a.ty, b.ty))
                t = "%s %s %s" % (sp.cmp["SameClass"], self.paren(a.term), self.paren(b.term))
                return V(t if isinstance(op, (ast.Is, ast.Eq)) else "!(%s)" % t, "Bool")
            # `x is None` / `x is not None` on an optional attribute
            if isinstance(op, (ast.Is, ast.IsNot)) and isinstance(right, ast.Constant) and right.value is None:
                x = self.expr(n.left, scope)
                self.pure(x)
                if not x.ty.startswith("Option "):
                    raise Untranslatable("`is None` on a %s" % x.ty)
                return V("%s.%s" % (self.paren(x.term), "isNone" if isinstance(op, ast.Is) else "isSome"), "Bool")
            a, b = self.expr(n.left, scope), self.expr(right, scope)
            self.pure(a, b)
            if a.ty == b.ty == "Nat":
                sym = {ast.Eq: "==", ast.NotEq: "!=", ast.Lt: "<", ast.LtE: "≤", ast.Gt: ">", ast.GtE: "≥"}.get(type(op))
                if sym is None:
                    raise Untranslatable("comparison %s" % type(op).__name__)
                t = "%s %s %s" % (self.paren(a.term), sym, self.paren(b.term))
                return V(t if sym in ("==", "!=") else "decide (%s)" % t, "Bool")
            if a.ty == b.ty == sp.elem:
                return V(self.cmp_term(op, self.paren(a.term), self.paren(b.term)), "Bool")
            if a.ty == list_of(sp.elem) and b.ty == sp.elem:
                # numpy's element-wise comparison of an array with a scalar: a Boolean mask
                return V("%s.map fun x => %s" % (self.paren(a.term), self.cmp_term(op, "x", self.paren(b.term))), "List Bool")
            raise Untranslatable("comparison of %s with %s" % (a.ty, b.ty))
        if isinstance(n, ast.Call):
            return self.call(n, scope, want)
        if isinstance(n, ast.Subscript):
            x = self.expr(n.value, scope)
            self.pure(x)
            sl = n.slice
            if isinstance(sl, ast.Tuple) and not sl.elts:
                return x  # `a[()]`: the scalar of a zero-dimensional array
            if isinstance(sl, ast.Constant) and isinstance(sl.value, int) and not isinstance(sl.value, bool) and sl.value >= 0:
                return V("%s[%d]?" % (self.paren(x.term), sl.value), elem_of(x.ty), fallible=True)
            if isinstance(sl, ast.Slice):
                if sl.upper is not None or sl.step is not None or sl.lower is None:
                    raise Untranslatable("slice " + key)
                k = self.expr(sl.lower, scope)
                self.pure(k)
                if k.ty != "Nat":
                    raise Untranslatable("slice bound of type " + k.ty)
                return V("%s.drop %s" % (self.paren(x.term), self.paren(k.term)), x.ty)
            i = self.expr(sl, scope)
            self.pure(i)
            if i.ty == "List Nat" and x.ty.startswith("List "):
                return V("Np.take %s %s" % (self.paren(x.term), self.paren(i.term)), x.ty, fallible=True)
            raise Untranslatable("subscript " + key)
        raise Untranslatable("%s: %s" % (type(n).__name__, key[:60]))

    def call(self, n, scope, want):
        f = ast.unparse(n.func)
        kws = {k.arg: k.value for k in n.keywords}
        args = n.args
        if any(isinstance(a, ast.Starred) for a in args) or None in kws:
            raise Untranslatable("call " + ast.unparse(n)[:60])
        if f == "len" and len(args) == 1 and not kws:
            x = self.expr(args[0], scope)
            self.pure(x)
            return V("%s.length" % self.paren(x.term), "Nat")
        if f in ("numpy.array", "numpy.asarray") and len(args) == 1 and not kws:
            # the value level: an array of the same elements (its dtype is the dtype layer's business)
            return self.expr(args[0], scope, want)
        if f == "zip" and len(args) == 2 and not kws:
            a, b = self.expr(args[0], scope), self.expr(args[1], scope)
            self.pure(a, b)
            return V("List.zip %s %s" % (self.paren(a.term), self.paren(b.term)), list_of("%s × %s" % (elem_of(a.ty), elem_of(b.ty))))
        if f == "numpy.where" and len(args) == 1 and not kws:
            m = self.expr(args[0], scope)
            self.pure(m)
            if m.ty != "List Bool":
                raise Untranslatable("numpy.where of a %s" % m.ty)
            return V("Np.where %s" % self.paren(m.term), "List Nat", tuple1=True)
        if f == "numpy.full" and len(args) == 2 and set(kws) <= {"dtype"}:
            k, v = self.expr(args[0], scope), self.expr(args[1], scope)
            self.pure(k, v)
            if k.ty != "Nat":
                raise Untranslatable("numpy.full with a length of type " + k.ty)
            if "dtype" in kws:
                d = self.expr(kws["dtype"], scope)
                self.pure(d)
                if v.ty != self.spec.elem or d.ty != "DT":
                    raise Untranslatable("numpy.full(%s, %s, dtype=%s)" % (k.ty, v.ty, d.ty))
                return V("Np.fullCast cast %s %s %s" % (self.paren(d.term), self.paren(k.term), self.paren(v.term)),
                         list_of(v.ty), fallible=True)
            if v.ty == list_of(self.spec.elem):
                return V("Np.fullFrom %s %s" % (self.paren(k.term), self.paren(v.term)), v.ty, fallible=True)
            raise Untranslatable("numpy.full with a fill value of type " + v.ty)
        if f == "numpy.unique" and len(args) == 1 and set(kws) == {"return_inverse"} \
                and isinstance(kws["return_inverse"], ast.Constant) and kws["return_inverse"].value is True:
            x = self.expr(args[0], scope)
            self.pure(x)
            return V(x.term, x.ty, tuple1="unique")
        raise Untranslatable("call " + ast.unparse(n)[:60])

    @staticmethod
    def paren(t):
        simple = t.replace("_", "a").replace(".", "a").replace("'", "a").isalnum() or (t.startswith("[") and t.endswith("]") and t.count("[") == 1) \
            or (t.startswith("(") and t.endswith(")") and t.count("(") == 1)
        return t if simple else "(" + t + ")"

    @staticmethod
    def pure(*vs):
        for v in vs:
            if v.fallible or v.tuple1:
                raise Untranslatable("a sub-expression that may raise / is a tuple: " + v.term[:40])

    # ------------------------------------------------------------------ statements

    def skippable(self, s):
        if isinstance(s, ast.Expr) and isinstance(s.value, ast.Constant) and isinstance(s.value.value, str):
            return True  # docstring
        if ast.unparse(s) in self.spec.skip_stmts:
            return True
        names = assigned([s])
        if names and all(n in self.spec.skip_targets for n in names) and not has_return([s]):
            return True
        return False

    def bind(self, pyname, v, scope, cont, pure):
        """`pyname = v` followed by the rest."""
        if self.spec.frozen_self and pyname.startswith("self."):
            raise Untranslatable("assigns to %s (the model takes this method to be pure)" % pyname)
        ty = self.spec.var_types.get(pyname, v.ty)
        if ty != v.ty:
            raise Untranslatable("%s : %s assigned a %s" % (pyname, ty, v.ty))
        sc = dict(scope)
        sc[pyname] = (ident(pyname), ty)
        if v.fallible:
            if pure:
                raise Untranslatable("an expression that may raise inside a loop / branch")
            return "(%s).bind fun %s =>\n%s" % (v.term, ident(pyname), cont(sc))
        return "let %s : %s := %s;\n%s" % (ident(pyname), ty, v.term, cont(sc))

    def outputs(self, scope):
        names = []
        for o in self.spec.outputs:
            if o not in scope:
                raise Untranslatable("output %s is not assigned" % o)
            names.append(scope[o][0])
        return "some " + tup(names) if len(names) == 1 else "some (" + ", ".join(names) + ")"

    def block(self, stmts, scope, end, pure):
        stmts = [s for s in stmts if not self.skippable(s)]
        if not stmts:
            return end(scope)
        s, rest = stmts[0], stmts[1:]

        def cont(sc):
            return self.block(rest, sc, end, pure)

        if isinstance(s, ast.Return):
            if pure:
                raise Untranslatable("return inside a loop / branch")
            if s.value is None:
                return self.outputs(scope)
            v = self.expr(s.value, scope)
            if v.tuple1:
                raise Untranslatable("return of a tuple")
            if v.ty != self.spec.out_type:
                raise Untranslatable("returns a %s, expected %s" % (v.ty, self.spec.out_type))
            return v.term if v.fallible else "some %s" % self.paren(v.term)
        if isinstance(s, ast.Assign) and len(s.targets) == 1:
            t = s.targets[0]
            if isinstance(t, ast.Tuple):
                names = [pyname_of(e) for e in t.elts]
                if None in names:
                    raise Untranslatable("assignment target " + ast.unparse(t))
                v = self.expr(s.value, scope)
                if v.tuple1 is True and len(names) == 1:
                    return self.bind(names[0], V(v.term, v.ty), scope, cont, pure)
                if v.tuple1 == "unique" and len(names) == 2:
                    le = self.spec.env.get("<le>", ("le", ""))[0]
                    a = V("Np.uniqueValues %s %s" % (le, self.paren(v.term)), v.ty)
                    b = V("Np.uniqueInverse %s %s" % (le, self.paren(v.term)), "List Nat")
                    return self.bind(names[0], a, scope, lambda sc: self.bind(names[1], b, sc, cont, pure), pure)
                raise Untranslatable("tuple assignment " + ast.unparse(s)[:60])
            if isinstance(t, ast.Subscript):
                # `arr[idx] = vals`
                pn = pyname_of(t.value)
                if pn is None or pn not in scope:
                    raise Untranslatable("assignment target " + ast.unparse(t))
                i, v = self.expr(t.slice, scope), self.expr(s.value, scope)
                self.pure(i, v)
                arr = scope[pn]
                if i.ty != "List Nat" or v.ty != arr[1] or "dtype" not in self.spec.env:
                    raise Untranslatable("item assignment " + ast.unparse(s)[:60])
                put = V("Np.putCast cast %s %s %s %s" % (self.spec.env["dtype"][0], arr[0], self.paren(i.term), self.paren(v.term)),
                        arr[1], fallible=True)
                return self.bind(pn, put, scope, cont, pure)
            pn = pyname_of(t)
            if pn is None:
                raise Untranslatable("assignment target " + ast.unparse(t))
            v = self.expr(s.value, scope, want=self.spec.var_types.get(pn))
            if v.tuple1:
                raise Untranslatable("a tuple assigned to one name")
            return self.bind(pn, v, scope, cont, pure)
        if isinstance(s, ast.AugAssign):
            pn = pyname_of(s.target)
            if pn is None or pn not in scope:
                raise Untranslatable("augmented assignment " + ast.unparse(s))
            v = self.expr(ast.BinOp(left=s.target, op=s.op, right=s.value), scope)
            return self.bind(pn, v, scope, cont, pure)
        if isinstance(s, ast.Expr) and isinstance(s.value, ast.Call) and isinstance(s.value.func, ast.Attribute) \
                and s.value.func.attr in ("append", "extend") and len(s.value.args) == 1 and not s.value.keywords:
            pn = pyname_of(s.value.func.value)
            if pn is None or pn not in scope or not scope[pn][1].startswith("List "):
                raise Untranslatable(ast.unparse(s))
            e = self.expr(s.value.args[0], scope)
            self.pure(e)
            if s.value.func.attr == "append":
                if list_of(e.ty) != scope[pn][1]:
                    raise Untranslatable("append of a %s to a %s" % (e.ty, scope[pn][1]))
                v = V("%s ++ [%s]" % (scope[pn][0], e.term), scope[pn][1])
            else:
                if e.ty != scope[pn][1]:
                    raise Untranslatable("extend of a %s by a %s" % (scope[pn][1], e.ty))
                v = V("%s ++ %s" % (scope[pn][0], self.paren(e.term)), scope[pn][1])
            return self.bind(pn, v, scope, cont, pure)
        if isinstance(s, ast.If):
            c = self.expr(s.test, scope)
            self.pure(c)
            if c.ty != "Bool":
                raise Untranslatable("condition of type " + c.ty)
            if has_return(s.body) or has_return(s.orelse):
                if pure or s.orelse or not isinstance(s.body[-1], ast.Return) or has_return(s.body[:-1]):
                    raise Untranslatable("return in an unsupported position")
                return "if %s then\n%s\nelse\n%s" % (c.term, indent(self.block(s.body, scope, end, pure)), indent(cont(scope)))
            names = sorted(x for x in assigned(s.body + s.orelse) if x not in self.spec.skip_targets)
            for x in names:
                if x not in scope:
                    raise Untranslatable("%s is first assigned inside a branch" % x)
            ids = [scope[x][0] for x in names]

            def leave(sc):
                return tup([sc[x][0] for x in names])

            a = self.block(s.body, scope, leave, True)
            b = self.block(s.orelse, scope, leave, True)
            ite = "if %s then\n%s\nelse\n%s" % (c.term, indent(a), indent(b))
            return "match (%s) with\n| %s =>\n%s" % (indent(ite, 1).lstrip(), tup(ids), cont(scope))
        if isinstance(s, ast.For) and not s.orelse:
            it = self.expr(s.iter, scope)
            self.pure(it)
            ety = elem_of(it.ty)
            targets = [s.target] if not isinstance(s.target, ast.Tuple) else list(s.target.elts)
            tnames = [pyname_of(t) for t in targets]
            if None in tnames or any("." in t for t in tnames):
                raise Untranslatable("loop target " + ast.unparse(s.target))
            ttypes = [ety] if len(tnames) == 1 else [p.strip() for p in ety.split(" × ")]
            if len(ttypes) != len(tnames):
                raise Untranslatable("loop target does not match " + ety)
            carried = sorted(x for x in assigned(s.body) if x not in tnames and x not in self.spec.skip_targets)
            for x in carried:
                if x not in scope:
                    raise Untranslatable("%s is first assigned inside a loop" % x)
            k = len(self.loops) + 1
            self.loops.append(list(carried))
            if self.spec.expect_loops is not None and (k > len(self.spec.expect_loops) or self.spec.expect_loops[k - 1] != carried):
                raise Untranslatable("loop %d carries %s (another shape than the theorems are stated for)" % (k, carried))
            used = {pyname_of(x) for b in s.body for x in ast.walk(b)} - {None}
            free = [x for x in scope if x in used and x not in carried and x not in tnames]
            inner = dict(scope)
            for t, ty in zip(tnames, ttypes):
                inner[t] = (ident(t), ty)
            body = self.block(s.body, inner, lambda sc: tup([sc[x][0] for x in carried]), True)
            st_ty = tup_type([scope[x][1] for x in carried])
            fname = "%s_loop%d" % (self.spec.name, k)
            fb = " ".join("(%s : %s)" % (scope[x][0], scope[x][1]) for x in free)
            self.aux.append(
                "/-- body of loop %d of `%s`: `for %s in %s` -/\n" % (k, self.spec.doc or self.spec.name, ast.unparse(s.target), ast.unparse(s.iter))
                + "def %s %s %s (st : %s) (item : %s) : %s :=\n  match st, item with\n  | %s, %s =>\n%s"
                % (fname, self.spec.ctx_binders, fb, st_ty, ety, st_ty, tup([scope[x][0] for x in carried]),
                   tup([ident(t) for t in tnames]), indent(body, 4)))
            fargs = " ".join([self.spec.ctx_args] + [scope[x][0] for x in free]).strip()
            fold = "List.foldl (%s) %s %s" % ((fname + " " + fargs).strip(), tup([scope[x][0] for x in carried]), self.paren(it.term))
            return "match %s with\n| %s =>\n%s" % (fold, tup([scope[x][0] for x in carried]), cont(scope))
        raise Untranslatable("statement %s: %s" % (type(s).__name__, ast.unparse(s)[:60]))

    # ------------------------------------------------------------------ function

    def function(self, fn):
        sp = self.spec
        scope = dict(sp.init_scope)

        def end(sc):
            if sp.outputs is None:
                raise Untranslatable("the function ends without a return")
            return self.outputs(sc)

        body = self.block(list(fn.body), scope, end, False)
        if sp.expect_loops is not None and len(self.loops) != len(sp.expect_loops):
            raise Untranslatable("%d loops, expected %d" % (len(self.loops), len(sp.expect_loops)))
        pre = "".join(p + ";\n" for p in sp.prelude)
        main = "/-- `%s`, translated statement by statement -/\ndef %s %s : Option (%s) :=\n%s" % (
            sp.doc or sp.name, sp.name, sp.binders, sp.out_type, indent(pre + body))
        return "\n\n".join(self.aux + [main])


def translate(fn, spec):
    return Translator(spec).function(fn)
