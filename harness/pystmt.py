"""Python function body -> Lean definition (statement-level translator; DESIGN.md §14.5).

`pyexpr.py` lifts single expressions out of the source.  This module lifts *whole small functions*: the
control flow (assignments, `if/elif/else`, early `return`, `raise`, `for` loops of the two shapes that
occur in orso's pure cores) is translated mechanically, so the Lean definition under `Gen.*` is what the
working tree says now; a hand-written model is then tied to it by an *equivalence theorem*
(`Gen.f = Model.f`, proved once, re-checked on every run).  A change of the source that changes the
function's meaning breaks that theorem (and the correspondence finds the failing input); a shape the
translator does not know raises `Untranslatable`, and the extractor degrades to the pinned text.

Supported statements
  x = e / x op= e / x.append(e)            -> `let x := …`
  if / elif / else                         -> `if … then … else …` (the rest of the block is continued in
                                              both branches, so early returns need no special casing)
  return e / return                        -> the value, through the `ret` callback
  raise E(...)                             -> the `raise_` callback (e.g. an `Except` error value)
  for x in E: if C: return R               -> `match (E).find? (fun x => decide C) with | some x => R | none => rest`
  for i, x in enumerate(E): if C: return R -> the same over `(E).zipIdx` (pairs `(x, i)`)
  for x in E: <assignments / appends / ifs without return> -> `List.foldl` over the tuple of variables the
                                              body assigns (they must be defined before the loop)
  pass, docstrings, assert                 -> skipped
  for x in E: if C: <stmts>; return R      -> the same `find?`, the statements translated inside the `some` branch
  for x in E: a = …; b = …; if C: … return R -> the same, the loop-local assignments as `let`s in the test and again in the `some` branch
  continue (inside an accumulating loop)   -> the current tuple of loop variables
  s.add(e) on a set-valued local           -> `let s := s ++ [e]` (sets are lists that are only ever asked `in`)
  X.append(e) / X.remove(e) / X.pop(i)     -> on an attribute declared `mutable` (e.g. `self.columns`): the attribute
                                              is a local (`let cols_ := self_.columns` at the top of the function,
                                              only when the body mutates it) updated by `++ [e]` / `erase` / `eraseIdx`
  if x is not None: A else: B              -> for a local known to hold an Optional (`opty`): `match x with
                                              | some x_some => A | none => B`, `x` narrowed to `x_some` inside A
  stmt_hook(s, rest, k, depth, st)         -> anything property specific (returns a Lean term or None)

Supported expressions (besides what `pyexpr` handles): names / attributes / calls mapped through `env`
(keys are `ast.unparse` texts), `None`, `True`/`False`, `x in y`, `x not in y`, `x is None`,
`x is not None`, `not`, `and`/`or`, list displays, list comprehensions with one generator,
`a + b` on lists (`++`, when `mode='list'` is given for the operands through `listy`), `xs[:]`, `list(xs)`,
attribute access on names listed in `records` (`c.name` -> `c.name`), method calls listed in `methods`
(`s.lower()` -> `(lower s)`), and a `hook(node, go)` for anything property specific.

Round 2 (all additive): set comprehensions / `set()` / `set(xs)` as lists -- a set-valued local may only be the
right operand of `in` / `not in` and the receiver of `.add` (anything else is Untranslatable); comprehensions with
several generators (`flatMap`); `any(...)` / `all(...)` over a generator; `next((x for x in E if C), None)` as
`find?` (an Optional); dict comprehensions as association lists whose only uses are `d.get(k)` (the *last* entry
with that key, an Optional) and `k in d`; attributes listed in `optlist_attrs` (Optional[List], e.g. a column's
`aliases`): the value is `(x.a.getD [])`, `x.a is None` is `(x.a = none)`, truthiness is non-emptiness;
`xs or ys` / `xs and ys` between two lists in value position (`if xs ≠ [] then xs else ys`).

Round 3 (additive): `for i in range(len(E)): … E[i] …` is read as `for i, i_item in enumerate(E)` with `E[i]` replaced by
`i_item` (refused when `E` is changed in the loop before a later `E[i]`, or changed at all in an accumulating loop);
a nested helper `def h(a, b): return <expr>` / `h = lambda a, b: <expr>` is inlined at its calls (its free names are
looked up at the call, as Python does; refused when a comprehension variable at the call site shadows one of them);
`X = e` on an attribute declared `mutable` (`self.columns = [c for c in self.columns if …]`) re-binds its local; a dict
local (comprehension, `{}`, `dict()`) also takes `d[k] = v` (the association list grows; `.get` reads the last entry)
and gives `d.values()` / `d.keys()` / `list(d)`: the keys in order of first insertion, each with its last value.
"""
import ast

from .pyexpr import BINOPS_INT, CMPOPS, Untranslatable


class Expr:
    """Expression translator with an environment; `hook(node, go)` may return a Lean term or None."""

    def __init__(self, env=None, records=(), methods=None, funcs=None, hook=None, listy=(), optlist_attrs=(), opt_hook=None):
        self.env = dict(env or {})
        self.records = set(records)      # python names whose attributes are Lean structure fields
        self.methods = dict(methods or {})  # method name -> lean function applied to the receiver
        self.funcs = dict(funcs or {})   # python function name -> lean function
        self.hook = hook
        self.listy = set(listy)          # unparse texts known to be lists (so `+` is `++`)
        self.bound = set()               # locally bound python names (loop variables, lets)
        self.optlist_attrs = set(optlist_attrs)  # attributes of records that hold Optional[List]
        self.opt_hook = opt_hook         # node -> bool: property specific Optional-valued expressions
        self.sety = set()                # locals holding a set (only `in`, `not in`, `.add`)
        self.dicty = set()               # locals holding a dict built by a comprehension (only `.get`, `in`)
        self.opty = set()                # locals holding an Optional value
        self.narrow = {}                 # python name -> Lean name of its payload inside `if x is not None`
        self.mutated = set()             # `mutable` attributes (unparse texts) changed so far on this path
        self.helpers = {}                # nested `def h(params): return expr` / `h = lambda …`: name -> (params, expr, free names)
        self.comp_bound = []             # names bound by the comprehensions / generator expressions being translated

    def typestate(self):
        return (set(self.bound), set(self.listy), set(self.sety), set(self.dicty), set(self.opty), dict(self.narrow), set(self.mutated))

    def restore(self, st):
        self.bound, self.listy, self.sety, self.dicty, self.opty, self.narrow, self.mutated = (
            set(st[0]), set(st[1]), set(st[2]), set(st[3]), set(st[4]), dict(st[5]), set(st[6]))

    def _optlist(self, n):
        return (isinstance(n, ast.Attribute) and n.attr in self.optlist_attrs and isinstance(n.value, ast.Name)
                and (n.value.id in self.records or n.value.id in self.bound) and ast.unparse(n) not in self.env)

    @staticmethod
    def _is_set_expr(n):
        return isinstance(n, ast.SetComp) or (isinstance(n, ast.Call) and isinstance(n.func, ast.Name) and n.func.id in ("set", "frozenset")
                                              and len(n.args) <= 1 and not n.keywords)

    def is_opt(self, n):
        """is the expression Optional-valued (None or a payload)?"""
        if isinstance(n, ast.Name):
            return n.id in self.opty and n.id not in self.narrow
        if isinstance(n, ast.Call) and isinstance(n.func, ast.Attribute) and n.func.attr == "get" and len(n.args) == 1 \
                and isinstance(n.func.value, ast.Name) and n.func.value.id in self.dicty:
            return True
        if isinstance(n, ast.Call) and isinstance(n.func, ast.Name) and n.func.id == "next" and len(n.args) == 2 \
                and isinstance(n.args[1], ast.Constant) and n.args[1].value is None:
            return True
        return bool(self.opt_hook and self.opt_hook(n))

    def container(self, n):
        """the right operand of `in` / `not in`"""
        if isinstance(n, ast.Name) and n.id in self.bound and n.id in self.sety:
            return n.id
        if isinstance(n, ast.Name) and n.id in self.bound and n.id in self.dicty:
            return "((%s).map (fun kv => kv.1))" % n.id
        return self.go(n)

    def comp(self, gens, elt, pair=None):
        """`[elt for … in … if … for … in …]` (also set / generator / dict comprehensions): map / filter / flatMap"""
        g = gens[0]
        if g.is_async:
            raise Untranslatable("async comprehension")
        it = self.go(g.iter)
        pat, names = self.pattern(g.target)
        saved = self.typestate()
        self.bound |= names
        self.comp_bound.append(names)
        for nm in names:
            self.sety.discard(nm), self.dicty.discard(nm), self.opty.discard(nm), self.narrow.pop(nm, None)
        try:
            src = it
            for c in g.ifs:
                src = "(%s).filter (fun %s => decide %s)" % (src, pat, self.cond(c))
            if len(gens) > 1:
                return "((%s).flatMap (fun %s => %s))" % (src, pat, self.comp(gens[1:], elt, pair))
            if pair is not None:
                return "((%s).map (fun %s => (%s, %s)))" % (src, pat, self.go(pair[0]), self.go(pair[1]))
            e = self.go(elt)
        finally:
            self.comp_bound.pop()
            self.restore(saved)
        if isinstance(elt, ast.Name) and elt.id in names and isinstance(g.target, ast.Name):
            return "(%s)" % src
        return "((%s).map (fun %s => %s))" % (src, pat, e)

    def is_list(self, n):
        return isinstance(n, (ast.List, ast.ListComp)) or ast.unparse(n) in self.listy or self._optlist(n) or (
            isinstance(n, ast.BinOp) and isinstance(n.op, ast.Add) and (self.is_list(n.left) or self.is_list(n.right)))

    def cond(self, n):
        """`n` in a boolean position (`if n`, `not n`, operand of and/or): Python truthiness for what is known to be a list"""
        if isinstance(n, ast.UnaryOp) and isinstance(n.op, ast.Not):
            return "(¬ %s)" % self.cond(n.operand)
        if isinstance(n, ast.BoolOp):
            j = " ∧ " if isinstance(n.op, ast.And) else " ∨ "
            return "(" + j.join(self.cond(v) for v in n.values) + ")"
        if self.is_list(n):
            return "(%s ≠ [])" % self.go(n)
        return self.go(n)

    def go(self, n):
        key = ast.unparse(n)
        if self.hook is not None:
            r = self.hook(n, self.go)
            if r is not None:
                return r
        if key in self.env and not (isinstance(n, ast.Name) and n.id in self.bound):
            return self.env[key]
        if isinstance(n, ast.Constant):
            if n.value is None:
                return "none"
            if n.value is True:
                return "true"
            if n.value is False:
                return "false"
            if isinstance(n.value, int):
                return "%d" % n.value if n.value >= 0 else "(%d)" % n.value
            if isinstance(n.value, str):
                from .extract import lean_str
                return lean_str(n.value)
            raise Untranslatable("constant %r" % (n.value,))
        if isinstance(n, ast.Name):
            if n.id in self.bound:
                if n.id in self.narrow:
                    return self.narrow[n.id]
                if n.id in self.sety or n.id in self.dicty:
                    raise Untranslatable("%s %s used other than by `in` / `.add` / `.get`" % ("set" if n.id in self.sety else "dict", n.id))
                return n.id
            raise Untranslatable("free name %s" % n.id)
        if self._optlist(n):
            return "(%s.%s.getD [])" % (self.go(n.value) if n.value.id in self.bound else self.env.get(n.value.id, n.value.id), n.attr)
        if isinstance(n, ast.Attribute):
            if isinstance(n.value, ast.Name) and (n.value.id in self.records or n.value.id in self.bound):
                # a field of a record: a declared record name, or any locally bound name (loop variables range over
                # lists of records; Lean's elaborator rejects the field if the value has no such field)
                return "%s.%s" % (self.go(n.value) if n.value.id in self.bound else self.env.get(n.value.id, n.value.id), n.attr)
            raise Untranslatable("attribute %s" % key)
        if isinstance(n, ast.List):
            return "[" + ", ".join(self.go(e) for e in n.elts) + "]"
        if isinstance(n, ast.Tuple):
            return "(" + ", ".join(self.go(e) for e in n.elts) + ")"
        if isinstance(n, (ast.ListComp, ast.SetComp)):
            return self.comp(n.generators, n.elt)
        if isinstance(n, ast.DictComp):
            return self.comp(n.generators, None, pair=(n.key, n.value))
        if isinstance(n, ast.Subscript) and isinstance(n.slice, ast.Slice) and n.slice.lower is None \
                and n.slice.upper is None and n.slice.step is None:
            return self.go(n.value)  # xs[:] -- a copy; values are immutable here
        if isinstance(n, ast.BinOp):
            if isinstance(n.op, ast.Add) and self.is_list(n):
                return "(%s ++ %s)" % (self.go(n.left), self.go(n.right))
            if type(n.op) in BINOPS_INT:
                if isinstance(n.op, ast.FloorDiv):
                    return "(Int.fdiv %s %s)" % (self.go(n.left), self.go(n.right))
                if isinstance(n.op, ast.Mod):
                    return "(Int.fmod %s %s)" % (self.go(n.left), self.go(n.right))
                return "(%s %s %s)" % (self.go(n.left), BINOPS_INT[type(n.op)], self.go(n.right))
            raise Untranslatable("operator %s" % type(n.op).__name__)
        if isinstance(n, ast.UnaryOp):
            if isinstance(n.op, ast.Not):
                return "(¬ %s)" % self.cond(n.operand)
            if isinstance(n.op, ast.USub):
                return "(-%s)" % self.go(n.operand)
            raise Untranslatable("unary %s" % type(n.op).__name__)
        if isinstance(n, ast.BoolOp) and len(n.values) == 2 and all(self.is_list(v) for v in n.values):
            # `xs or ys` / `xs and ys` as values: Python returns one of the operands, chosen by the emptiness of the first
            a, b = self.go(n.values[0]), self.go(n.values[1])
            return "(if %s ≠ [] then %s else %s)" % ((a, a, b) if isinstance(n.op, ast.Or) else (a, b, a))
        if isinstance(n, ast.BoolOp):
            j = " ∧ " if isinstance(n.op, ast.And) else " ∨ "
            return "(" + j.join(self.cond(v) for v in n.values) + ")"
        if isinstance(n, ast.Compare):
            parts, left = [], n.left
            for op, right in zip(n.ops, n.comparators):
                if isinstance(op, ast.In):
                    parts.append("(%s ∈ %s)" % (self.go(left), self.container(right)))
                elif isinstance(op, ast.NotIn):
                    parts.append("(%s ∉ %s)" % (self.go(left), self.container(right)))
                elif isinstance(op, (ast.Is, ast.IsNot)) and isinstance(right, ast.Constant) and right.value is None \
                        and self._optlist(left):
                    rec = self.go(left.value) if left.value.id in self.bound else self.env.get(left.value.id, left.value.id)
                    parts.append("(%s.%s %s none)" % (rec, left.attr, "=" if isinstance(op, ast.Is) else "≠"))
                elif isinstance(op, ast.Is) and isinstance(right, ast.Constant) and right.value is None:
                    parts.append("(%s = none)" % self.go(left))
                elif isinstance(op, ast.IsNot) and isinstance(right, ast.Constant) and right.value is None:
                    parts.append("(%s ≠ none)" % self.go(left))
                elif type(op) in CMPOPS:
                    parts.append("(%s %s %s)" % (self.go(left), CMPOPS[type(op)], self.go(right)))
                else:
                    raise Untranslatable("comparison %s" % type(op).__name__)
                left = right
            return parts[0] if len(parts) == 1 else "(" + " ∧ ".join(parts) + ")"
        if isinstance(n, ast.IfExp):
            return "(if %s then %s else %s)" % (self.cond(n.test), self.go(n.body), self.go(n.orelse))
        if isinstance(n, ast.Call) and not n.keywords:
            f = n.func
            if isinstance(f, ast.Name) and f.id in self.helpers and f.id not in self.funcs:
                return self.inline(f.id, n.args)
            if isinstance(f, ast.Name):
                if f.id in self.funcs:
                    return "(%s %s)" % (self.funcs[f.id], " ".join(self.go(a) for a in n.args))
                if f.id == "list" and len(n.args) == 1 and isinstance(n.args[0], ast.Name) and n.args[0].id in self.bound \
                        and n.args[0].id in self.dicty:
                    return "(((%s).map (fun kv => kv.1)).eraseDups)" % n.args[0].id
                if f.id == "list" and len(n.args) == 1:
                    return self.go(n.args[0])
                if f.id == "len" and len(n.args) == 1:
                    return "(%s).length" % self.go(n.args[0])
                if f.id in ("set", "frozenset") and len(n.args) <= 1:
                    return self.go(n.args[0]) if n.args else "[]"
                if f.id in ("any", "all") and len(n.args) == 1 and isinstance(n.args[0], (ast.GeneratorExp, ast.ListComp)) \
                        and len(n.args[0].generators) == 1:
                    g = n.args[0].generators[0]
                    src = self.comp([g], g.target) if isinstance(g.target, ast.Name) else None
                    if src is None:
                        raise Untranslatable("call %s" % key)
                    pat, names = self.pattern(g.target)
                    saved = self.typestate()
                    self.bound |= names
                    self.comp_bound.append(names)
                    try:
                        body = self.cond(n.args[0].elt)
                    finally:
                        self.comp_bound.pop()
                        self.restore(saved)
                    return "((%s).%s (fun %s => decide %s))" % (src, f.id, pat, body)
                if f.id == "next" and len(n.args) == 2 and isinstance(n.args[1], ast.Constant) and n.args[1].value is None \
                        and isinstance(n.args[0], ast.GeneratorExp) and len(n.args[0].generators) == 1 \
                        and isinstance(n.args[0].generators[0].target, ast.Name):
                    g = n.args[0].generators[0]
                    pat, names = self.pattern(g.target)
                    it = self.go(g.iter)
                    saved = self.typestate()
                    self.bound |= names
                    self.comp_bound.append(names)
                    try:
                        test = "(%s)" % " ∧ ".join(self.cond(c) for c in g.ifs) if g.ifs else None
                        e = self.go(n.args[0].elt)
                    finally:
                        self.comp_bound.pop()
                        self.restore(saved)
                    found = "((%s).find? (fun %s => decide %s))" % (it, pat, test) if test else "((%s).head?)" % it
                    if isinstance(n.args[0].elt, ast.Name) and n.args[0].elt.id in names:
                        return found
                    return "(%s.map (fun %s => %s))" % (found, pat, e)
            if isinstance(f, ast.Attribute) and f.attr in ("values", "keys") and not n.args and isinstance(f.value, ast.Name) \
                    and f.value.id in self.bound and f.value.id in self.dicty:
                # a dict keeps its keys in order of *first* insertion, each with the value stored *last*
                d = f.value.id
                keys = "(((%s).map (fun kv => kv.1)).eraseDups)" % d
                if f.attr == "keys":
                    return keys
                return "(%s.filterMap (fun k_ => (((%s).reverse).find? (fun kv => decide (kv.1 = k_))).map (fun kv => kv.2)))" % (keys, d)
            if isinstance(f, ast.Attribute) and f.attr == "get" and len(n.args) == 1 and isinstance(f.value, ast.Name) \
                    and f.value.id in self.bound and f.value.id in self.dicty:
                # a dict built by a comprehension: later entries overwrite earlier ones
                return "((((%s).reverse).find? (fun kv => decide (kv.1 = %s))).map (fun kv => kv.2))" % (f.value.id, self.go(n.args[0]))
            if isinstance(f, ast.Attribute) and f.attr in self.methods:
                return "(%s %s%s)" % (self.methods[f.attr], self.go(f.value), "".join(" " + self.go(a) for a in n.args))
            raise Untranslatable("call %s" % key)
        raise Untranslatable("%s: %s" % (type(n).__name__, key))

    def helper(self, name, params, expr):
        """register `def name(params): return expr` (or `name = lambda params: expr`)"""
        free = {n.id for n in ast.walk(expr) if isinstance(n, ast.Name) and isinstance(n.ctx, ast.Load)} - set(params)
        if any(isinstance(n, (ast.Yield, ast.YieldFrom, ast.Await, ast.NamedExpr, ast.Lambda)) for n in ast.walk(expr)):
            raise Untranslatable("helper %s: yield / await / := / lambda inside" % name)
        if name in free:
            raise Untranslatable("helper %s is recursive" % name)
        self.helpers[name] = (list(params), expr, free, [set(x) for x in self.comp_bound])

    def inline(self, name, args):
        """a call of a registered helper: its body with the parameters standing for the arguments.  Free names of the
        body are looked up *here*, which is what Python does (late binding) -- except that a comprehension variable is
        not visible to the helper, so a call under a comprehension that rebinds one of them is refused."""
        params, expr, free, comp_at_def = self.helpers[name]
        if len(args) != len(params) or any(isinstance(a, ast.Starred) for a in args):
            raise Untranslatable("call of helper %s with other than its %d positional arguments" % (name, len(params)))
        for names in self.comp_bound[len(comp_at_def):]:
            if names & free:
                raise Untranslatable("helper %s: %s is rebound by a comprehension at the call" % (name, sorted(names & free)[0]))
        terms = [self.go(a) for a in args]
        saved, saved_helpers = self.typestate(), dict(self.helpers)
        del self.helpers[name]
        lets = []
        try:
            for p, a, t in zip(params, args, terms):
                self.bound.add(p)
                self.sety.discard(p), self.dicty.discard(p), self.opty.discard(p), self.listy.discard(p)
                if isinstance(a, ast.Name) and t.isidentifier():
                    self.narrow[p] = t
                else:
                    self.narrow[p] = "%s_%s" % (name, p)
                    lets.append("let %s_%s := %s; " % (name, p, t))
                if self.is_list(a):
                    self.listy.add(p)
            body = self.go(expr)
        finally:
            self.helpers = saved_helpers
            self.restore(saved)
        return "(%s%s)" % ("".join(lets), body)

    def pattern(self, target):
        """A loop / comprehension target as a Lean lambda pattern; returns (text, bound python names)."""
        if isinstance(target, ast.Name):
            return target.id, {target.id}
        if isinstance(target, ast.Tuple) and all(isinstance(e, ast.Name) for e in target.elts):
            return "(" + ", ".join(e.id for e in target.elts) + ")", {e.id for e in target.elts}
        raise Untranslatable("loop target %s" % ast.unparse(target))


MUTATORS = ("append", "remove", "pop")


def _mutations(stmts, mutable):
    """keys of `mutable` (unparse texts of attributes) that the statements change through a list method"""
    out = []
    for s in stmts:
        for n in ast.walk(s):
            if isinstance(n, ast.Call) and isinstance(n.func, ast.Attribute) and ast.unparse(n.func.value) in (mutable or {}) \
                    and n.func.attr in MUTATORS + ("insert", "extend", "clear", "sort", "reverse", "__delitem__", "__setitem__"):
                if ast.unparse(n.func.value) not in out:
                    out.append(ast.unparse(n.func.value))
            elif isinstance(n, (ast.Delete, ast.Assign, ast.AugAssign)):
                tg = n.targets if not isinstance(n, ast.AugAssign) else [n.target]
                for t in tg:
                    base = t.value if isinstance(t, ast.Subscript) else t
                    if ast.unparse(base) in (mutable or {}) and ast.unparse(base) not in out:
                        out.append(ast.unparse(base))
    return out


def _assigned(stmts, mutable=None):
    """python names a block assigns, augments or appends to (in first-assignment order)."""
    out = []

    def add(n):
        if n not in out:
            out.append(n)

    for s in stmts:
        for n in ast.walk(s):
            if isinstance(n, ast.Assign):
                for t in n.targets:
                    if isinstance(t, ast.Name):
                        add(t.id)
                    elif isinstance(t, ast.Subscript) and isinstance(t.value, ast.Name):
                        add(t.value.id)      # d[k] = v changes d
                    elif ast.unparse(t) in (mutable or {}):
                        pass                 # re-binding a `mutable` attribute: added below with the other changes to it
                    else:
                        raise Untranslatable("assignment target %s" % ast.unparse(t))
            elif isinstance(n, ast.AugAssign):
                if isinstance(n.target, ast.Name):
                    add(n.target.id)
                else:
                    raise Untranslatable("assignment target %s" % ast.unparse(n.target))
            elif isinstance(n, ast.Expr) and isinstance(n.value, ast.Call) and isinstance(n.value.func, ast.Attribute) \
                    and n.value.func.attr in ("append", "add") and isinstance(n.value.func.value, ast.Name):
                add(n.value.func.value.id)
    for key in _mutations(stmts, mutable):
        add(mutable[key])
    return out


def _has(stmts, kinds):
    return any(isinstance(n, kinds) for s in stmts for n in ast.walk(s))


class Stmts:
    """Statement translator.  `ret(node_or_None, ex)` renders a returned value, `raise_(node, ex)` a raise."""

    def __init__(self, ex, ret=None, raise_=None, indent="  ", stmt_hook=None, mutable=None, fold_redex=False):
        self.ex = ex
        self.ret = ret or (lambda v, ex: "none" if v is None else ex.go(v))
        self.raise_ = raise_
        self.ind = indent
        self.stmt_hook = stmt_hook       # (s, rest, k, depth, self) -> Lean term or None
        self.mutable = dict(mutable or {})  # unparse text of an attribute -> Lean local holding its current value
        self.loop_k = []                 # continuation of the enclosing accumulating loops (for `continue`)
        self.fold_redex = fold_redex     # single-variable loops as `(fun l i f => List.foldl f i l) E x (fun x pat => …)`

    def _mutation(self, s):
        """`X.append(e)` / `X.remove(e)` / `X.pop(i)` as a statement on a `mutable` attribute -> (key, new value)"""
        if not (isinstance(s, ast.Expr) and isinstance(s.value, ast.Call) and isinstance(s.value.func, ast.Attribute)):
            return None
        c = s.value
        key = ast.unparse(c.func.value)
        if key not in self.mutable or c.keywords:
            return None
        var = self.mutable[key]
        if var not in self.ex.bound:
            raise Untranslatable("%s is changed but was not made a local" % key)
        if c.func.attr == "append" and len(c.args) == 1:
            return key, "(%s ++ [%s])" % (var, self.ex.go(c.args[0]))
        if c.func.attr == "remove" and len(c.args) == 1:
            if self.ex.is_opt(c.args[0]):
                raise Untranslatable("remove(<Optional>)")
            return key, "((%s).erase %s)" % (var, self.ex.go(c.args[0]))
        if c.func.attr == "pop" and len(c.args) == 1:
            return key, "((%s).eraseIdx %s)" % (var, self.ex.go(c.args[0]))
        raise Untranslatable("mutation %s" % ast.unparse(s)[:60])

    @staticmethod
    def _helper_def(s):
        """`def h(a, b): return <expr>` / `h = lambda a, b: <expr>` -> (name, params, expr); else None"""
        def plain(a):
            return not (a.vararg or a.kwarg or a.kwonlyargs or a.defaults or a.kw_defaults or getattr(a, "posonlyargs", None))
        if isinstance(s, ast.FunctionDef) and not s.decorator_list and plain(s.args):
            def expr_of(stmts):
                """`if c: return a` … `return b` as the conditional expression it computes"""
                stmts = [b for b in stmts if not (isinstance(b, ast.Expr) and isinstance(b.value, ast.Constant)) and not isinstance(b, ast.Pass)]
                if not stmts:
                    return ast.Constant(value=None)
                b = stmts[0]
                if isinstance(b, ast.Return):
                    return b.value if b.value is not None else ast.Constant(value=None)
                if isinstance(b, ast.If):
                    x, y = expr_of(list(b.body) + stmts[1:]), expr_of(list(b.orelse) + stmts[1:])
                    return None if x is None or y is None else ast.IfExp(test=b.test, body=x, orelse=y)
                return None
            e = expr_of(s.body)
            if e is not None and not isinstance(e, ast.Constant):
                return s.name, [a.arg for a in s.args.args], e
            return None
        if isinstance(s, ast.Assign) and len(s.targets) == 1 and isinstance(s.targets[0], ast.Name) and isinstance(s.value, ast.Lambda) \
                and plain(s.value.args):
            return s.targets[0].id, [a.arg for a in s.value.args.args], s.value.body
        return None

    def block(self, stmts, k, depth=1):
        """Lean term for the statement list; `k` is the term for falling off its end."""
        pad = self.ind * depth
        if not stmts:
            return k
        s, rest = stmts[0], stmts[1:]
        ex = self.ex
        if self.stmt_hook is not None:
            r = self.stmt_hook(s, rest, k, depth, self)
            if r is not None:
                return r
        if isinstance(s, ast.Pass) or isinstance(s, ast.Assert) or (isinstance(s, ast.Expr) and isinstance(s.value, ast.Constant)):
            return self.block(rest, k, depth)
        if isinstance(s, ast.Return):
            return self.ret(s.value, ex)
        hp = self._helper_def(s)
        if hp is not None:
            saved_helpers = dict(ex.helpers)
            ex.helper(*hp)
            try:
                return self.block(rest, k, depth)
            finally:
                ex.helpers = saved_helpers
        if isinstance(s, ast.Continue) and self.loop_k:
            return self.loop_k[-1]
        m = self._mutation(s)
        if m is not None:
            key, v = m
            saved = ex.typestate()
            ex.mutated.add(key)
            try:
                body = self.block(rest, k, depth)
            finally:
                ex.restore(saved)
            return "let %s := %s\n%s%s" % (self.mutable[key], v, pad, body)
        if isinstance(s, ast.Raise):
            if self.raise_ is None:
                raise Untranslatable("raise")
            return self.raise_(s, ex)
        if isinstance(s, ast.Assign) and len(s.targets) == 1 and ast.unparse(s.targets[0]) in self.mutable \
                and self.mutable[ast.unparse(s.targets[0])] in ex.bound:
            # X = e on a `mutable` attribute: its local is re-bound (the old list object is no longer the attribute)
            key = ast.unparse(s.targets[0])
            v = ex.go(s.value)
            saved = ex.typestate()
            ex.mutated.add(key)
            try:
                body = self.block(rest, k, depth)
            finally:
                ex.restore(saved)
            return "let %s := %s\n%s%s" % (self.mutable[key], v, pad, body)
        if isinstance(s, ast.Assign) and len(s.targets) == 1 and isinstance(s.targets[0], ast.Subscript) \
                and isinstance(s.targets[0].value, ast.Name) and s.targets[0].value.id in ex.bound and s.targets[0].value.id in ex.dicty \
                and not isinstance(s.targets[0].slice, ast.Slice):
            d = s.targets[0].value.id
            return "let %s := (%s ++ [(%s, %s)])\n%s%s" % (d, d, ex.go(s.targets[0].slice), ex.go(s.value), pad, self.block(rest, k, depth))
        if isinstance(s, ast.Assign) and len(s.targets) == 1 and isinstance(s.targets[0], ast.Name):
            empty_dict = (isinstance(s.value, ast.Dict) and not s.value.keys) or (
                isinstance(s.value, ast.Call) and isinstance(s.value.func, ast.Name) and s.value.func.id == "dict" and not s.value.args
                and not s.value.keywords)
            v = "[]" if empty_dict else ex.go(s.value)
            name = s.targets[0].id
            was_list = ex.is_list(s.value)
            is_set, is_dict, is_opt = ex._is_set_expr(s.value), isinstance(s.value, ast.DictComp) or empty_dict, ex.is_opt(s.value)
            saved = ex.typestate()
            ex.bound.add(name)
            ex.listy.discard(name), ex.sety.discard(name), ex.dicty.discard(name), ex.opty.discard(name), ex.narrow.pop(name, None)
            if was_list:
                ex.listy.add(name)
            if is_set:
                ex.sety.add(name)
            if is_dict:
                ex.dicty.add(name)
            if is_opt:
                ex.opty.add(name)
            try:
                body = self.block(rest, k, depth)
            finally:
                ex.restore(saved)
            return "let %s := %s\n%s%s" % (name, v, pad, body)
        if isinstance(s, ast.Assign) and len(s.targets) == 1 and isinstance(s.targets[0], ast.Attribute) \
                and isinstance(s.targets[0].value, ast.Name) and s.targets[0].value.id in ex.bound:
            t = s.targets[0]
            return "let %s := { %s with %s := %s }\n%s%s" % (t.value.id, t.value.id, t.attr, ex.go(s.value), pad, self.block(rest, k, depth))
        if isinstance(s, ast.AugAssign) and isinstance(s.target, ast.Name):
            return self.block([ast.Assign(targets=[s.target], value=ast.BinOp(left=s.target, op=s.op, right=s.value))] + rest, k, depth)
        if isinstance(s, ast.Expr) and isinstance(s.value, ast.Call) and isinstance(s.value.func, ast.Attribute) \
                and s.value.func.attr == "append" and isinstance(s.value.func.value, ast.Name) and len(s.value.args) == 1:
            tgt = s.value.func.value
            if tgt.id not in ex.bound:
                raise Untranslatable("append to %s, which is not a local" % tgt.id)
            v = "(%s ++ [%s])" % (ex.go(tgt), ex.go(s.value.args[0]))
            return "let %s := %s\n%s%s" % (tgt.id, v, pad, self.block(rest, k, depth))
        if isinstance(s, ast.Expr) and isinstance(s.value, ast.Call) and isinstance(s.value.func, ast.Attribute) \
                and s.value.func.attr == "add" and isinstance(s.value.func.value, ast.Name) and len(s.value.args) == 1 \
                and s.value.func.value.id in ex.bound and s.value.func.value.id in ex.sety:
            tgt = s.value.func.value.id
            return "let %s := (%s ++ [%s])\n%s%s" % (tgt, tgt, ex.go(s.value.args[0]), pad, self.block(rest, k, depth))
        if isinstance(s, ast.If) and isinstance(s.test, ast.Compare) and len(s.test.ops) == 1 and isinstance(s.test.left, ast.Name) \
                and isinstance(s.test.ops[0], (ast.Is, ast.IsNot)) and isinstance(s.test.comparators[0], ast.Constant) \
                and s.test.comparators[0].value is None and ex.is_opt(s.test.left) and s.test.left.id in ex.bound:
            # narrowing: inside the branch where the Optional is not None its name denotes the payload
            x = s.test.left.id
            some_b, none_b = (s.body, s.orelse) if isinstance(s.test.ops[0], ast.IsNot) else (s.orelse, s.body)

            def tail(extra_mutated):
                saved = ex.typestate()
                ex.mutated |= set(extra_mutated)
                try:
                    return self.block(rest, k, depth + 1)
                finally:
                    ex.restore(saved)

            for br in (some_b, none_b):
                late = [v for v in _assigned(list(br), self.mutable) if v not in ex.bound and v not in self.mutable.values()]
                if late and rest:
                    raise Untranslatable("%s is first assigned inside `if %s is (not) None`" % (late[0], x))
            def ends(br):
                return bool(br) and isinstance(br[-1], (ast.Return, ast.Raise))

            saved = ex.typestate()
            ex.narrow[x] = x + "_some"
            try:
                if ends(none_b) and not ends(some_b):
                    # `if x is None: return …` -- what follows runs only with the payload present
                    a = self.block(list(some_b) + rest, k, depth + 1)
                else:
                    a = self.block(list(some_b), "" if ends(some_b) else tail(_mutations(list(some_b), self.mutable)), depth + 1)
            finally:
                ex.restore(saved)
            b = self.block(list(none_b), "" if ends(none_b) else tail(_mutations(list(none_b), self.mutable)), depth + 1)
            return "match %s with\n%s| some %s_some =>\n%s%s%s\n%s| none =>\n%s%s%s" % (x, pad, x, pad, self.ind, a, pad, pad, self.ind, b)
        if isinstance(s, ast.If):
            t = ex.cond(s.test)
            a = self.block(list(s.body) + rest, k, depth + 1)
            b = self.block(list(s.orelse) + rest, k, depth + 1)
            return "if %s then\n%s%s%s\n%selse\n%s%s%s" % (t, pad, self.ind, a, pad, pad, self.ind, b)
        if isinstance(s, ast.For) and not s.orelse:
            return self.for_(s, rest, k, depth)
        raise Untranslatable("statement %s: %s" % (type(s).__name__, ast.unparse(s)[:60]))

    def _range_len(self, s):
        """`for i in range(len(E)): … E[i] …`  ->  `for i, i_item in enumerate(E): … i_item …` (None if not that shape)"""
        it = s.iter
        if not (isinstance(it, ast.Call) and isinstance(it.func, ast.Name) and it.func.id == "range" and len(it.args) == 1 and not it.keywords
                and isinstance(it.args[0], ast.Call) and isinstance(it.args[0].func, ast.Name) and it.args[0].func.id == "len"
                and len(it.args[0].args) == 1 and not it.args[0].keywords and isinstance(s.target, ast.Name)):
            return None
        E = it.args[0].args[0]
        if not isinstance(E, (ast.Name, ast.Attribute)):
            raise Untranslatable("range(len(%s))" % ast.unparse(E)[:40])
        key, i = ast.unparse(E), s.target.id
        item = i + "_item"
        if any(isinstance(n, ast.Name) and n.id == item for b in s.body for n in ast.walk(b)) or item in self.ex.bound:
            raise Untranslatable("%s is taken" % item)
        for b in s.body:
            for n in ast.walk(b):
                if isinstance(n, (ast.Assign, ast.AugAssign, ast.For, ast.comprehension, ast.NamedExpr)):
                    tg = n.targets if isinstance(n, ast.Assign) else [n.target]
                    for t in tg:
                        if any(isinstance(m, ast.Name) and m.id == i for m in ast.walk(t)) or ast.unparse(t) == key:
                            raise Untranslatable("%s / %s is reassigned inside the loop" % (i, key))
        # E changed in the loop: only ahead of a return (first-match shapes), and no E[i] may be read after the change
        muts = [n for b in s.body for n in ast.walk(b)
                if isinstance(n, ast.Call) and isinstance(n.func, ast.Attribute) and ast.unparse(n.func.value) == key
                and n.func.attr not in ("index", "count", "copy")]
        dels = [n for b in s.body for n in ast.walk(b) if isinstance(n, ast.Delete) or (
            isinstance(n, (ast.Assign, ast.AugAssign)) and any(isinstance(t, ast.Subscript) and ast.unparse(t.value) == key
                                                              for t in (n.targets if isinstance(n, ast.Assign) else [n.target])))]
        if dels:
            raise Untranslatable("%s is changed by del / item assignment inside the loop" % key)
        uses = [n for b in s.body for n in ast.walk(b)
                if isinstance(n, ast.Subscript) and ast.unparse(n.value) == key and isinstance(n.slice, ast.Name) and n.slice.id == i]
        if muts:
            body = [b for b in s.body if not (isinstance(b, ast.Expr) and isinstance(b.value, ast.Constant))]
            first_match = len(body) == 1 and isinstance(body[0], ast.If) and not body[0].orelse and isinstance(body[0].body[-1], ast.Return)
            if not first_match:
                raise Untranslatable("%s is changed inside a loop over range(len(%s))" % (key, key))
            end = min((m.end_lineno, m.end_col_offset) for m in muts)
            if any((u.lineno, u.col_offset) >= end for u in uses):
                raise Untranslatable("%s[%s] is read after %s was changed" % (key, i, key))

        class Sub(ast.NodeTransformer):
            def visit_Subscript(self, n):
                if ast.unparse(n.value) == key and isinstance(n.slice, ast.Name) and n.slice.id == i and isinstance(n.ctx, ast.Load):
                    return ast.copy_location(ast.Name(id=item, ctx=ast.Load()), n)
                return self.generic_visit(n)

        import copy
        new = copy.deepcopy(s)
        new.body = [Sub().visit(b) for b in new.body]
        new.target = ast.Tuple(elts=[ast.Name(id=i, ctx=ast.Store()), ast.Name(id=item, ctx=ast.Store())], ctx=ast.Store())
        new.iter = ast.Call(func=ast.Name(id="enumerate", ctx=ast.Load()), args=[E], keywords=[])
        return new

    def for_(self, s, rest, k, depth):
        ex = self.ex
        pad = self.ind * depth
        rl = self._range_len(s)
        if rl is not None:
            s = rl
        it = s.iter
        enum = isinstance(it, ast.Call) and isinstance(it.func, ast.Name) and it.func.id == "enumerate" and len(it.args) == 1
        if enum:
            if not (isinstance(s.target, ast.Tuple) and len(s.target.elts) == 2 and all(isinstance(e, ast.Name) for e in s.target.elts)):
                raise Untranslatable("enumerate target")
            i, x = s.target.elts[0].id, s.target.elts[1].id
            src = "(%s).zipIdx" % ex.go(it.args[0])
            pat, names = "(%s, %s)" % (x, i), {i, x}
        else:
            src = ex.go(it)
            pat, names = ex.pattern(s.target)
        body = [b for b in s.body if not (isinstance(b, ast.Expr) and isinstance(b.value, ast.Constant))]
        # shape 1: first match returns
        if len(body) == 1 and isinstance(body[0], ast.If) and not body[0].orelse and len(body[0].body) == 1 \
                and isinstance(body[0].body[0], ast.Return):
            saved = ex.typestate()
            ex.bound |= names
            try:
                test = ex.cond(body[0].test)
                r = self.ret(body[0].body[0].value, ex)
            finally:
                ex.restore(saved)
            tail = self.block(rest, k, depth + 1)
            return ("match (%s).find? (fun %s => decide %s) with\n%s| some %s => %s\n%s| none =>\n%s%s%s"
                    % (src, pat, test, pad, pat, r, pad, pad, self.ind, tail))
        # shape 1'': a few loop-local assignments, then `if C: … return R` (the names must not be read after the loop)
        lets_ = []
        while len(body) - len(lets_) > 1 and isinstance(body[len(lets_)], ast.Assign) and len(body[len(lets_)].targets) == 1 \
                and isinstance(body[len(lets_)].targets[0], ast.Name) and not isinstance(body[len(lets_)].value, ast.Lambda):
            lets_.append(body[len(lets_)])
        last = body[len(lets_)] if len(body) - len(lets_) == 1 else None
        if lets_ and isinstance(last, ast.If) and not last.orelse and isinstance(last.body[-1], ast.Return) \
                and not _has(last.body, (ast.Break, ast.Continue, ast.For, ast.While)) \
                and sum(isinstance(n, ast.Return) for b in last.body for n in ast.walk(b)) == 1:
            local = [a.targets[0].id for a in lets_]
            if any(isinstance(n, ast.Name) and n.id in local for r_ in rest for n in ast.walk(r_)) or set(local) & names:
                raise Untranslatable("%s is assigned in the loop and used after it" % local[0])
            saved = ex.typestate()
            ex.bound |= names
            try:
                chain = []
                for a in lets_:
                    v = ex.go(a.value)
                    nm = a.targets[0].id
                    was_list = ex.is_list(a.value)
                    if ex._is_set_expr(a.value) or isinstance(a.value, (ast.DictComp, ast.Dict)) or ex.is_opt(a.value):
                        raise Untranslatable("loop-local %s holds a set / dict / Optional" % nm)
                    ex.bound.add(nm)
                    ex.listy.discard(nm), ex.sety.discard(nm), ex.dicty.discard(nm), ex.opty.discard(nm), ex.narrow.pop(nm, None)
                    if was_list:
                        ex.listy.add(nm)
                    chain.append((nm, v))
                test = ex.cond(last.test)
                r = self.block(list(last.body), k, depth + 1)
            finally:
                ex.restore(saved)
            tail = self.block(rest, k, depth + 1)
            inline = "".join("let %s := %s; " % c for c in chain)
            again = "".join("let %s := %s\n%s%s" % (c[0], c[1], pad, self.ind) for c in chain)
            return ("match (%s).find? (fun %s => (%sdecide %s)) with\n%s| some %s =>\n%s%s%s%s\n%s| none =>\n%s%s%s"
                    % (src, pat, inline, test, pad, pat, pad, self.ind, again, r, pad, pad, self.ind, tail))
        # shape 1': the first match runs a few statements and returns
        if len(body) == 1 and isinstance(body[0], ast.If) and not body[0].orelse and isinstance(body[0].body[-1], ast.Return) \
                and not _has(body[0].body, (ast.Break, ast.Continue, ast.For, ast.While)) \
                and sum(isinstance(n, ast.Return) for b in body[0].body for n in ast.walk(b)) == 1:
            saved = ex.typestate()
            ex.bound |= names
            try:
                test = ex.cond(body[0].test)
                r = self.block(list(body[0].body), k, depth + 1)
            finally:
                ex.restore(saved)
            tail = self.block(rest, k, depth + 1)
            return ("match (%s).find? (fun %s => decide %s) with\n%s| some %s =>\n%s%s%s\n%s| none =>\n%s%s%s"
                    % (src, pat, test, pad, pat, pad, self.ind, r, pad, pad, self.ind, tail))
        # shape 2: a fold over the variables the body assigns
        if _has(body, (ast.Return, ast.Break, ast.Raise, ast.For, ast.While)):
            raise Untranslatable("loop body with return/break/raise/nested loop")
        state = _assigned(body, self.mutable)
        for v in state:
            if v not in ex.bound:
                raise Untranslatable("loop assigns %s, which is not defined before the loop" % v)
        if not state:
            raise Untranslatable("loop without effect")
        tup = state[0] if len(state) == 1 else "(" + ", ".join(state) + ")"
        saved = ex.typestate()
        ex.bound |= names
        self.loop_k.append(tup)
        try:
            step = self.block(body, tup, depth + 2)
        finally:
            self.loop_k.pop()
            ex.restore(saved)
        saved = ex.typestate()
        ex.mutated |= set(_mutations(body, self.mutable))
        try:
            tail = self.block(rest, k, depth)
        finally:
            ex.restore(saved)
        if len(state) == 1 and self.fold_redex:
            # with a single loop variable Lean elaborates the step function before it knows the element type (a test on
            # the element gives `typeclass instance problem is stuck`); a beta-redex puts the list and the initial value
            # first.  Opt-in (`fold_redex=True`), so translations pinned by other users keep their text.
            return ("let %s := (fun l i f => List.foldl f i l) (%s) %s (fun %s %s =>\n%s%s%s%s)\n%s%s"
                    % (tup, src, tup, tup, pat, pad, self.ind, self.ind, step, pad, tail))
        return ("let %s := (%s).foldl (fun %s %s =>\n%s%s%s%s) %s\n%s%s"
                % (tup, src, tup, pat, pad, self.ind, self.ind, step, tup, pad, tail))


def function(fn, name, params, ret_type, ex, ret=None, raise_=None, k="none", binders="", stmt_hook=None, mutable=None,
             fold_redex=False):
    """A Lean `def` for the python FunctionDef `fn`.  `params`: list of (python name or None, lean binder text);
    python names are bound in the expression translator.  `mutable`: {unparse text of an attribute: Lean local}; an
    attribute the body changes in place becomes that local (initialised from `ex.env`), which `ret` / `k` may mention
    through `ex.env` (a callable `k` is called with `ex` once the locals are set up)."""
    st = Stmts(ex, ret=ret, raise_=raise_, stmt_hook=stmt_hook, mutable=mutable, fold_redex=fold_redex)
    saved, saved_env, saved_listy = ex.typestate(), dict(ex.env), set(ex.listy)
    for p, _ in params:
        if p:
            ex.bound.add(p)
    try:
        lets = ""
        for key in _mutations(list(fn.body), mutable):
            var = mutable[key]
            if key not in ex.env:
                raise Untranslatable("mutable %s has no initial value" % key)
            lets += "let %s := %s\n  " % (var, ex.env[key])
            ex.env[key] = var
            ex.bound.add(var)
        body = st.block(list(fn.body), k(ex) if callable(k) else k, 1)
    finally:
        ex.restore(saved)
        ex.env, ex.listy = saved_env, saved_listy
    sig = " ".join(b for _, b in params)
    return "def %s %s%s : %s :=\n  %s%s\n" % (name, (binders + " ") if binders else "", sig, ret_type, lets, body)


def generator_as_list(gen_fn, ex):
    """A nested generator function of the shape `for x in E: yield from F` / `yield F` as the list it produces."""
    body = [b for b in gen_fn.body if not (isinstance(b, ast.Expr) and isinstance(b.value, ast.Constant))]
    if len(body) != 1 or not isinstance(body[0], ast.For) or body[0].orelse or len(body[0].body) != 1:
        raise Untranslatable("generator shape")
    loop = body[0]
    inner = loop.body[0]
    if not (isinstance(inner, ast.Expr) and isinstance(inner.value, (ast.Yield, ast.YieldFrom))):
        raise Untranslatable("generator body")
    src = ex.go(loop.iter)
    pat, names = ex.pattern(loop.target)
    saved = set(ex.bound)
    ex.bound |= names
    try:
        e = ex.go(inner.value.value)
    finally:
        ex.bound = saved
    if isinstance(inner.value, ast.YieldFrom):
        return "((%s).flatMap (fun %s => %s))" % (src, pat, e)
    return "((%s).map (fun %s => %s))" % (src, pat, e)


def compile_checked(header, parts, footer, pinned, lean_dir, cache_name):
    """Join translated definitions into a Lean file, making sure it elaborates.

    `parts`: list of (key, text).  A translation that does not elaborate (the translator's picture of the
    Python types is wrong for this code) is a shape the translator does not understand: the pinned text of
    that definition is used instead and the key is returned among `degraded`.  The check runs only when
    the text differs from the last text that elaborated (hash kept under .lake), so unchanged sources cost nothing."""
    import hashlib
    import os
    import subprocess
    import tempfile

    def join(ps):
        return header + "\n".join(t for _, t in ps) + footer

    def ok(text):
        h = hashlib.sha256(text.encode()).hexdigest()
        cache = os.path.join(lean_dir, ".lake", cache_name + ".okhash")
        try:
            if h in open(cache).read().split():
                return True
        except OSError:
            pass
        os.makedirs(os.path.join(lean_dir, ".lake"), exist_ok=True)
        with tempfile.NamedTemporaryFile("w", suffix=".lean", dir=os.path.join(lean_dir, ".lake"), delete=False) as f:
            f.write(text)
            tmp = f.name
        try:
            p = subprocess.run(["lake", "env", "lean", tmp], cwd=lean_dir, capture_output=True, text=True, timeout=600)
            good = p.returncode == 0 and "error" not in p.stdout
        except Exception:
            good = False
        finally:
            os.unlink(tmp)
        if good:
            with open(cache, "a") as f:
                f.write(h + "\n")
        return good

    parts = list(parts)
    degraded = []
    if ok(join(parts)):
        return join(parts), degraded
    for i, (key, text) in enumerate(parts):
        if key in pinned and pinned[key] != text:
            trial = parts[:i] + [(key, pinned[key])] + parts[i + 1:]
            if ok(join(trial)):
                return join(trial), [key]
    # several at once: fall back to every pinned text that differs
    allp = [(k, pinned.get(k, t)) for k, t in parts]
    degraded = [k for (k, t), (_, t2) in zip(parts, allp) if t != t2]
    return join(allp), degraded
