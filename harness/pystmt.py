"""Python function body -> Lean definition (statement-level translator; DESIGN.md §14.5).

`pyexpr.py` lifts single expressions out of the source.  This module lifts *whole small functions*: the
control flow (assignments, `if/elif/else`, early `return`, `raise`, `for` loops of the two shapes that
occur in orso's pure cores) is translated mechanically, so the Lean definition under `Gen.*` is what the
working tree says now; a hand-written model is then tied to it by an *equivalence theorem*
(`Gen.f = Model.f`, proved once, re-checked on every run).  A change of the source that changes the
function's meaning breaks that theorem (and the correspondence finds the failing input); a shape the
translator does not know raises `Untranslatable`, and the extractor degrades to the pinned text.

Supported statements
  x = e / x op= e / x.append(e)            -> `let x := …`
  if / elif / else                         -> `if … then … else …` (the rest of the block is continued in
                                              both branches, so early returns need no special casing)
  return e / return                        -> the value, through the `ret` callback
  raise E(...)                             -> the `raise_` callback (e.g. an `Except` error value)
  for x in E: if C: return R               -> `match (E).find? (fun x => decide C) with | some x => R | none => rest`
  for i, x in enumerate(E): if C: return R -> the same over `(E).zipIdx` (pairs `(x, i)`)
  for x in E: <assignments / appends / ifs without return> -> `List.foldl` over the tuple of variables the
                                              body assigns (they must be defined before the loop)
  pass, docstrings, assert                 -> skipped

Supported expressions (besides what `pyexpr` handles): names / attributes / calls mapped through `env`
(keys are `ast.unparse` texts), `None`, `True`/`False`, `x in y`, `x not in y`, `x is None`,
`x is not None`, `not`, `and`/`or`, list displays, list comprehensions with one generator,
`a + b` on lists (`++`, when `mode='list'` is given for the operands through `listy`), `xs[:]`, `list(xs)`,
attribute access on names listed in `records` (`c.name` -> `c.name`), method calls listed in `methods`
(`s.lower()` -> `(lower s)`), and a `hook(node, go)` for anything property specific.
"""
import ast

from .pyexpr import BINOPS_INT, CMPOPS, Untranslatable


class Expr:
    """Expression translator with an environment; `hook(node, go)` may return a Lean term or None."""

    def __init__(self, env=None, records=(), methods=None, funcs=None, hook=None, listy=()):
        self.env = dict(env or {})
        self.records = set(records)      # python names whose attributes are Lean structure fields
        self.methods = dict(methods or {})  # method name -> lean function applied to the receiver
        self.funcs = dict(funcs or {})   # python function name -> lean function
        self.hook = hook
        self.listy = set(listy)          # unparse texts known to be lists (so `+` is `++`)
        self.bound = set()               # locally bound python names (loop variables, lets)

    def is_list(self, n):
        return isinstance(n, (ast.List, ast.ListComp)) or ast.unparse(n) in self.listy or (
            isinstance(n, ast.BinOp) and isinstance(n.op, ast.Add) and (self.is_list(n.left) or self.is_list(n.right)))

    def cond(self, n):
        """`n` in a boolean position (`if n`, `not n`, operand of and/or): Python truthiness for what is known to be a list"""
        if isinstance(n, ast.UnaryOp) and isinstance(n.op, ast.Not):
            return "(¬ %s)" % self.cond(n.operand)
        if isinstance(n, ast.BoolOp):
            j = " ∧ " if isinstance(n.op, ast.And) else " ∨ "
            return "(" + j.join(self.cond(v) for v in n.values) + ")"
        if self.is_list(n):
            return "(%s ≠ [])" % self.go(n)
        return self.go(n)

    def go(self, n):
        key = ast.unparse(n)
        if self.hook is not None:
            r = self.hook(n, self.go)
            if r is not None:
                return r
        if key in self.env and not (isinstance(n, ast.Name) and n.id in self.bound):
            return self.env[key]
        if isinstance(n, ast.Constant):
            if n.value is None:
                return "none"
            if n.value is True:
                return "true"
            if n.value is False:
                return "false"
            if isinstance(n.value, int):
                return "%d" % n.value if n.value >= 0 else "(%d)" % n.value
            if isinstance(n.value, str):
                from .extract import lean_str
                return lean_str(n.value)
            raise Untranslatable("constant %r" % (n.value,))
        if isinstance(n, ast.Name):
            if n.id in self.bound:
                return n.id
            raise Untranslatable("free name %s" % n.id)
        if isinstance(n, ast.Attribute):
            if isinstance(n.value, ast.Name) and (n.value.id in self.records or n.value.id in self.bound):
                # a field of a record: a declared record name, or any locally bound name (loop variables range over
                # lists of records; Lean's elaborator rejects the field if the value has no such field)
                return "%s.%s" % (self.go(n.value) if n.value.id in self.bound else self.env.get(n.value.id, n.value.id), n.attr)
            raise Untranslatable("attribute %s" % key)
        if isinstance(n, ast.List):
            return "[" + ", ".join(self.go(e) for e in n.elts) + "]"
        if isinstance(n, ast.Tuple):
            return "(" + ", ".join(self.go(e) for e in n.elts) + ")"
        if isinstance(n, ast.ListComp) and len(n.generators) == 1 and not n.generators[0].is_async:
            g = n.generators[0]
            it = self.go(g.iter)
            pat, names = self.pattern(g.target)
            saved = set(self.bound)
            self.bound |= names
            try:
                src = it
                for c in g.ifs:
                    src = "(%s).filter (fun %s => decide %s)" % (src, pat, self.cond(c))
                elt = self.go(n.elt)
            finally:
                self.bound = saved
            if isinstance(n.elt, ast.Name) and n.elt.id in names and isinstance(g.target, ast.Name):
                return "(%s)" % src
            return "((%s).map (fun %s => %s))" % (src, pat, elt)
        if isinstance(n, ast.Subscript) and isinstance(n.slice, ast.Slice) and n.slice.lower is None \
                and n.slice.upper is None and n.slice.step is None:
            return self.go(n.value)  # xs[:] -- a copy; values are immutable here
        if isinstance(n, ast.BinOp):
            if isinstance(n.op, ast.Add) and self.is_list(n):
                return "(%s ++ %s)" % (self.go(n.left), self.go(n.right))
            if type(n.op) in BINOPS_INT:
                if isinstance(n.op, ast.FloorDiv):
                    return "(Int.fdiv %s %s)" % (self.go(n.left), self.go(n.right))
                if isinstance(n.op, ast.Mod):
                    return "(Int.fmod %s %s)" % (self.go(n.left), self.go(n.right))
                return "(%s %s %s)" % (self.go(n.left), BINOPS_INT[type(n.op)], self.go(n.right))
            raise Untranslatable("operator %s" % type(n.op).__name__)
        if isinstance(n, ast.UnaryOp):
            if isinstance(n.op, ast.Not):
                return "(¬ %s)" % self.cond(n.operand)
            if isinstance(n.op, ast.USub):
                return "(-%s)" % self.go(n.operand)
            raise Untranslatable("unary %s" % type(n.op).__name__)
        if isinstance(n, ast.BoolOp):
            j = " ∧ " if isinstance(n.op, ast.And) else " ∨ "
            return "(" + j.join(self.cond(v) for v in n.values) + ")"
        if isinstance(n, ast.Compare):
            parts, left = [], n.left
            for op, right in zip(n.ops, n.comparators):
                if isinstance(op, ast.In):
                    parts.append("(%s ∈ %s)" % (self.go(left), self.go(right)))
                elif isinstance(op, ast.NotIn):
                    parts.append("(%s ∉ %s)" % (self.go(left), self.go(right)))
                elif isinstance(op, ast.Is) and isinstance(right, ast.Constant) and right.value is None:
                    parts.append("(%s = none)" % self.go(left))
                elif isinstance(op, ast.IsNot) and isinstance(right, ast.Constant) and right.value is None:
                    parts.append("(%s ≠ none)" % self.go(left))
                elif type(op) in CMPOPS:
                    parts.append("(%s %s %s)" % (self.go(left), CMPOPS[type(op)], self.go(right)))
                else:
                    raise Untranslatable("comparison %s" % type(op).__name__)
                left = right
            return parts[0] if len(parts) == 1 else "(" + " ∧ ".join(parts) + ")"
        if isinstance(n, ast.IfExp):
            return "(if %s then %s else %s)" % (self.cond(n.test), self.go(n.body), self.go(n.orelse))
        if isinstance(n, ast.Call) and not n.keywords:
            f = n.func
            if isinstance(f, ast.Name):
                if f.id in self.funcs:
                    return "(%s %s)" % (self.funcs[f.id], " ".join(self.go(a) for a in n.args))
                if f.id == "list" and len(n.args) == 1:
                    return self.go(n.args[0])
                if f.id == "len" and len(n.args) == 1:
                    return "(%s).length" % self.go(n.args[0])
            if isinstance(f, ast.Attribute) and f.attr in self.methods:
                return "(%s %s%s)" % (self.methods[f.attr], self.go(f.value), "".join(" " + self.go(a) for a in n.args))
            raise Untranslatable("call %s" % key)
        raise Untranslatable("%s: %s" % (type(n).__name__, key))

    def pattern(self, target):
        """A loop / comprehension target as a Lean lambda pattern; returns (text, bound python names)."""
        if isinstance(target, ast.Name):
            return target.id, {target.id}
        if isinstance(target, ast.Tuple) and all(isinstance(e, ast.Name) for e in target.elts):
            return "(" + ", ".join(e.id for e in target.elts) + ")", {e.id for e in target.elts}
        raise Untranslatable("loop target %s" % ast.unparse(target))


def _assigned(stmts):
    """python names a block assigns, augments or appends to (in first-assignment order)."""
    out = []

    def add(n):
        if n not in out:
            out.append(n)

    for s in stmts:
        for n in ast.walk(s):
            if isinstance(n, ast.Assign):
                for t in n.targets:
                    if isinstance(t, ast.Name):
                        add(t.id)
                    else:
                        raise Untranslatable("assignment target %s" % ast.unparse(t))
            elif isinstance(n, ast.AugAssign):
                if isinstance(n.target, ast.Name):
                    add(n.target.id)
                else:
                    raise Untranslatable("assignment target %s" % ast.unparse(n.target))
            elif isinstance(n, ast.Expr) and isinstance(n.value, ast.Call) and isinstance(n.value.func, ast.Attribute) \
                    and n.value.func.attr == "append" and isinstance(n.value.func.value, ast.Name):
                add(n.value.func.value.id)
    return out


def _has(stmts, kinds):
    return any(isinstance(n, kinds) for s in stmts for n in ast.walk(s))


class Stmts:
    """Statement translator.  `ret(node_or_None, ex)` renders a returned value, `raise_(node, ex)` a raise."""

    def __init__(self, ex, ret=None, raise_=None, indent="  ", stmt_hook=None):
        self.ex = ex
        self.ret = ret or (lambda v, ex: "none" if v is None else ex.go(v))
        self.raise_ = raise_
        self.ind = indent
        # property specific statement shapes (e.g. `try: x = next(it) … except StopIteration: …` over a
        # state-passing iterator): `stmt_hook(s, rest, k, depth, self)` returns a Lean term or None
        self.stmt_hook = stmt_hook

    def block(self, stmts, k, depth=1):
        """Lean term for the statement list; `k` is the term for falling off its end."""
        pad = self.ind * depth
        if not stmts:
            return k
        s, rest = stmts[0], stmts[1:]
        ex = self.ex
        if self.stmt_hook is not None:
            r = self.stmt_hook(s, rest, k, depth, self)
            if r is not None:
                return r
        if isinstance(s, ast.Pass) or isinstance(s, ast.Assert) or (isinstance(s, ast.Expr) and isinstance(s.value, ast.Constant)):
            return self.block(rest, k, depth)
        if isinstance(s, ast.Return):
            return self.ret(s.value, ex)
        if isinstance(s, ast.Raise):
            if self.raise_ is None:
                raise Untranslatable("raise")
            return self.raise_(s, ex)
        if isinstance(s, ast.Assign) and len(s.targets) == 1 and isinstance(s.targets[0], ast.Name):
            v = ex.go(s.value)
            name = s.targets[0].id
            was_list = ex.is_list(s.value)
            saved_b, saved_l = set(ex.bound), set(ex.listy)
            ex.bound.add(name)
            if was_list:
                ex.listy.add(name)
            try:
                body = self.block(rest, k, depth)
            finally:
                ex.bound, ex.listy = saved_b, saved_l
            return "let %s := %s\n%s%s" % (name, v, pad, body)
        if isinstance(s, ast.Assign) and len(s.targets) == 1 and isinstance(s.targets[0], ast.Attribute) \
                and isinstance(s.targets[0].value, ast.Name) and s.targets[0].value.id in ex.bound:
            t = s.targets[0]
            return "let %s := { %s with %s := %s }\n%s%s" % (t.value.id, t.value.id, t.attr, ex.go(s.value), pad, self.block(rest, k, depth))
        if isinstance(s, ast.AugAssign) and isinstance(s.target, ast.Name):
            return self.block([ast.Assign(targets=[s.target], value=ast.BinOp(left=s.target, op=s.op, right=s.value))] + rest, k, depth)
        if isinstance(s, ast.Expr) and isinstance(s.value, ast.Call) and isinstance(s.value.func, ast.Attribute) \
                and s.value.func.attr == "append" and isinstance(s.value.func.value, ast.Name) and len(s.value.args) == 1:
            tgt = s.value.func.value
            if tgt.id not in ex.bound:
                raise Untranslatable("append to %s, which is not a local" % tgt.id)
            v = "(%s ++ [%s])" % (ex.go(tgt), ex.go(s.value.args[0]))
            return "let %s := %s\n%s%s" % (tgt.id, v, pad, self.block(rest, k, depth))
        if isinstance(s, ast.If):
            t = ex.cond(s.test)
            a = self.block(list(s.body) + rest, k, depth + 1)
            b = self.block(list(s.orelse) + rest, k, depth + 1)
            return "if %s then\n%s%s%s\n%selse\n%s%s%s" % (t, pad, self.ind, a, pad, pad, self.ind, b)
        if isinstance(s, ast.For) and not s.orelse:
            return self.for_(s, rest, k, depth)
        raise Untranslatable("statement %s: %s" % (type(s).__name__, ast.unparse(s)[:60]))

    def for_(self, s, rest, k, depth):
        ex = self.ex
        pad = self.ind * depth
        it = s.iter
        enum = isinstance(it, ast.Call) and isinstance(it.func, ast.Name) and it.func.id == "enumerate" and len(it.args) == 1
        if enum:
            if not (isinstance(s.target, ast.Tuple) and len(s.target.elts) == 2 and all(isinstance(e, ast.Name) for e in s.target.elts)):
                raise Untranslatable("enumerate target")
            i, x = s.target.elts[0].id, s.target.elts[1].id
            src = "(%s).zipIdx" % ex.go(it.args[0])
            pat, names = "(%s, %s)" % (x, i), {i, x}
        else:
            src = ex.go(it)
            pat, names = ex.pattern(s.target)
        body = [b for b in s.body if not (isinstance(b, ast.Expr) and isinstance(b.value, ast.Constant))]
        # shape 1: first match returns
        if len(body) == 1 and isinstance(body[0], ast.If) and not body[0].orelse and len(body[0].body) == 1 \
                and isinstance(body[0].body[0], ast.Return):
            saved = set(ex.bound)
            ex.bound |= names
            try:
                test = ex.cond(body[0].test)
                r = self.ret(body[0].body[0].value, ex)
            finally:
                ex.bound = saved
            tail = self.block(rest, k, depth + 1)
            return ("match (%s).find? (fun %s => decide %s) with\n%s| some %s => %s\n%s| none =>\n%s%s%s"
                    % (src, pat, test, pad, pat, r, pad, pad, self.ind, tail))
        # shape 2: a fold over the variables the body assigns
        if _has(body, (ast.Return, ast.Break, ast.Continue, ast.Raise, ast.For, ast.While)):
            raise Untranslatable("loop body with return/break/continue/raise/nested loop")
        state = _assigned(body)
        for v in state:
            if v not in ex.bound:
                raise Untranslatable("loop assigns %s, which is not defined before the loop" % v)
        if not state:
            raise Untranslatable("loop without effect")
        tup = state[0] if len(state) == 1 else "(" + ", ".join(state) + ")"
        saved = set(ex.bound)
        ex.bound |= names
        try:
            step = self.block(body, tup, depth + 2)
        finally:
            ex.bound = saved
        tail = self.block(rest, k, depth)
        return ("let %s := (%s).foldl (fun %s %s =>\n%s%s%s%s) %s\n%s%s"
                % (tup, src, tup, pat, pad, self.ind, self.ind, step, tup, pad, tail))


def function(fn, name, params, ret_type, ex, ret=None, raise_=None, k="none", binders="", stmt_hook=None):
    """A Lean `def` for the python FunctionDef `fn`.  `params`: list of (python name or None, lean binder text);
    python names are bound in the expression translator."""
    st = Stmts(ex, ret=ret, raise_=raise_, stmt_hook=stmt_hook)
    saved = set(ex.bound)
    for p, _ in params:
        if p:
            ex.bound.add(p)
    try:
        body = st.block(list(fn.body), k, 1)
    finally:
        ex.bound = saved
    sig = " ".join(b for _, b in params)
    return "def %s %s%s : %s :=\n  %s\n" % (name, (binders + " ") if binders else "", sig, ret_type, body)


def generator_as_list(gen_fn, ex):
    """A nested generator function of the shape `for x in E: yield from F` / `yield F` as the list it produces."""
    body = [b for b in gen_fn.body if not (isinstance(b, ast.Expr) and isinstance(b.value, ast.Constant))]
    if len(body) != 1 or not isinstance(body[0], ast.For) or body[0].orelse or len(body[0].body) != 1:
        raise Untranslatable("generator shape")
    loop = body[0]
    inner = loop.body[0]
    if not (isinstance(inner, ast.Expr) and isinstance(inner.value, (ast.Yield, ast.YieldFrom))):
        raise Untranslatable("generator body")
    src = ex.go(loop.iter)
    pat, names = ex.pattern(loop.target)
    saved = set(ex.bound)
    ex.bound |= names
    try:
        e = ex.go(inner.value.value)
    finally:
        ex.bound = saved
    if isinstance(inner.value, ast.YieldFrom):
        return "((%s).flatMap (fun %s => %s))" % (src, pat, e)
    return "((%s).map (fun %s => %s))" % (src, pat, e)


def compile_checked(header, parts, footer, pinned, lean_dir, cache_name):
    """Join translated definitions into a Lean file, making sure it elaborates.

    `parts`: list of (key, text).  A translation that does not elaborate (the translator's picture of the
    Python types is wrong for this code) is a shape the translator does not understand: the pinned text of
    that definition is used instead and the key is returned among `degraded`.  The check runs only when
    the text differs from the last text that elaborated (hash kept under .lake), so unchanged sources cost nothing."""
    import hashlib
    import os
    import subprocess
    import tempfile

    def join(ps):
        return header + "\n".join(t for _, t in ps) + footer

    def ok(text):
        h = hashlib.sha256(text.encode()).hexdigest()
        cache = os.path.join(lean_dir, ".lake", cache_name + ".okhash")
        try:
            if h in open(cache).read().split():
                return True
        except OSError:
            pass
        os.makedirs(os.path.join(lean_dir, ".lake"), exist_ok=True)
        with tempfile.NamedTemporaryFile("w", suffix=".lean", dir=os.path.join(lean_dir, ".lake"), delete=False) as f:
            f.write(text)
            tmp = f.name
        try:
            p = subprocess.run(["lake", "env", "lean", tmp], cwd=lean_dir, capture_output=True, text=True, timeout=600)
            good = p.returncode == 0 and "error" not in p.stdout
        except Exception:
            good = False
        finally:
            os.unlink(tmp)
        if good:
            with open(cache, "a") as f:
                f.write(h + "\n")
        return good

    parts = list(parts)
    degraded = []
    if ok(join(parts)):
        return join(parts), degraded
    for i, (key, text) in enumerate(parts):
        if key in pinned and pinned[key] != text:
            trial = parts[:i] + [(key, pinned[key])] + parts[i + 1:]
            if ok(join(trial)):
                return join(trial), [key]
    # several at once: fall back to every pinned text that differs
    allp = [(k, pinned.get(k, t)) for k, t in parts]
    degraded = [k for (k, t), (_, t2) in zip(parts, allp) if t != t2]
    return join(allp), degraded
