"""Statement-level translator for the type dispatch of `parse_iso` (C08): the statements of the `try` body in front of the
string branch, the string branch's own class test, and the final `return None`, as a Lean `do` block in `Except Exc` over
the two variables the source re-assigns — `value : DVal` and `input_type : String` (the class as the source writes it).

Lean's `do` notation carries Python's statement semantics directly: `let mut` variables re-assigned inside nested blocks,
`if` without `else`, early `return`, an exception raised by any primitive ends the block (`←`).  `A and B` in an `if`
without `else` becomes two nested `if`s (short circuit: `B` is evaluated only when `A` holds).

Subset (anything else raises `Untranslatable`; the caller then uses the pinned program and records `extraction_degraded`):

    input_type = type(value) | input_type = <Class>          value = value.decode('utf-8') | value = int(value)
    if <test>: ... [else: ...]                                  return None
    return datetime.datetime.fromtimestamp(int(value), tz=datetime.timezone.utc).replace(tzinfo=None)
    return value.replace(microsecond=0)      return datetime.datetime.combine(value, datetime.time.min)
    return value.<name>()                    (after `hasattr(value, '<name>')`)
    tests: isinstance(value, C | (C, ...)), input_type ==/is/!=/is not <Class>, input_type in (C, ...), type(value) in (...),
           hasattr(value, '<name>'), value.isdigit(), not <test>, <test> and <test>
    a block guarded by `input_type == numpy.datetime64` (no modelled input has that class) is not translated: it raises
    `pyUnmodelled`; the string branch `if input_type == str and <window>: ...` followed by `return None` becomes
    `if input_type == "str" then return ← pyTextBranch value` (the program `Gen.IsoText.textBranch`, translated separately).
"""
import ast

from .extract import lean_list, lean_str
from .pyexpr import Untranslatable

UNMODELLED = ("numpy.datetime64",)


def _cls(e):
    """A class as the source writes it: a dotted name."""
    if isinstance(e, ast.Name):
        return e.id
    if isinstance(e, ast.Attribute):
        return _cls(e.value) + "." + e.attr
    raise Untranslatable("class expression " + ast.unparse(e))


def _classes(e):
    return [_cls(x) for x in e.elts] if isinstance(e, (ast.Tuple, ast.List, ast.Set)) else [_cls(e)]


def _is(e, text):
    return " ".join(ast.unparse(e).split()) == text


class DispatchProgram:
    def __init__(self, name, fn):
        self.name = name
        self.fn = fn
        self.hasattr_names = set()

    # ---- tests: list of conjunct strings (each may contain `←`); nested ifs carry the short circuit
    def conjuncts(self, t):
        if isinstance(t, ast.BoolOp) and isinstance(t.op, ast.And):
            out = []
            for v in t.values:
                out += self.conjuncts(v)
            return out
        return [self.test(t)]

    def test(self, t):
        if isinstance(t, ast.UnaryOp) and isinstance(t.op, ast.Not):
            return "!(%s)" % self.test(t.operand)
        if isinstance(t, ast.Call) and isinstance(t.func, ast.Name) and not t.keywords:
            if t.func.id == "isinstance" and len(t.args) == 2 and _is(t.args[0], "value"):
                return "pyIsInstanceD value %s" % lean_list(_classes(t.args[1]), lean_str)
            if t.func.id == "hasattr" and len(t.args) == 2 and _is(t.args[0], "value") and isinstance(t.args[1], ast.Constant) \
                    and isinstance(t.args[1].value, str):
                self.hasattr_names.add(t.args[1].value)
                return "pyHasAttr value %s" % lean_str(t.args[1].value)
        if isinstance(t, ast.Call) and isinstance(t.func, ast.Attribute) and _is(t.func.value, "value") and t.func.attr == "isdigit" \
                and not t.args and not t.keywords:
            return "(← pyIsDigit value)"
        if isinstance(t, ast.Compare) and len(t.ops) == 1:
            left, op, right = t.left, t.ops[0], t.comparators[0]
            if _is(left, "input_type") or _is(left, "type(value)"):
                lhs = "input_type" if _is(left, "input_type") else "pyType value"
                if isinstance(op, (ast.Eq, ast.Is)):
                    return "%s == %s" % (lhs, lean_str(_cls(right)))
                if isinstance(op, (ast.NotEq, ast.IsNot)):
                    return "%s != %s" % (lhs, lean_str(_cls(right)))
                if isinstance(op, ast.In) and isinstance(right, (ast.Tuple, ast.List, ast.Set)):
                    return "pyTypeIn %s %s" % ("input_type" if lhs == "input_type" else "(pyType value)", lean_list(_classes(right), lean_str))
                if isinstance(op, ast.NotIn) and isinstance(right, (ast.Tuple, ast.List, ast.Set)):
                    return "!(pyTypeIn %s %s)" % ("input_type" if lhs == "input_type" else "(pyType value)", lean_list(_classes(right), lean_str))
        raise Untranslatable("test " + ast.unparse(t))

    # ---- statements
    def ret(self, e):
        if e is None or (isinstance(e, ast.Constant) and e.value is None):
            return "return none"
        src = " ".join(ast.unparse(e).split())
        if src == "datetime.datetime.fromtimestamp(int(value), tz=datetime.timezone.utc).replace(tzinfo=None)":
            return "return ← pyFromTimestampUtc (← pyIntOf value)"
        if src == "value.replace(microsecond=0)":
            return "return ← pyReplaceMicro0 value"
        if src == "datetime.datetime.combine(value, datetime.time.min)":
            return "return ← pyCombineMin value"
        if isinstance(e, ast.Call) and isinstance(e.func, ast.Attribute) and _is(e.func.value, "value") and not e.args and not e.keywords \
                and e.func.attr in self.hasattr_names:
            return "return ← pyCallNoArg value %s" % lean_str(e.func.attr)
        # `return value.<name>().replace(microsecond=0)`: the called method's answer, cut to whole seconds (repair C16-F11)
        if isinstance(e, ast.Call) and isinstance(e.func, ast.Attribute) and e.func.attr == "replace" and not e.args \
                and len(e.keywords) == 1 and e.keywords[0].arg == "microsecond" and isinstance(e.keywords[0].value, ast.Constant) \
                and e.keywords[0].value.value == 0:
            inner = e.func.value
            if isinstance(inner, ast.Call) and isinstance(inner.func, ast.Attribute) and _is(inner.func.value, "value") and not inner.args \
                    and not inner.keywords and inner.func.attr in self.hasattr_names:
                return "return (← pyCallNoArg value %s).map (fun dt_ => { dt_ with micro := 0 })" % lean_str(inner.func.attr)
        raise Untranslatable("return " + src)

    def stmt(self, st, ind, out):
        pad = "  " * ind
        src = " ".join(ast.unparse(st).split())
        if isinstance(st, ast.Expr) and isinstance(st.value, ast.Constant):
            return
        if isinstance(st, ast.Pass):
            out.append(pad + "-- pass\n" + pad + "pure ()")
            return
        if isinstance(st, ast.Assign) and len(st.targets) == 1 and isinstance(st.targets[0], ast.Name):
            tgt, v = st.targets[0].id, st.value
            out.append(pad + "-- " + src)
            if tgt == "input_type":
                if _is(v, "type(value)"):
                    out.append(pad + "input_type := pyType value")
                else:
                    out.append(pad + "input_type := %s" % lean_str(_cls(v)))
                return
            if tgt == "value":
                if src in ("value = value.decode('utf-8')", "value = value.decode('utf8')", "value = value.decode('UTF-8')",
                           "value = value.decode(encoding='utf-8')", "value = value.decode()"):
                    out.append(pad + "value ← pyDecodeUtf8 value")
                    return
                if src == "value = int(value)":
                    out.append(pad + "value := DVal.intv (← pyIntOf value)")
                    return
            raise Untranslatable("assignment " + src)
        if isinstance(st, ast.Return):
            out.append(pad + "-- " + src)
            out.append(pad + self.ret(st.value))
            return
        if isinstance(st, ast.If):
            head = "if " + " ".join(ast.unparse(st.test).split()) + ":"
            out.append(pad + "-- " + head)
            cs = self.conjuncts(st.test)
            if len(cs) == 1 and any(cs[0] in ('input_type == "%s"' % u, 'pyType value == "%s"' % u) for u in UNMODELLED) and not st.orelse:
                u = [u for u in UNMODELLED if u in cs[0]][0]
                out.append(pad + "if %s then" % cs[0])
                out.append(pad + "  -- (block not translated: no modelled input has this class)")
                out.append(pad + "  throw (pyUnmodelled %s)" % lean_str(u))
                return
            if len(cs) > 1 and st.orelse:
                raise Untranslatable("`and` in an if with else: " + head)
            for k, c in enumerate(cs):
                out.append(pad + " " * k + "if %s then" % c)
            inner = []
            for s2 in st.body:
                self.stmt(s2, 0, inner)
            if not inner:
                inner = ["pure ()"]
            deep = pad + " " * (len(cs) - 1) + "  "
            out.extend(deep + ln if ln else ln for blk in inner for ln in blk.split("\n"))
            if st.orelse:
                out.append(pad + "else")
                inner = []
                for s2 in st.orelse:
                    self.stmt(s2, 0, inner)
                out.extend(pad + "  " + ln for blk in inner for ln in blk.split("\n"))
            return
        raise Untranslatable("statement " + src)

    def lean(self):
        fn = self.fn
        tries = [n for n in ast.walk(fn) if isinstance(n, ast.Try)]
        outer = [st for st in fn.body if not (isinstance(st, ast.Expr) and isinstance(st.value, ast.Constant))]
        if len(tries) != 1 or len(outer) != 1 or outer[0] is not tries[0] or tries[0].orelse or tries[0].finalbody:
            raise Untranslatable("statements around the try")
        body = tries[0].body
        at = [i for i, st in enumerate(body) if isinstance(st, ast.If) and isinstance(st.test, ast.BoolOp) and isinstance(st.test.op, ast.And)
              and _is(st.test.values[0], "input_type == str") and "len(value)" in ast.unparse(st.test)]
        if len(at) != 1:
            raise Untranslatable("`if input_type == str and <window>:`")
        rest = body[at[0] + 1:]
        if body[at[0]].orelse or len(rest) != 1 or not isinstance(rest[0], ast.Return) or \
                not (rest[0].value is None or (isinstance(rest[0].value, ast.Constant) and rest[0].value.value is None)):
            raise Untranslatable("statements after the string branch")
        out = []
        for st in body[:at[0]]:
            self.stmt(st, 1, out)
        win = ast.unparse(body[at[0]].test.values[1]) if len(body[at[0]].test.values) == 2 else "..."
        out.append("  -- if input_type == str and %s: <the string branch, Gen.IsoText.textBranch> ; return None" % " ".join(win.split()))
        out.append('  if input_type == "str" then')
        out.append("    return ← pyTextBranch value")
        out.append("  return none")
        t = "/-- `parse_iso`, the body of the `try`: the type dispatch in front of the string branch, statement by statement -/\n"
        t += "def %s (value0 : DVal) : Except Exc (Option DateTime) := do\n" % self.name
        t += "  let mut value := value0\n  let mut input_type := \"\"\n"
        t += "\n".join(out) + "\n"
        return t
