"""Pristine-interpreter worker for C02 (fork server).

`python -m harness.c02_worker` imports orso from $ORSO_REPO exactly as the runner does and then **uses
nothing of it**: every request `{"cases": [...]}` is evaluated in a freshly forked child, in order, in
one interpreter whose module-level state (class caches, memo tables, class attributes) is what a new
process has.  That is what makes a replay self-contained: a failure that depends on what the process did
before is only reported together with the operations that have to come first.

One JSON line in, one JSON line out: `{"results": [{"clause": str|null, "out": …}, …]}` (the `out` of the
last case only), `{"error": "..."}` when the child died.
"""
import json
import os
import sys


def _child(cases, wfd):
    from harness import core
    from harness.props import c02

    res = []
    try:
        for i, c in enumerate(cases):
            out, clause = c02.run_case(core.unjson(c))
            res.append({"clause": clause, "out": core._jsonable(out) if i == len(cases) - 1 else None})
        payload = json.dumps({"results": res}, default=repr)
    except BaseException as e:  # the adaptor never lets implementation errors out; this is a harness error
        payload = json.dumps({"error": "%s: %s" % (type(e).__name__, str(e)[:300])})
    data = (payload + "\n").encode()
    while data:
        n = os.write(wfd, data)
        data = data[n:]
    os._exit(0)


def main():
    from harness import runner

    runner.setup_impl_path()
    import orso  # noqa: F401  imported, never used in this process
    try:
        import pandas  # noqa: F401  (pyarrow loads it on the first table; half a second per child otherwise)
        import pyarrow  # noqa: F401  imported only (no table is made here, so no pool thread exists at fork time)
        import pyarrow.pandas_compat  # noqa: F401
        import orso.converters  # noqa: F401
    except Exception:
        pass
    from harness.props import c02  # noqa: F401

    out = sys.stdout.buffer
    out.write(b'{"ready": true}\n')
    out.flush()
    for line in sys.stdin:
        line = line.strip()
        if not line:
            continue
        req = json.loads(line)
        r, w = os.pipe()
        pid = os.fork()
        if pid == 0:
            os.close(r)
            _child(req["cases"], w)
        os.close(w)
        chunks = []
        while True:
            b = os.read(r, 1 << 16)
            if not b:
                break
            chunks.append(b)
        os.close(r)
        _, status = os.waitpid(pid, 0)
        data = b"".join(chunks)
        if not data.endswith(b"\n") or status != 0:
            data = (json.dumps({"error": "child ended with status %d" % status}) + "\n").encode()
        out.write(data)
        out.flush()


if __name__ == "__main__":
    main()
