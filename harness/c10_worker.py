"""Sacrificial worker for C10: runs the compiled helpers on JSON-line cases (one result line each)."""
import json
import os
import sys


def unj(x):
    if isinstance(x, list):
        return [unj(v) for v in x]
    if isinstance(x, dict):
        if "__bytes__" in x:
            return bytes.fromhex(x["__bytes__"])
        if "__float__" in x:
            return float(x["__float__"])
        if "__int__" in x:
            return int(x["__int__"])
        if "__tuple__" in x:
            return tuple(unj(v) for v in x["__tuple__"])
        return {k: unj(v) for k, v in x.items()}
    return x


def jn(x):
    import numpy

    if isinstance(x, numpy.ndarray):
        return [jn(v) for v in (x.tolist() if x.dtype != object else list(x))]
    if isinstance(x, numpy.generic):
        return jn(x.item())
    if isinstance(x, (list, tuple)):
        return [jn(v) for v in x]
    if isinstance(x, dict):
        return {"__dict__": [[jn(k), jn(v)] for k, v in x.items()]}
    if isinstance(x, bytes):
        return {"__bytes__": x.hex()}
    if isinstance(x, float) and (x != x or x in (float("inf"), float("-inf"))):
        return {"__float__": repr(x)}
    if x is None or isinstance(x, (bool, int, float, str)):
        return x
    return {"__repr__": repr(x)}


# ----------------------------------------------------------------------------- dictionaries whose keys are not all text


class StrSame(str):
    """A subclass of str that compares and hashes as str does: `d.get('a')` finds a `StrSame('a')` key."""
    __slots__ = ()


class StrOther(str):
    """A subclass of str with its own `__eq__` / `__hash__`: equal to other StrOther of the same text only, so
    `d.get('a')` does not find a `StrOther('a')` key although `str(key) == 'a'`."""
    __slots__ = ()

    def __eq__(self, other):
        return type(other) is StrOther and str.__eq__(self, other)

    def __ne__(self, other):
        return not self.__eq__(other)

    def __hash__(self):
        return hash(("StrOther", str.__str__(self)))


def mk_key(k):
    """A dictionary key from its JSON form: a JSON string is that `str`; {"__key__": kind, "v": …} anything else."""
    if isinstance(k, str):
        return k
    if not (isinstance(k, dict) and "__key__" in k):
        raise ValueError("bad key encoding %r" % (k,))
    kind, v = k["__key__"], k.get("v")
    if kind == "int":
        return int(v)
    if kind == "bool":
        return bool(v)
    if kind == "none":
        return None
    if kind == "float":
        return float(v)
    if kind == "bytes":
        return bytes.fromhex(v)
    if kind == "tuple":
        return tuple(mk_key(x) for x in v)
    if kind == "date":
        import datetime

        return datetime.date.fromisoformat(v)
    if kind == "strsame":
        return StrSame(v)
    if kind == "strother":
        return StrOther(v)
    raise ValueError("bad key kind %r" % (kind,))


def mk_dict(items):
    """`[[key, value], …]` (keys in their JSON form) as a plain dict, inserted in order (a later equal key overwrites)."""
    d = {}
    for k, v in items:
        d[mk_key(k)] = unj(v)
    return d


def plain_dict(x):
    """A dictionary of a case: a JSON object (text keys) or {"__items__": [[key, value], …]}."""
    if isinstance(x, dict) and "__items__" in x:
        return mk_dict(x["__items__"])
    return unj(x)


def step_dict(st):
    return mk_dict(st["items"]) if "items" in st else unj(st["dict"])


def has_dict(st):
    return "dict" in st or "items" in st


# ----------------------------------------------------------------------------- the call-site layer (public API)


def _limit(v):
    if v == "none":
        return None
    if isinstance(v, dict) and "__int__" in v:
        return int(v["__int__"])
    return v


def _np_int(x, npk):
    """A position as a numpy integer of the given kind (the Python int itself when the kind cannot hold it)."""
    import numpy

    if isinstance(x, bool) or not isinstance(x, int) or not npk:
        return x
    t = getattr(numpy, npk)
    info = numpy.iinfo(t)
    return t(x) if info.min <= x <= info.max else x


def _cols(cols, kind, npk=None):
    cols = [_np_int(x, npk) for x in unj(cols)]
    if kind == "single":
        return cols[0]
    if kind == "tuple":
        return tuple(cols)
    if kind == "set":
        return set(cols)
    return list(cols)


def _frame(names, rows, lazy, rs=None):
    from orso import DataFrame

    rows = [tuple(unj(r)) for r in rows]
    schema = list(names)
    if rs:
        # a frame with a RelationSchema (typed columns) instead of a plain list of names
        from orso.schema import FlatColumn, RelationSchema
        from orso.types import OrsoTypes

        schema = RelationSchema(name="c10", columns=[FlatColumn(name=n, type=getattr(OrsoTypes, t)) for n, t in zip(names, rs)])
    if lazy:
        return DataFrame(rows=(r for r in rows), schema=schema)
    return DataFrame(rows=rows, schema=schema)


def _public_collect_raw(frame, c):
    cols = _cols(c["cols"], c.get("ckind", "list"), c.get("np"))
    if c.get("via") == "getitem":
        return frame[cols]
    if "limit" in c:
        return frame.collect(cols, _limit(c["limit"]))
    return frame.collect(cols)


def _public_collect(frame, c):
    return jn(_public_collect_raw(frame, c))


# results of earlier public calls the "caller" of a session still holds (seq steps with `keep`), by id
_RESULTS = {}


def _same_storage(a, b):
    """Observation only: are two results of separate calls one object / do they share memory?"""
    import numpy

    if a is b:
        return "same-object"
    try:
        if isinstance(a, numpy.ndarray) and isinstance(b, numpy.ndarray) and a.size and b.size and numpy.shares_memory(a, b):
            return "shares-memory"
    except Exception:
        pass
    return None


def edit_result(res, st):
    """What a caller does to the array a call handed it: an in-place edit of *its own* result (never of the frame).

    `on`: "whole" (the object returned) or "part" (`res[k]`: one column of a many-column result, a view).  An edit the
    values do not support (`+=` on text) raises inside numpy and is reported as such; the frame is not involved."""
    import numpy

    how = st["how"]
    target = res
    if st.get("on") == "part" and isinstance(res, numpy.ndarray) and res.ndim == 2 and len(res):
        target = res[st.get("k", 0) % len(res)]
    if how == "fill":
        if isinstance(target, numpy.ndarray):
            target.fill(unj(st.get("value")))
        else:
            for i in range(len(target)):
                target[i] = unj(st.get("value"))
    elif how == "slice-assign":
        target[...] = unj(st.get("value")) if isinstance(target, numpy.ndarray) else None
    elif how == "item":
        flat = target.reshape(-1) if isinstance(target, numpy.ndarray) else target
        if len(flat):
            flat[st.get("pos", 0) % len(flat)] = unj(st.get("value"))
    elif how == "reverse":
        if isinstance(target, numpy.ndarray):
            target[...] = target[..., ::-1].copy()
        else:
            target.reverse()
    elif how == "sort":
        # by the text of the values: always defined, moves the references about
        if isinstance(target, numpy.ndarray) and target.ndim == 2:
            for row in target:
                row[...] = sorted(row.tolist(), key=repr, reverse=True)
        else:
            target[...] = sorted(list(target), key=repr, reverse=True)
    elif how == "iadd":
        target += unj(st.get("value", 10))
    elif how == "upper":
        flat = target.reshape(-1)
        if len(flat):
            flat[...] = [v.upper() if isinstance(v, str) else "edited:%r" % (v,) for v in flat.tolist()]
    else:
        raise SystemExit("bad edit")


def _display(frame, c):
    from orso.display import ascii_table

    via = c.get("via", "ascii")
    if via == "ascii":
        return ascii_table(frame, limit=c["limit"], display_width=False, max_column_width=c.get("mcw", 500),
                           colorize=False, top_and_tail=bool(c.get("tt", True)), show_types=bool(c.get("types")))
    if via == "display":
        return frame.display(limit=c["limit"], display_width=False, max_column_width=c.get("mcw", 500),
                             colorize=False, show_types=bool(c.get("types")))
    if via == "markdown":
        return frame.markdown(limit=c["limit"], max_column_width=c.get("mcw", 500))
    return str(frame)


def _rows_of(frame):
    r = frame._rows
    return [jn(list(x)) for x in r] if isinstance(r, list) else None


_OBJS = {}

_CUSTOM = []


def custom_mapping(d):
    """An instance of a class of the caller's own that is a `Mapping` (not mutable, no dict): `__getitem__`, `__iter__`, `__len__`."""
    if not _CUSTOM:
        from collections.abc import Mapping

        class RecordView(Mapping):
            def __init__(self, d):
                self._d = d

            def __getitem__(self, k):
                return self._d[k]

            def __iter__(self):
                return iter(self._d)

            def __len__(self):
                return len(self._d)

        _CUSTOM.append(RecordView)
    return _CUSTOM[0](d)


def apply_edits(d, st):
    """`set` / `del` of a step on the dictionary object it names (`dict_id`): the same object is handed over again."""
    for k, v in st.get("set", []):
        d[mk_key(k)] = unj(v)
    for k in st.get("del", []):
        d.pop(mk_key(k), None)
    return d


def _dict(st):
    """The dictionary of a step, as a plain dict or one of the standard subclasses.  A step with a `dict_id` that an
    earlier step of the session used hands over *that very object* again, after the step's `set` / `del` edits."""
    import collections

    if "dict_id" in st:
        if st["dict_id"] in _OBJS:
            return apply_edits(_OBJS[st["dict_id"]], st)
        d = _dict({k: v for k, v in st.items() if k != "dict_id"})
        _OBJS[st["dict_id"]] = d
        return d
    d = step_dict(st)
    k = st.get("dict_kind", "dict")
    if k == "ordered":
        return collections.OrderedDict(d)
    if k == "default":
        dd = collections.defaultdict(lambda: "from __missing__")
        dd.update(d)
        return dd
    if k == "userdict":
        return collections.UserDict(d)
    if k == "chainmap":
        return collections.ChainMap({}, d)
    if k == "proxy":
        import types

        return types.MappingProxyType(d)
    if k == "custom":
        return custom_mapping(d)
    if k == "counter":
        c = collections.Counter()
        c.update({kk: v for kk, v in d.items()})
        return c if all(isinstance(v, int) and not isinstance(v, bool) for v in d.values()) else d
    return d


def run_step(st, frames, classes):
    from orso import DataFrame
    from orso import Row

    op = st["op"]
    if "frame" in st and st["frame"] not in frames:
        return {"skip": True}
    if "cls" in st and st["cls"] not in classes:
        return {"skip": True}
    if op == "frame":
        frames[st["id"]] = _frame(st["names"], st["rows"], st.get("lazy", False), st.get("rs"))
        return {"ok": None}
    if op == "dicts":
        f = DataFrame([plain_dict(d) for d in st["dicts"]])
        frames[st["id"]] = f
        return {"ok": _rows_of(f), "names": list(f.column_names)}
    if op == "arrow":
        import pyarrow

        f = DataFrame.from_arrow(pyarrow.table({n: unj(c) for n, c in zip(st["names"], st["cols"])}))
        frames[st["id"]] = f
        return {"ok": None}
    if op == "class":
        fields = list(st["fields"]) if st.get("via", "list") == "list" else tuple(st["fields"])
        if st.get("tuples_only"):
            classes[st["id"]] = Row.create_class(fields, tuples_only=True)
        else:
            classes[st["id"]] = Row.create_class(fields)
        return {"ok": None}
    if op == "row":
        cls = classes[st["cls"]]
        data = _dict(st) if has_dict(st) else tuple(unj(st["tuple"]))
        return {"ok": jn(list(cls(data)))}
    if op == "append":
        f = frames[st["frame"]]
        entry = _dict(st) if has_dict(st) else tuple(unj(st["tuple"]))
        f.append(entry)
        return {"ok": jn(list(f._rows[-1])), "count": len(f._rows)}
    if op == "collect":
        raw = _public_collect_raw(frames[st["frame"]], st)
        out = {"ok": jn(raw)}
        shared = sorted(k for k, r in _RESULTS.items() if _same_storage(raw, r))
        if shared:
            out["shares"] = shared
        if "keep" in st:
            _RESULTS[st["keep"]] = raw
        return out
    if op == "edit":
        if st["result"] not in _RESULTS:
            return {"skip": True}
        res = _RESULTS[st["result"]]
        try:
            edit_result(res, st)
        except (TypeError, ValueError) as e:
            return {"ok": "edit-refused:" + type(e).__name__, "after": jn(res)}
        return {"ok": "edited", "after": jn(res)}
    if op == "derive":
        f = frames[st["frame"]]
        how = st["how"]
        if how == "head":
            g = f.head(st["k"])
        elif how == "tail":
            g = f.tail(st["k"])
        elif how == "slice":
            g = f.slice(st["offset"], st["length"])
        elif how == "select":
            g = f.select(list(st["names"]))
        else:
            raise SystemExit("bad derive")
        frames[st["id"]] = g
        return {"ok": _rows_of(g), "names": list(g.column_names), "parent": _rows_of(f)}
    if op == "display":
        return {"ok": _display(frames[st["frame"]], st)}
    if op == "bytes":
        cls = classes[st["cls"]]
        b = cls(tuple(unj(st["tuple"]))).as_bytes
        m = st.get("mangle")
        if m:
            if m["kind"] == "truncate":
                b = b[: m["n"]]
            elif m["kind"] == "flip" and b:
                pos = m["pos"] % len(b)
                b = b[:pos] + bytes([m["val"] % 256]) + b[pos + 1 :]
            elif m["kind"] == "extend":
                b = b + bytes(m["n"])
        return {"ok": jn(list(cls.from_bytes(b)))}
    raise SystemExit("bad op")


def run_seq(case):
    frames, classes, out = {}, {}, []
    _OBJS.clear()
    _RESULTS.clear()
    for st in case["steps"]:
        try:
            out.append(run_step(st, frames, classes))
        except Exception as e:
            out.append({"raises": type(e).__name__})
    return out


def run(case):
    import numpy
    from orso.compute import compiled

    fn = case["fn"]
    if fn == "pcollect":
        return _public_collect(_frame(case["names"], case["rows"], case.get("lazy", False)), case)
    if fn == "seq":
        return run_seq(case)
    if fn == "collect":
        rows = []
        for r, k in zip(case["rows"], case["kinds"]):
            r = unj(r)
            rows.append(tuple(r) if k == "t" else list(r) if k == "l" else r)
        rows_arg = rows if case.get("rows_arg", "list") == "list" else tuple(rows)
        cols = case["cols"]
        ca = case.get("cols_arg", "int32")
        if ca == "int32":
            cols_arg = numpy.array(cols, dtype=numpy.int32)
        elif ca == "int64":
            cols_arg = numpy.array(cols, dtype=numpy.int64)
        elif ca == "list":
            cols_arg = list(cols)
        else:
            cols_arg = None
        if "limit" in case:
            lim = case["limit"]
            if lim == "none":
                lim = None
            elif lim == "huge":
                lim = 2**40
            return jn(compiled.collect_cython(rows_arg, cols_arg, lim))
        return jn(compiled.collect_cython(rows_arg, cols_arg))
    if fn == "extract":
        data = plain_dict(case["data"])
        fields = unj(case["fields"])
        fa = case.get("fields_arg", "tuple")
        fields = tuple(fields) if fa == "tuple" else list(fields) if fa == "list" else None
        if case.get("data_arg") == "list":
            data = list(data.items())
        elif case.get("data_arg") == "none":
            data = None
        return jn(compiled.extract_dict_columns(data, fields))
    if fn == "width":
        vals = unj(case["values"])
        wa = case.get("arg", "ndarray")
        if wa == "ndarray":
            arr = numpy.empty(len(vals), dtype=object)
            for i, v in enumerate(vals):
                arr[i] = v
        elif wa == "list":
            arr = list(vals)
        else:
            arr = None
        return compiled.calculate_data_width(arr)
    raise SystemExit("bad fn")


def main():
    repo = sys.argv[1]
    os.environ["COLUMNS"] = "400"  # str(frame) asks the terminal for its width
    sys.path.insert(0, repo)
    sys.path.insert(0, os.path.dirname(os.path.dirname(os.path.abspath(__file__))))
    try:
        from harness import ext

        ext.preload(repo)
    except Exception:
        pass
    for line in sys.stdin:
        line = line.strip()
        if not line:
            continue
        case = json.loads(line)
        try:
            out = {"ok": run(case)}
        except Exception as e:
            out = {"raises": type(e).__name__}
        sys.stdout.write(json.dumps(out) + "\n")
        sys.stdout.flush()


if __name__ == "__main__":
    main()
