"""Sacrificial worker for C10: runs the compiled helpers on JSON-line cases (one result line each)."""
import json
import os
import sys


def unj(x):
    if isinstance(x, list):
        return [unj(v) for v in x]
    if isinstance(x, dict):
        if "__bytes__" in x:
            return bytes.fromhex(x["__bytes__"])
        if "__float__" in x:
            return float(x["__float__"])
        if "__int__" in x:
            return int(x["__int__"])
        if "__tuple__" in x:
            return tuple(unj(v) for v in x["__tuple__"])
        return {k: unj(v) for k, v in x.items()}
    return x


def jn(x):
    import numpy

    if isinstance(x, numpy.ndarray):
        return [jn(v) for v in (x.tolist() if x.dtype != object else list(x))]
    if isinstance(x, numpy.generic):
        return jn(x.item())
    if isinstance(x, (list, tuple)):
        return [jn(v) for v in x]
    if isinstance(x, dict):
        return {"__dict__": [[jn(k), jn(v)] for k, v in x.items()]}
    if isinstance(x, bytes):
        return {"__bytes__": x.hex()}
    if isinstance(x, float) and (x != x or x in (float("inf"), float("-inf"))):
        return {"__float__": repr(x)}
    if x is None or isinstance(x, (bool, int, float, str)):
        return x
    return {"__repr__": repr(x)}


def run(case):
    import numpy
    from orso.compute import compiled

    fn = case["fn"]
    if fn == "collect":
        rows = []
        for r, k in zip(case["rows"], case["kinds"]):
            r = unj(r)
            rows.append(tuple(r) if k == "t" else list(r) if k == "l" else r)
        rows_arg = rows if case.get("rows_arg", "list") == "list" else tuple(rows)
        cols = case["cols"]
        ca = case.get("cols_arg", "int32")
        if ca == "int32":
            cols_arg = numpy.array(cols, dtype=numpy.int32)
        elif ca == "int64":
            cols_arg = numpy.array(cols, dtype=numpy.int64)
        elif ca == "list":
            cols_arg = list(cols)
        else:
            cols_arg = None
        if "limit" in case:
            lim = case["limit"]
            if lim == "none":
                lim = None
            elif lim == "huge":
                lim = 2**40
            return jn(compiled.collect_cython(rows_arg, cols_arg, lim))
        return jn(compiled.collect_cython(rows_arg, cols_arg))
    if fn == "extract":
        data = unj(case["data"])
        fields = unj(case["fields"])
        fa = case.get("fields_arg", "tuple")
        fields = tuple(fields) if fa == "tuple" else list(fields) if fa == "list" else None
        if case.get("data_arg") == "list":
            data = list(data.items())
        elif case.get("data_arg") == "none":
            data = None
        return jn(compiled.extract_dict_columns(data, fields))
    if fn == "width":
        vals = unj(case["values"])
        wa = case.get("arg", "ndarray")
        if wa == "ndarray":
            arr = numpy.empty(len(vals), dtype=object)
            for i, v in enumerate(vals):
                arr[i] = v
        elif wa == "list":
            arr = list(vals)
        else:
            arr = None
        return compiled.calculate_data_width(arr)
    raise SystemExit("bad fn")


def main():
    repo = sys.argv[1]
    sys.path.insert(0, repo)
    sys.path.insert(0, os.path.dirname(os.path.dirname(os.path.abspath(__file__))))
    try:
        from harness import ext

        ext.preload(repo)
    except Exception:
        pass
    for line in sys.stdin:
        line = line.strip()
        if not line:
            continue
        case = json.loads(line)
        try:
            out = {"ok": run(case)}
        except Exception as e:
            out = {"raises": type(e).__name__}
        sys.stdout.write(json.dumps(out) + "\n")
        sys.stdout.flush()


if __name__ == "__main__":
    main()
