"""Python function body -> Lean `do` program over dynamically typed objects (variant of harness/pystmt.py for C07).

`pystmt.py` translates functions whose locals have one static type each (lists, ints, records) into pure Lean terms.
The cast functions of `orso/types.py` are the opposite: one parameter that may be text, bytes, a number, a date, a
list …, tested with `isinstance`, converted with `str()` / `int()` / `.decode()`, any of which may raise.  This variant
therefore translates into the `Except Exc` monad over `Cast.Prim.Obj` (Model/CastPrim.lean): every Python primitive
becomes a call of the Lean primitive of the same meaning, effectful ones are bound (`let t1 ← pyStr x`) in Python's
evaluation order (A-normal form), conditional expressions and `if` statements become `if … then do … else do …`
with the rest of the block continued in both branches (so early `return` / `raise` need no special casing).

Supported statements
  x = e                              `let x := …` (a callable when e is `X.parse` / `DecimalFactory.new_factory(p, s)`)
  if / elif / else                   `if c then <body; rest> else <orelse; rest>`
  return e / return / raise E(...)   `pure …` / `pure Obj.none` / `throw Exc.…`
  pass, docstrings, `from m import n` skipped
Supported expressions
  names of parameters / locals, None, True / False, int and str constants
  a if c else b                      bound conditional
  isinstance(a, C | (C, …)), hasattr(a, "name"), not, and / or (pure operands), a is None, a is not None,
    anything else in a test position: Python truthiness (`pyTruthy`)
  str(a) int(a) float(a) list(a) orjson.loads(a) orjson.dumps(a) parse_iso(a)
  a.upper() a.lower() a.strip() a.date() a.decode([codec]) a.encode([codec]) a.as_py() a.item()
  kwargs.get("name"), a[:b], a in WORDS (a words table given by the caller), [f(v) for v in a]
  f(a) for a callable local; X.parse; DecimalFactory.new_factory(p, s); TABLE[k](a, **kwargs); self.value
Anything else raises `Untranslatable`: the extractor then writes the pinned text of that function and reports
`extraction_degraded` (never a violation).
"""
import ast

from .pyexpr import Untranslatable

CLS = {"bool": ".bool", "int": ".int", "float": ".float", "str": ".str", "bytes": ".bytes", "bytearray": ".bytearray",
       "memoryview": ".memoryview", "list": ".list", "tuple": ".tuple", "set": ".set", "dict": ".dict",
       "datetime.date": ".date", "datetime.datetime": ".datetime", "datetime.time": ".time", "datetime.timedelta": ".timedelta",
       "decimal.Decimal": ".decimal"}
KW = {"length": ".length", "precision": ".precision", "scale": ".scale", "element_type": ".elementType"}
CODEC = {"utf-8": ".utf8", "utf8": ".utf8", "utf_8": ".utf8", "u8": ".utf8", "utf-8-sig": ".utf8sig", "utf_8_sig": ".utf8sig"}
EXC = {"ValueError": ".valueError", "TypeError": ".typeError", "OverflowError": ".overflowError", "AttributeError": ".attributeError"}
# global functions: name -> (Lean primitive, needs fot)
FUNCS = {"str": ("pyStr", False), "int": ("pyInt", False), "float": ("pyFloat", True), "list": ("pyList", False),
         "orjson.loads": ("orjsonLoads", True), "orjson.dumps": ("orjsonDumps", False), "parse_iso": ("parseIso", False)}
METHODS0 = {"upper": "pyUpper", "lower": "pyLower", "strip": "pyStrip", "date": "pyDateOf"}
FOREIGN = ("as_py", "item")
LEAN_KEYWORDS = {"at", "from", "end", "fun", "in", "do", "then", "else", "if", "let", "have", "show", "with", "match", "open", "by",
                 "type", "Type", "instance", "class", "where", "deriving", "local", "private", "export", "import", "mutual", "macro",
                 "syntax", "infix", "prefix", "postfix", "notation", "universe", "variable", "section", "namespace", "structure",
                 "inductive", "def", "theorem", "example", "abbrev", "axiom", "for", "unless", "return", "try", "catch", "finally",
                 "mut", "break", "continue", "nomatch", "nofun", "pure", "throw", "fot", "t", "M", "Obj", "Kw"}


def lean_name(n):
    if n in LEAN_KEYWORDS or not n.isidentifier() or not n.isascii():
        return n + "_"
    return n


def lean_string(s):
    from .extract import lean_str
    return lean_str(s)


class Fn:
    """Translator of one FunctionDef.  `words`: python name -> Lean `Words` term; `tables`: python name of a dispatch
    dict -> Lean term; `attr_fns`: attribute name -> format string of the callable it denotes (`%s` = the receiver)."""

    def __init__(self, words=None, tables=None, attr_fns=None, factories=None):
        self.words = dict(words or {})
        self.tables = dict(tables or {})
        self.attr_fns = dict(attr_fns or {})
        self.factories = dict(factories or {})   # unparse text of a callable-returning function -> Lean function of its arguments
        self.n = 0
        self.objs = set()       # python names bound to objects
        self.fns = set()        # python names bound to callables
        self.kwarg = None
        self.self_name = None

    def fresh(self):
        self.n += 1
        return "t%d" % self.n

    # ------------------------------------------------------------------ expressions
    def atom(self, n, out):
        """Lean atom for the object-valued expression `n`; lines needed before it are appended to `out`."""
        if isinstance(n, ast.Constant):
            if n.value is None:
                return "Obj.none"
            if n.value is True or n.value is False:
                return "(boolObj %s)" % ("true" if n.value else "false")
            if type(n.value) is int:
                return "(intLit %d)" % n.value if n.value >= 0 else "(intLit (%d))" % n.value
            if type(n.value) is str:
                return "(Obj.val (.str %s.toList))" % lean_string(n.value)
            raise Untranslatable("constant %r" % (n.value,))
        if isinstance(n, ast.Name):
            if n.id in self.objs:
                return lean_name(n.id)
            raise Untranslatable("free name %s" % n.id)
        if isinstance(n, ast.IfExp):
            c_lines = []
            c = self.cond(n.test, c_lines)
            out.extend(c_lines)
            t = self.fresh()
            a_lines, b_lines = [], []
            a = self.atom(n.body, a_lines)
            b = self.atom(n.orelse, b_lines)
            out.append("let %s ← (if %s then do" % (t, c))
            out.extend("    " + l for l in a_lines + ["pure %s" % a])
            out.append("  else do")
            out.extend("    " + l for l in b_lines + ["pure %s" % b])
            out[-1] += ")"
            return t
        if isinstance(n, ast.Compare) and len(n.ops) == 1 and isinstance(n.ops[0], (ast.In, ast.NotIn)) \
                and isinstance(n.comparators[0], ast.Name) and n.comparators[0].id in self.words:
            a = self.atom(n.left, out)
            r = "(pyIn %s %s)" % (a, self.words[n.comparators[0].id])
            if isinstance(n.ops[0], ast.NotIn):
                r = "(boolObj (!pyTruthy %s))" % r
            return r
        if isinstance(n, (ast.Compare, ast.BoolOp)) or (isinstance(n, ast.UnaryOp) and isinstance(n.op, ast.Not)) \
                or self._is_test_call(n):
            if isinstance(n, ast.BoolOp):
                raise Untranslatable("and / or as a value")
            return "(boolObj %s)" % self.cond(n, out)
        if isinstance(n, ast.Subscript) and isinstance(n.slice, ast.Slice):
            if n.slice.lower is not None or n.slice.step is not None or n.slice.upper is None:
                raise Untranslatable("slice %s" % ast.unparse(n))
            a = self.atom(n.value, out)
            b = self.atom(n.slice.upper, out)
            return self.bind("pySliceTo %s %s" % (a, b), out)
        if isinstance(n, ast.Attribute) and n.attr == "value" and isinstance(n.value, ast.Name) and n.value.id == self.self_name:
            return self.bind("tyValue %s" % lean_name(n.value.id), out)
        if isinstance(n, ast.ListComp):
            if len(n.generators) != 1 or n.generators[0].ifs or n.generators[0].is_async or not isinstance(n.generators[0].target, ast.Name):
                raise Untranslatable("comprehension %s" % ast.unparse(n))
            g = n.generators[0]
            src = self.atom(g.iter, out)
            v = g.target.id
            saved = (set(self.objs), set(self.fns))
            self.objs.add(v)
            self.fns.discard(v)
            try:
                body = []
                e = self.atom(n.elt, body)
            finally:
                self.objs, self.fns = saved
            t = self.fresh()
            out.append("let %s ← pyListComp (fun %s => do" % (t, lean_name(v)))
            out.extend("    " + l for l in body + ["pure %s" % e])
            out[-1] += ") %s" % src
            return t
        if isinstance(n, ast.Call):
            return self.call(n, out)
        raise Untranslatable("%s: %s" % (type(n).__name__, ast.unparse(n)[:60]))

    def bind(self, term, out):
        t = self.fresh()
        out.append("let %s ← %s" % (t, term))
        return t

    @staticmethod
    def _is_test_call(n):
        return isinstance(n, ast.Call) and isinstance(n.func, ast.Name) and n.func.id in ("isinstance", "hasattr")

    def callable_(self, n, out):
        """Lean term of type `Obj → M Obj` for a callable-valued expression, or None."""
        if isinstance(n, ast.Name) and n.id in self.fns:
            return lean_name(n.id)
        if isinstance(n, ast.Attribute) and n.attr in self.attr_fns and isinstance(n.value, ast.Name) and n.value.id in self.objs:
            return "(" + self.attr_fns[n.attr] % lean_name(n.value.id) + ")"
        if isinstance(n, ast.Call) and not n.keywords and ast.unparse(n.func) in self.factories:
            args = [self.atom(a, out) for a in n.args]
            return "(%s %s)" % (self.factories[ast.unparse(n.func)], " ".join(args))
        return None

    def call(self, n, out):
        f = n.func
        key = ast.unparse(f)
        # TABLE[k](value, **kwargs)
        if isinstance(f, ast.Subscript) and isinstance(f.value, ast.Name) and f.value.id in self.tables:
            if not (len(n.args) == 1 and len(n.keywords) == 1 and n.keywords[0].arg is None
                    and isinstance(n.keywords[0].value, ast.Name) and n.keywords[0].value.id == self.kwarg):
                raise Untranslatable("call through %s with other than (value, **%s)" % (f.value.id, self.kwarg))
            k = self.atom(f.slice, out)
            p = self.bind("tableGet %s %s" % (self.tables[f.value.id], k), out)
            a = self.atom(n.args[0], out)
            return self.bind("%s %s %s" % (p, a, lean_name(self.kwarg)), out)
        if n.keywords:
            raise Untranslatable("keyword arguments in %s" % ast.unparse(n)[:60])
        if key in FUNCS and len(n.args) == 1:
            prim, fot = FUNCS[key]
            a = self.atom(n.args[0], out)
            return self.bind("%s%s %s" % (prim, " fot" if fot else "", a), out)
        if isinstance(f, ast.Attribute) and isinstance(f.value, ast.Name) and f.value.id == self.kwarg and f.attr == "get":
            if len(n.args) == 1 and isinstance(n.args[0], ast.Constant) and isinstance(n.args[0].value, str):
                return "(kwGet %s %s)" % (lean_name(self.kwarg), KW.get(n.args[0].value, ".unknown"))
            raise Untranslatable("kwargs.get with a default / computed key")
        if isinstance(f, ast.Attribute) and f.attr in METHODS0 and not n.args:
            a = self.atom(f.value, out)
            return self.bind("%s %s" % (METHODS0[f.attr], a), out)
        if isinstance(f, ast.Attribute) and f.attr in FOREIGN and not n.args:
            a = self.atom(f.value, out)
            return self.bind("pyForeignMethod %s %s" % (a, lean_string(f.attr)), out)
        if isinstance(f, ast.Attribute) and f.attr in ("decode", "encode") and len(n.args) <= 1:
            codec = "utf-8"
            if n.args:
                if not (isinstance(n.args[0], ast.Constant) and isinstance(n.args[0].value, str)):
                    raise Untranslatable("computed codec")
                codec = n.args[0].value
            if codec.lower() not in CODEC:
                raise Untranslatable("codec %r" % codec)
            a = self.atom(f.value, out)
            return self.bind("%s %s %s" % ("pyDecode" if f.attr == "decode" else "pyEncode", a, CODEC[codec.lower()]), out)
        c = self.callable_(f, out)
        if c is not None and len(n.args) == 1:
            a = self.atom(n.args[0], out)
            return self.bind("%s %s" % (c, a), out)
        raise Untranslatable("call %s" % ast.unparse(n)[:60])

    def cond(self, n, out):
        """Lean `Bool` for `n` in a test position."""
        if isinstance(n, ast.UnaryOp) and isinstance(n.op, ast.Not):
            return "(!%s)" % self.cond(n.operand, out)
        if isinstance(n, ast.BoolOp):
            parts = []
            for i, v in enumerate(n.values):
                lines = []
                parts.append(self.cond(v, lines))
                if lines and i > 0:
                    raise Untranslatable("operand of and / or that may raise: %s" % ast.unparse(v)[:50])
                out.extend(lines)
            return "(" + (" && " if isinstance(n.op, ast.And) else " || ").join(parts) + ")"
        if isinstance(n, ast.Compare) and len(n.ops) == 1 and isinstance(n.ops[0], (ast.Is, ast.IsNot)) \
                and isinstance(n.comparators[0], ast.Constant) and n.comparators[0].value is None:
            a = self.atom(n.left, out)
            return "(pyIsNone %s)" % a if isinstance(n.ops[0], ast.Is) else "(!pyIsNone %s)" % a
        if self._is_test_call(n) and not n.keywords and len(n.args) == 2:
            a = self.atom(n.args[0], out)
            if n.func.id == "hasattr":
                if not (isinstance(n.args[1], ast.Constant) and isinstance(n.args[1].value, str)):
                    raise Untranslatable("hasattr with a computed name")
                return "(pyHasAttr %s %s)" % (a, lean_string(n.args[1].value))
            cs = n.args[1].elts if isinstance(n.args[1], ast.Tuple) else [n.args[1]]
            names = []
            for c in cs:
                k = ast.unparse(c)
                if k not in CLS:
                    raise Untranslatable("class %s" % k)
                names.append(CLS[k])
            return "(pyIsInstance %s [%s])" % (a, ", ".join(names))
        if isinstance(n, ast.Compare):
            if len(n.ops) == 1 and isinstance(n.ops[0], (ast.In, ast.NotIn)):
                return "(pyTruthy %s)" % self.atom(n, out)
            raise Untranslatable("comparison %s" % ast.unparse(n)[:60])
        return "(pyTruthy %s)" % self.atom(n, out)

    # ------------------------------------------------------------------ statements
    def block(self, stmts):
        """Lines of a `do` block for the statements (falling off the end returns None)."""
        if not stmts:
            return ["pure Obj.none"]
        s, rest = stmts[0], list(stmts[1:])
        if isinstance(s, (ast.Pass, ast.ImportFrom, ast.Import)) or (isinstance(s, ast.Expr) and isinstance(s.value, ast.Constant)):
            return self.block(rest)
        src = "-- " + ast.unparse(s).split("\n")[0][:110]
        if isinstance(s, ast.Return):
            out = [src]
            if s.value is None:
                return out + ["pure Obj.none"]
            a = self.atom(s.value, out)
            return out + ["pure %s" % a]
        if isinstance(s, ast.Raise):
            e = s.exc.func if isinstance(s.exc, ast.Call) else s.exc
            k = ast.unparse(e) if e is not None else ""
            if k not in EXC:
                raise Untranslatable("raise %s" % k)
            return [src, "throw Exc%s" % EXC[k]]
        if isinstance(s, ast.Assign) and len(s.targets) == 1 and isinstance(s.targets[0], ast.Name):
            out = [src]
            x = s.targets[0].id
            c = self.callable_(s.value, out)
            saved = (set(self.objs), set(self.fns))
            try:
                if c is not None:
                    out.append("let %s : Obj → M Obj := %s" % (lean_name(x), c))
                    self.fns.add(x)
                    self.objs.discard(x)
                else:
                    a = self.atom(s.value, out)
                    out.append("let %s : Obj := %s" % (lean_name(x), a))
                    self.objs.add(x)
                    self.fns.discard(x)
                return out + self.block(rest)
            finally:
                self.objs, self.fns = saved
        if isinstance(s, ast.If):
            out = [src]
            c = self.cond(s.test, out)
            saved = (set(self.objs), set(self.fns))
            a = self.block(list(s.body) + rest)
            self.objs, self.fns = set(saved[0]), set(saved[1])
            b = self.block(list(s.orelse) + rest)
            self.objs, self.fns = saved
            return out + ["if %s then" % c] + ["  " + l for l in a] + ["else"] + ["  " + l for l in b]
        raise Untranslatable("statement %s: %s" % (type(s).__name__, ast.unparse(s).split("\n")[0][:60]))

    def function(self, fn, name, extra_binders="", method=False):
        a = fn.args
        if a.vararg or a.defaults or getattr(a, "posonlyargs", None) or a.kwarg is None:
            raise Untranslatable("signature of %s" % fn.name)
        self.kwarg = a.kwarg.arg
        pos = [x.arg for x in a.args]
        if method:
            if not pos:
                raise Untranslatable("method without self")
            self.self_name = pos[0]
        self.objs = set(pos)
        prelude = []
        for x, d in zip(a.kwonlyargs, a.kw_defaults):
            if not (isinstance(d, ast.Constant) and d.value is None) or x.arg not in KW:
                raise Untranslatable("keyword-only parameter %s" % x.arg)
            prelude.append("let %s : Obj := kwGet %s %s" % (lean_name(x.arg), lean_name(self.kwarg), KW[x.arg]))
            self.objs.add(x.arg)
        body = prelude + self.block(list(fn.body))
        sig = "(fot : Fot) %s%s (%s : Kw)" % (extra_binders + " " if extra_binders else "",
                                             " ".join("(%s : Obj)" % lean_name(p) for p in pos), lean_name(self.kwarg))
        doc = "/-- `%s` -/\n" % fn.name
        return doc + "def %s %s : M Obj := do\n%s\n" % (name, sig, "\n".join("  " + l for l in body))
