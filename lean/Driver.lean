import OrsoVerif.Model.Wire
import OrsoVerif.Drv.C01
import OrsoVerif.Drv.C02
import OrsoVerif.Drv.C03
import OrsoVerif.Drv.C04
import OrsoVerif.Drv.C05
import OrsoVerif.Drv.C06
import OrsoVerif.Drv.C07
import OrsoVerif.Drv.C08
import OrsoVerif.Drv.C09
import OrsoVerif.Drv.C10
import OrsoVerif.Drv.C11
import OrsoVerif.Drv.C12
import OrsoVerif.Drv.C13
import OrsoVerif.Drv.C14
import OrsoVerif.Drv.C15
import OrsoVerif.Drv.C16
import OrsoVerif.Drv.C17
import OrsoVerif.Drv.C18
import OrsoVerif.Drv.C19
import OrsoVerif.Drv.C20

open Wire

def dispatch (prop op : String) (args : List PyVal) : Option (List PyVal) :=
  match prop with
  | "C01" => Drv.C01.handle op args
  | "C02" => Drv.C02.handle op args
  | "C03" => Drv.C03.handle op args
  | "C04" => Drv.C04.handle op args
  | "C05" => Drv.C05.handle op args
  | "C06" => Drv.C06.handle op args
  | "C07" => Drv.C07.handle op args
  | "C08" => Drv.C08.handle op args
  | "C09" => Drv.C09.handle op args
  | "C10" => Drv.C10.handle op args
  | "C11" => Drv.C11.handle op args
  | "C12" => Drv.C12.handle op args
  | "C13" => Drv.C13.handle op args
  | "C14" => Drv.C14.handle op args
  | "C15" => Drv.C15.handle op args
  | "C16" => Drv.C16.handle op args
  | "C17" => Drv.C17.handle op args
  | "C18" => Drv.C18.handle op args
  | "C19" => Drv.C19.handle op args
  | "C20" => Drv.C20.handle op args
  | _ => none

def handle (toks : List String) : String :=
  match toks with
  | "echo" :: rest =>
    match parseAll rest with
    | some vs => "ok " ++ renderAll vs
    | none => "bad-op"
  | prop :: op :: rest =>
    match parseAll rest with
    | some vs =>
      match dispatch prop op vs with
      | some out => "ok " ++ renderAll out
      | none => "bad-op"
    | none => "bad-op"
  | _ => "bad-op"

partial def loop (h : IO.FS.Stream) (out : IO.FS.Stream) : IO Unit := do
  let line ← h.getLine
  if line.isEmpty then return ()
  let l := (line.dropEndWhile (fun c => c == '\n' || c == '\r')).toString
  out.putStrLn (handle (tokens l))
  loop h out

def main : IO Unit := do
  let i ← IO.getStdin
  let o ← IO.getStdout
  loop i o
  o.flush
