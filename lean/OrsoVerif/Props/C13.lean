import OrsoVerif.Lemmas.DistogramState
import OrsoVerif.Lemmas.DistogramRefine
import OrsoVerif.Lemmas.DistogramFaithful
import OrsoVerif.Lemmas.DistogramCacheLive
import Mathlib.Algebra.Order.Ring.Rat
import Mathlib.Algebra.Field.Rat
/-!
# C13 — Streaming histogram conserves mass, order, bounds and mean

Property theorems only, over an arbitrary linear ordered field `K`, for every bin limit `≥ 1` and
every history — a tree of `update`, `+` of independently built histograms, bulk loads (numpy's
(value, count) pairs or histogram edges and the data's bounds are parameters) and dump/load.

* Stage 1 is about the **reference** machine of `Model/Distogram.lean` (insert in order, merge the
  first closest adjacent pair by weighted centroid): `Distogram.Built s L B` — `s` is the state
  reached, `L` the ledger of inserted (value, weight) pairs, `B` the ledger of data bounds.
* Stage 2 is about the **faithful** machine (the code line by line: cached differences, exact hit,
  in-place shortcut): `Distogram.FLedger h L B` is the same kind of history for it, and
  `Distogram.FHist h s L B` runs one history on both machines.  `faithful_*` state the first sentence
  of the property for the code's own machine, ties or not; `refines_reference` is the second
  sentence: with a unique closest pair at every step the faithful state *is* the reference state.
-/
namespace C13
open Distogram
set_option linter.unusedSectionVars false

variable {K : Type} [Field K] [LinearOrder K] [IsStrictOrderedRing K]
variable {s t : RState K} {L L1 L2 : List (K × K)} {B B1 B2 : List K}

/-- **One step: merging any valid adjacent pair** keeps the centres strictly increasing and the
counts positive, conserves the mass and the weighted sum, shortens the list by one, and every new
centre lies between two old ones.  (`trimRef` merges the first closest pair; nothing below depends
on which pair is chosen.) -/
theorem merge_any_adjacent_pair (i : Nat) (l : List (K × K))
    (hinc : l.Pairwise (fun a b => a.1 < b.1)) (hpos : ∀ b ∈ l, 0 < b.2) :
    (mergeAt i l).Pairwise (fun a b => a.1 < b.1) ∧ (∀ b ∈ mergeAt i l, 0 < b.2) ∧
    mass (mergeAt i l) = mass l ∧ wsum (mergeAt i l) = wsum l ∧
    (i + 1 < l.length → (mergeAt i l).length + 1 = l.length) ∧
    ∀ x ∈ mergeAt i l, (∃ y ∈ l, y.1 ≤ x.1) ∧ (∃ z ∈ l, x.1 ≤ z.1) :=
  ⟨mergeAt_inc i l hinc hpos, mergeAt_pos i l hinc hpos, mergeAt_mass i l, mergeAt_wsum i l hinc hpos,
   mergeAt_length i l, fun x hx => ⟨(mergeAt_mem i l hinc hpos x hx).1, (mergeAt_mem i l hinc hpos x hx).2.1⟩⟩

/-- The merged centre is strictly between the two it replaces and carries both weights exactly. -/
theorem centroid_between_and_exact {v1 f1 v2 f2 : K} (hv : v1 < v2) (h1 : 0 < f1) (h2 : 0 < f2) :
    v1 < centroid v1 f1 v2 f2 ∧ centroid v1 f1 v2 f2 < v2 ∧
    centroid v1 f1 v2 f2 * (f1 + f2) = v1 * f1 + v2 * f2 :=
  ⟨centroid_gt hv h1 h2, centroid_lt hv h1 h2, centroid_mul hv h1 h2⟩

/-- **Bins are strictly increasing in value** after every history. -/
theorem bins_strictly_increasing (h : Built s L B) : s.bins.Pairwise (fun a b => a.1 < b.1) :=
  (built_facts h).1.inc

/-- **No more bins than the configured maximum** after every history (a loaded histogram's
maximum is the module default `Gen.Distogram.binCount`, see `Built.dumpLoad`). -/
theorem bins_le_cap (h : Built s L B) : s.bins.length ≤ s.cap :=
  (built_facts h).1.len

/-- Every bin has a positive count. -/
theorem counts_positive (h : Built s L B) : ∀ b ∈ s.bins, 0 < b.2 :=
  (built_facts h).1.pos

/-- **The counts sum to the total weight inserted.** -/
theorem mass_conserved (h : Built s L B) :
    (s.bins.map (fun b => b.2)).sum = (L.map (fun p => p.2)).sum :=
  (built_facts h).2.1

/-- **Σ centre × count is invariant**: it equals Σ value × weight over everything inserted. -/
theorem weighted_sum_conserved (h : Built s L B) :
    (s.bins.map (fun b => b.1 * b.2)).sum = (L.map (fun p => p.1 * p.2)).sum :=
  (built_facts h).2.2.1

/-- **The weighted mean of the bins equals the true mean** (exactly, in exact arithmetic). -/
theorem mean_exact (h : Built s L B) : wsum s.bins / mass s.bins = wsum L / mass L := by
  have hf := built_facts h
  rw [hf.2.1, hf.2.2.1]

/-- **The reported minimum and maximum are exactly those of the inserted values**: each is a
member of the data-bounds ledger and bounds all of it; they are absent iff nothing was inserted. -/
theorem minmax_exact (h : Built s L B) :
    (∀ m, s.min = some m → m ∈ B ∧ ∀ b ∈ B, m ≤ b) ∧ (s.min = none → B = []) ∧
    (∀ M, s.max = some M → M ∈ B ∧ ∀ b ∈ B, b ≤ M) ∧ (s.max = none → B = []) := by
  have hf := built_facts h
  refine ⟨?_, ?_, ?_, ?_⟩
  · intro m hm; have := hf.2.2.2.1; rw [hm] at this; exact this
  · intro hm; have := hf.2.2.2.1; rw [hm] at this; exact this
  · intro m hm; have := hf.2.2.2.2; rw [hm] at this; exact this
  · intro hm; have := hf.2.2.2.2; rw [hm] at this; exact this

/-- **Every bin centre lies between the reported minimum and maximum**, and both are present as
soon as there is a bin. -/
theorem centres_within_bounds (h : Built s L B) :
    (s.bins ≠ [] → ∃ m M, s.min = some m ∧ s.max = some M) ∧
    ∀ m M, s.min = some m → s.max = some M → ∀ b ∈ s.bins, m ≤ b.1 ∧ b.1 ≤ M := by
  have hi := (built_facts h).1
  refine ⟨?_, hi.within⟩
  intro hne
  cases hm : s.min with
  | none => exact absurd (hi.minNone hm) hne
  | some m =>
    cases hM : s.max with
    | none => exact absurd (hi.maxNone hM) hne
    | some M => exact ⟨m, M, rfl, rfl⟩

/-- **The bare `merge`** is held to order, capacity, mass and weighted sum, to bounds *within* the
true range (the reported minimum is not below … and not above the first centre) and to centres
within the reported bounds — not to exact bounds, as documented in the code.
The full-strength statement (`minmax_exact` for `mergeRef`) is false: merging a histogram whose
first centre is above its minimum reports that centre, see `merge_bounds_not_exact`. -/
theorem merge_bounds_partial (hs : Built s L1 B1) (ht : Built t L2 B2) :
    let m := mergeRef s t.bins
    m.bins.Pairwise (fun a b => a.1 < b.1) ∧ m.bins.length ≤ m.cap ∧
    mass m.bins = mass L1 + mass L2 ∧ wsum m.bins = wsum L1 + wsum L2 ∧
    (∀ x, m.min = some x → ∀ b ∈ B1 ++ B2, (∀ b' ∈ B1 ++ B2, b ≤ b') → b ≤ x) ∧
    (∀ x, m.max = some x → ∀ b ∈ B1 ++ B2, (∀ b' ∈ B1 ++ B2, b' ≤ b) → x ≤ b) ∧
    (∀ x y, m.min = some x → m.max = some y → ∀ b ∈ m.bins, x ≤ b.1 ∧ b.1 ≤ y) := by
  obtain ⟨si, sm, sw, smin, smax⟩ := built_facts hs
  obtain ⟨ti, tm, tw, tmin, tmax⟩ := built_facts ht
  obtain ⟨mi, _, mm, mw, mmin, mmax⟩ := mergeRef_facts t.bins s B1 si ti.pos smin smax
  refine ⟨mi.inc, mi.len, by rw [mm, sm, tm], by rw [mw, sw, tw], ?_, ?_, mi.within⟩
  · intro x hx b _ hb
    rw [hx] at mmin
    obtain ⟨hxm, _⟩ := mmin
    rcases List.mem_append.mp hxm with h1 | h2
    · exact hb x (List.mem_append.mpr (Or.inl h1))
    · cases htm : t.min with
      | none => have := ti.minNone htm; rw [this] at h2; simp at h2
      | some mt =>
        rw [htm] at tmin
        exact le_trans (hb mt (List.mem_append.mpr (Or.inr tmin.1))) (centres_ge_min ti htm x h2)
  · intro x hx b _ hb
    rw [hx] at mmax
    obtain ⟨hxm, _⟩ := mmax
    rcases List.mem_append.mp hxm with h1 | h2
    · exact hb x (List.mem_append.mpr (Or.inl h1))
    · cases htm : t.max with
      | none => have := ti.maxNone htm; rw [this] at h2; simp at h2
      | some mt =>
        rw [htm] at tmax
        exact le_trans (centres_le_max ti htm x h2) (hb mt (List.mem_append.mpr (Or.inr tmax.1)))

/-- **Bulk load above the threshold inserts values inside the data's range**: the midpoint the
source computes for two consecutive histogram edges lies between them (with the pinned tree's
`a + b / 2` this is false and the theorem does not check). -/
theorem bulk_midpoint_between {a b : K} (h : a ≤ b) :
    a ≤ Gen.DistogramExpr.bulkMid a b ∧ Gen.DistogramExpr.bulkMid a b ≤ b :=
  bulkMid_between h

/-- **Dump/load preserves bins and bounds** (reference machine and the faithful `load`), the
loaded cache is coherent — `diffs` are the adjacent gaps and `min_diff` their minimum — and the
configured maximum becomes the module default. -/
theorem dump_load_id (s : RState K) (h : Hist K) :
    (dumpLoadRef s).bins = s.bins ∧ (dumpLoadRef s).min = s.min ∧ (dumpLoadRef s).max = s.max ∧
    (load h.bins h.min h.max).bins = h.bins ∧ (load h.bins h.min h.max).min = h.min ∧
    (load h.bins h.min h.max).max = h.max ∧
    (load h.bins h.min h.max).diffs = some (gaps h.bins) ∧
    (load h.bins h.min h.max).minDiff = listMin (gaps h.bins) ∧
    (load h.bins h.min h.max).cap = Gen.Distogram.binCount ∧
    (dumpLoadRef s).cap = Gen.Distogram.binCount :=
  ⟨rfl, rfl, rfl, rfl, rfl, rfl, by simp [load_def, loadDiffs_eq_gaps], by simp [load_def, loadDiffs_eq_gaps], rfl, rfl⟩

/-- Known finding C13-K01 (model level): `load` forgets the configured maximum, so a histogram
dumped with more bins than the module default is above its limit as soon as it is loaded. -/
theorem load_over_default_exceeds (bins : List (K × K)) (mn mx : Option K)
    (h : Gen.Distogram.binCount < bins.length) :
    ¬ (load bins mn mx).bins.length ≤ (load bins mn mx).cap := by
  simpa [load_def] using h

/-- Known finding C13-K01, the other half — what the unchanged tree does and what the tightened predicate of the
check relies on: **the first update that inserts a bin ends within the limit, however many bins `load()` left**
(`_trim` is a loop: `Gen.DistogramFlow.trimTurns n = n`); only exact-hit and in-place updates keep a loaded histogram
above its limit. -/
theorem inserting_update_restores_capacity {h h' : Hist K} {neg : Bool} {idx : Nat} {v c : K} (hc : Coherent h)
    (hcap : 1 ≤ h.cap) (hidx : neg = false → h.bins ≠ [] → idx < h.bins.length)
    (hok : insertTrim h neg idx v c = .ok h') : h'.bins.length ≤ h'.cap :=
  insertTrim_capacity hc hcap hidx hok

/-- The bare merge does not report exact bounds: `{1, 3} → centre 2`, merged into an empty
histogram, reports minimum 2 although 1 was inserted. -/
theorem merge_bounds_not_exact :
    (mergeRef (RState.init 1 : RState ℚ)
      (updateRef (updateRef (RState.init 1) 1 1) 3 1).bins).min = some 2 := by
  decide +kernel

/-! ## Stage 2: the faithful machine (cached differences, exact hit, in-place shortcut) -/

/-- **The arithmetic of the source is the arithmetic of the reference** (definitions regenerated from
the AST of `distogram/__init__.py` on every run): `_trim` computes the weighted centroid and the sum of
counts; `_trim_in_place` computes the same centroid for (neighbour, new value) in either order; and what both
*store* — the computed centre kept within the pair it replaces, `min(max(centre, lo), hi)` — is that centroid
whenever the pair is in order and the counts are positive (the guard only ever acts on rounding). -/
theorem source_merge_arithmetic (v1 f1 v2 f2 : K) :
    Gen.DistogramExpr.trimCentre v1 f1 v2 f2 = (v1 * f1 + v2 * f2) / (f1 + f2) ∧
    Gen.DistogramExpr.trimCount v1 f1 v2 f2 = f1 + f2 ∧
    Gen.DistogramExpr.inPlaceCentre v1 f1 v2 f2 = Gen.DistogramExpr.trimCentre v1 f1 v2 f2 ∧
    Gen.DistogramExpr.inPlaceCentre v1 f1 v2 f2 = Gen.DistogramExpr.trimCentre v2 f2 v1 f1 ∧
    Gen.DistogramExpr.inPlaceCount v1 f1 v2 f2 = f1 + f2 ∧
    (v1 < v2 → 0 < f1 → 0 < f2 →
      centroid v1 f1 v2 f2 = (v1 * f1 + v2 * f2) / (f1 + f2) ∧
      Gen.DistogramOps.inPlaceStored (Gen.DistogramExpr.inPlaceCentre v1 f1 v2 f2) v1 v2 = centroid v1 f1 v2 f2 ∧
      Gen.DistogramOps.inPlaceStored (Gen.DistogramExpr.inPlaceCentre v2 f2 v1 f1) v2 v1 = centroid v1 f1 v2 f2) :=
  ⟨rfl, rfl, (inPlace_centre_eq v1 f1 v2 f2).1, (inPlace_centre_eq v1 f1 v2 f2).2.1, rfl,
   fun hv h1 h2 => ⟨centroid_eq hv h1 h2, inPlace_stored_left hv h1 h2, inPlace_stored_right hv h2 h1⟩⟩

/-- **The stored centre of a merge lies within the pair it replaces — whatever the division computed.**  No
hypothesis on the computed centre `c`: this is the statement that survives floating-point rounding (it uses only that
the order is total), and the reason the centres stay strictly increasing and inside `[min, max]` when neighbouring
doubles with large counts, or float64 and numpy.float128 centres after a `dump()`, are merged.  `_trim` stores
`trimStored c v1 v2 ∈ [v1, v2]`, `_trim_in_place` stores `inPlaceStored c sv nv` between the bin and the new value. -/
theorem stored_centre_within_pair (c v1 v2 : K) :
    (v1 ≤ v2 → v1 ≤ Gen.DistogramOps.trimStored c v1 v2 ∧ Gen.DistogramOps.trimStored c v1 v2 ≤ v2) ∧
    min v1 v2 ≤ Gen.DistogramOps.inPlaceStored c v1 v2 ∧ Gen.DistogramOps.inPlaceStored c v1 v2 ≤ max v1 v2 :=
  ⟨fun h => trimStored_within c h, inPlaceStored_within c v1 v2⟩

/-- **The control flow of the source is the control flow of the model** (definitions regenerated from the AST of
`_trim` and `update` on every run): `_trim` *loops* while there are more bins than the limit; a count `<= 0` is
rejected; `index` is 0 iff `value <= first centre`, -1 iff `value >= last centre`, else `bisect_left` with the key
`(value, 1)`; an exact hit is `vi == value` and stores `fi + count`; the in-place shortcut is tried iff
`index > 0 and len(bins) >= limit` (whether its answer is then taken — `in_place_index > 0` — is followed by the model
but no theorem depends on it: both outcomes refine the reference); the bounds tests of the source (`min > value`,
`max < value`, or their non-strict forms) make the bounds the running minimum and maximum. -/
theorem source_control_flow (n len cap idx : Nat) (neg : Bool) (value first last count vi fi : K) (h : Hist K) :
    Gen.DistogramFlow.trimTurns n = n ∧
    (Gen.DistogramFlow.trimGuard len cap = true ↔ cap < len) ∧
    (Gen.DistogramFlow.updCountBad count = true ↔ count ≤ 0) ∧
    (Gen.DistogramFlow.updFirst value first last = true ↔ value ≤ first) ∧
    (Gen.DistogramFlow.updLast value first last = true ↔ last ≤ value) ∧
    (Gen.DistogramFlow.bisectKeyCount : K) = 1 ∧
    (Gen.DistogramFlow.hitTest vi value = true ↔ vi = value) ∧
    Gen.DistogramFlow.hitCount fi count = fi + count ∧
    Gen.DistogramFlow.inPlaceTry (if neg then -1 else (idx : Int)) len cap = (!neg && decide (0 < idx) && decide (cap ≤ len)) ∧
    (bumpBounds h value).min = some (minO h.min value) ∧
    (bumpBounds h value).max = some (maxO h.max value) := by
  refine ⟨trimTurns_eq n, by simp [Gen.DistogramFlow.trimGuard], by simp [Gen.DistogramFlow.updCountBad],
    by simp [Gen.DistogramFlow.updFirst], by simp [Gen.DistogramFlow.updLast], rfl, eqK_iff' vi value, rfl,
    inPlaceTry_eq neg idx len cap, bumpBounds_min h value, bumpBounds_max h value⟩

/-- **The statements around the update path are the model's** (`Gen.DistogramOps.*`, regenerated from the AST of
`Distogram.__add__`, `Distogram.bulkload`, `update`, `_update_diffs` and `_trim` on every run).  The two bound updates
of `update` are independent statements (`if … if …`; with `if … elif …` the first value of a stream would set the
minimum only); `__add__` takes the operand's bounds iff `operand.min is not None` (a truthiness test would drop a
bound of exactly zero) and forms the smaller minimum / larger maximum, as does `bulkload`, which inserts the pairs
with `count > 0`, takes the data's bounds when it has none, and goes through numpy.histogram only for *more* than
`limit * bulkFactor` distinct values; an append lowers the cached minimum to the new last gap; `_update_diffs(h, i)`
refreshes the gap left of bin `i` iff `i > 0` and the gap right of it iff `i + 1 < len(bins)`, storing
`bins[j+1] - bins[j]`, recomputing the minimum iff an overwritten entry equalled it and lowering it iff the new gap is
smaller; a turn of `_trim` keeps bin `i`, pops bin `i + 1`, pops cache entry `i` and refreshes the cache around `i`. -/
theorem source_operations (i len distinct cap : Nat) (a b old md nd : K) (omin omax : Option K) :
    Gen.DistogramOps.bumpChained = false ∧
    Gen.DistogramOps.addGuard omin omax = omin.isSome ∧
    Gen.DistogramOps.addMin a b = min a b ∧ Gen.DistogramOps.addMax a b = max a b ∧
    (Gen.DistogramOps.bulkAbove (distinct : Int) (cap : Int) = true ↔ cap * Gen.Distogram.bulkFactor < distinct) ∧
    (Gen.DistogramOps.bulkTake a = true ↔ 0 < a) ∧
    Gen.DistogramOps.bulkFresh omin omax = omin.isNone ∧
    Gen.DistogramOps.bulkMin a b = min a b ∧ Gen.DistogramOps.bulkMax a b = max a b ∧
    Gen.DistogramOps.appendMinDiff a b = min a b ∧
    Gen.DistogramOps.udLeft (i : Int) (len : Int) = decide (0 < i) ∧
    Gen.DistogramOps.udRight (i : Int) (len : Int) = decide (i + 1 < len) ∧
    (Gen.DistogramOps.udStale old md = true ↔ old = md) ∧
    (Gen.DistogramOps.udLower nd md = true ↔ nd < md) ∧
    Gen.DistogramOps.udGap a b = b - a ∧
    Gen.DistogramOps.trimKeep i = i ∧ Gen.DistogramOps.trimPopBin i = i + 1 ∧
    Gen.DistogramOps.trimPopDiff i = i ∧ Gen.DistogramOps.trimRefresh i = i := by
  have hmin : ∀ x y : K, Gen.DistogramOps.pyMin x y = min x y := by
    intro x y; rw [pyMin_def, min_def]; split_ifs <;> first | rfl | (apply le_antisymm <;> linarith) | (exfalso; linarith)
  have hmax : ∀ x y : K, Gen.DistogramOps.pyMax x y = max x y := by
    intro x y; rw [pyMax_def, max_def]; split_ifs <;> first | rfl | (apply le_antisymm <;> linarith) | (exfalso; linarith)
  refine ⟨bumpChained_eq, rfl, hmin a b, hmax a b, bulkAbove_iff distinct cap, by simp [Gen.DistogramOps.bulkTake], rfl,
    hmin a b, hmax a b, hmin a b, by simp [Gen.DistogramOps.udLeft], ?_, eqK_iff' old md,
    by simp [Gen.DistogramOps.udLower], rfl, rfl, rfl, rfl, rfl⟩
  unfold Gen.DistogramOps.udRight
  exact decide_eq_decide.mpr (by omega)

/-- **The model's `+`, bulk load, cache refresh and trim turn are these statements** — the equations the history
proofs (`faithful_*`, `refines_reference`, `cache_coherent`) unfold.  Each is proved from the generated definitions, so
a change of one of the statements above breaks the corresponding equation by name. -/
theorem source_operations_assembled (h t : Hist K) (pairs : List (K × K)) (lo hi : K) (i : Nat) :
    (add h t = (merge h t.bins).bind fun m =>
      match m.min, m.max, t.min, t.max with
      | some a, some b, some c, some d =>
        .ok { m with min := some (if c < a then c else a), max := some (if b < d then d else b) }
      | _, _, none, _ => .ok m
      | _, _, _, _ => .error "TypeError") ∧
    (bulk h pairs lo hi =
      ((pairs.filter (fun p => decide (0 < p.2))).foldlM (fun acc b => update acc b.1 b.2) h).bind fun m =>
      match m.min, m.max with
      | some a, some b =>
        .ok { m with min := some (if lo < a then lo else a), max := some (if b < hi then hi else b) }
      | none, _ => .ok { m with min := some lo, max := some hi }
      | some _, none => .error "TypeError") ∧
    (updateDiffs h i = match h.diffs with
      | none => .ok h
      | some d0 =>
        (diffBlock h.bins (d0, h.minDiff, false) (decide (0 < i)) (i - 1)).bind fun s1 =>
        (diffBlock h.bins s1 (decide (i + 1 < h.bins.length)) i).bind fun s2 =>
        (finishMin s2).bind fun md =>
        .ok { h with diffs := some s2.1, minDiff := md }) :=
  ⟨add_def h t, bulk_def h pairs lo hi, updateDiffs_def h i⟩

/-- **The tests on the optional cache of adjacent differences are `is not None` / `is None`, not truthiness**
(`Gen.DistogramOps.*`, regenerated from `_update_diffs`, `_trim` (twice), `update` (twice) and `_search_in_place_index` on
every run).  `load()` of a histogram with a single bin creates the EMPTY list with an infinite minimum; that list is a
cache (it `is not None`) and every one of the five maintaining sites must treat it as one, or it is never filled while
`_search_in_place_index` never computes it either and every interior value of the full histogram is merged in place.
Also regenerated: `update` appends iff `index == -1`; `merge` hands `(value, count)` of each bin to `update` in that
order; `_compute_diffs` caches `v2 - v1`; `load` computes `len - 1` differences and takes `min(diffs)` iff there is a gap, infinity otherwise; `_trim` without a cache records
`(i - 1, b[0] - bins[i - 1][0])` for the pair ending at bin `i`. -/
theorem source_cache_tests (d : Option (List K)) (neg : Bool) (idx : Nat) (i : Int) (v1 v2 : K) (l : List K) :
    Gen.DistogramOps.udCache d = d.isSome ∧ Gen.DistogramOps.trimCachePick d = d.isSome ∧
    Gen.DistogramOps.trimCacheKeep d = d.isSome ∧ Gen.DistogramOps.appendCache d = d.isSome ∧
    Gen.DistogramOps.insertCache d = d.isSome ∧ Gen.DistogramOps.searchNoCache d = d.isNone ∧
    Gen.DistogramOps.isAppend (if neg then -1 else (idx : Int)) = neg ∧
    Gen.DistogramOps.mergeValue v1 v2 = v1 ∧ Gen.DistogramOps.mergeCount v1 v2 = v2 ∧
    Gen.DistogramOps.computeGap v1 v2 = v2 - v1 ∧
    (Gen.DistogramOps.loadHasDiffs l = true ↔ l ≠ []) ∧
    Gen.DistogramOps.trimScanIdx i = i - 1 ∧ Gen.DistogramOps.trimScanGap v1 v2 = v2 - v1 ∧
    Gen.DistogramOps.loadTurns i = i - 1 ∧ (Gen.DistogramOps.loadNoDiffs : Option K) = none :=
  ⟨udCache_eq d, trimCachePick_eq d, trimCacheKeep_eq d, appendCache_eq d, insertCache_eq d, searchNoCache_eq d,
   isAppend_eq neg idx, rfl, rfl, rfl, by cases l <;> simp [Gen.DistogramOps.loadHasDiffs, Gen.DistogramOps.listTruthy],
   rfl, rfl, rfl, rfl⟩

/-- **The model's cache bookkeeping, `_compute_diffs`, `merge`, `load` and the cache-less `_trim` are these statements** —
the equations the proofs of `cache_coherent`, `trim_refines_reference` and `refines_reference` unfold: a cache that is
set (even empty) is looked up and maintained, none is computed by `_compute_diffs` as the adjacent gaps, `_trim`
without a cache merges the first closest adjacent pair, and a loaded histogram's cache is the gaps with their minimum
(infinite for a single bin). -/
theorem source_cache_assembled (h : Hist K) (other bins : List (K × K)) (mn mx : Option K) :
    (trimIndex h = match h.diffs with
      | some d =>
        (match h.minDiff with
         | some md => (match indexOf md d with
                       | some i => .ok i
                       | none => .error "ValueError")
         | none => .error "ValueError")
      | none => (match gaps h.bins with
                 | [] => .error "ValueError"
                 | g => .ok (argminFirst g))) ∧
    (computeDiffs h = match listMin (gaps h.bins) with
      | some m => .ok { h with diffs := some (gaps h.bins), minDiff := some m }
      | none => .error "ValueError") ∧
    merge h other = other.foldlM (fun acc b => update acc b.1 b.2) h ∧
    load bins mn mx = { bins := bins, min := mn, max := mx, diffs := some (gaps bins), minDiff := listMin (gaps bins),
                        cap := Gen.Distogram.binCount } :=
  ⟨trimIndex_def h, computeDiffs_def h, merge_def h other, by rw [load_def, loadDiffs_eq_gaps]⟩

/-- **`acc += part` is `acc + part`** (the other spelling of "+ of independently built histograms";
`Gen.Distogram.augmentedAdd` / `classDunders` regenerated from the body of `class Distogram` on every run).  The class
defines no `__iadd__` of its own (or one that hands over to `__add__`), so Python resolves the augmented assignment —
and `operator.iadd`, and each step of `sum(parts, acc)` / `functools.reduce(operator.add, …)` — to `__add__`, whose
bounds are the exact ones of `source_operations` (`addGuard`/`addMin`/`addMax`: the smaller minimum and the larger
maximum of the two operands' exact bounds whenever the operand has any).  An `__iadd__` that returns the bare
`merge(self, operand)` would report the operand's outermost bin centres instead (`merge_bounds_not_exact`). -/
theorem iadd_is_add (a b : K) (omin omax : Option K) :
    Gen.Distogram.augmentedAdd = "__add__" ∧
    Gen.DistogramOps.addGuard omin omax = omin.isSome ∧
    Gen.DistogramOps.addMin a b = min a b ∧ Gen.DistogramOps.addMax a b = max a b := by
  have h := source_operations (K := K) 0 0 0 0 a b a a a omin omax
  exact ⟨by decide, h.2.1, h.2.2.1, h.2.2.2.1⟩

/-- **The first value of a stream sets both bounds** (and so does every later one that is a new extreme): after a
successful `update` of the *empty* histogram the minimum and the maximum are both the inserted value — single-value
streams, streams whose first value is the largest, strictly descending streams. -/
theorem first_value_sets_both_bounds {cap : Nat} {h' : Hist K} {v c : K} (hcap : 1 ≤ cap) (hc1 : 1 ≤ c)
    (hok : update (Hist.init cap) v c = .ok h') :
    h'.min = some v ∧ h'.max = some v ∧ h'.bins = [(v, c)] := by
  have hinv : Inv (Hist.init cap : Hist K).toR := init_inv cap hcap
  have h1 : ∀ b ∈ (Hist.init cap : Hist K).bins, 1 ≤ b.2 := by intro b hb; simp [Hist.init] at hb
  obtain ⟨_, _, _, _, mn, mx, _⟩ := update_inv (coherent_init cap) hinv h1 hc1 hok
  have hb : h'.bins = [(v, c)] := by
    have hc0 : cap ≠ 0 := by omega
    have hnt : updateTie (Hist.init cap : Hist K).toR v c = false := by
      simp [updateTie, Hist.toR, Hist.init, insertRef, trimTie, hc0]
    have hb := congrArg RState.bins (update_sim (coherent_init cap) hinv h1 hok hnt)
    simpa [Hist.toR, Hist.init, updateRef, insertRef, trimRef, hc0] using hb
  exact ⟨by simpa [Hist.init, minO] using mn, by simpa [Hist.init, maxO] using mx, hb⟩

/-- **cache_coherent**: after every operation of the faithful machine — any tree of successful
`update`, bare `merge`, `+`, bulk load and dump/load — whenever `diffs` is set the histogram is not
empty, `diffs` are exactly the adjacent differences of the bins and `min_diff` is their minimum. -/
theorem cache_coherent {h : Hist K} (hb : FBuilt h) :
    ∀ d, h.diffs = some d → h.bins ≠ [] ∧ d = gaps h.bins ∧
      (match h.minDiff with
       | none => d = []
       | some m => m ∈ d ∧ ∀ x ∈ d, m ≤ x) := by
  intro d hd
  obtain ⟨a, b, c⟩ := fbuilt_coherent hb d hd
  refine ⟨a, b, ?_⟩
  cases hm : h.minDiff with
  | none => rw [hm] at c; exact c
  | some m => rw [hm] at c; exact c

/-- **A loaded histogram — however small — is served by a live, correct cache for the rest of its life.**  `load()` of
any non-empty dump (a SINGLE bin included: then the cache is the empty list, which `is not None`, with an infinite
minimum) followed by any number of successful updates (`merge` folds `update` over a list of (value, count) pairs: the
further updates of the property's "dump/load followed by further updates") leaves `diffs` *set* and equal to the adjacent
gaps of the current bins, with `min_diff` their minimum (infinite iff there is no gap).  A cache that is set is never
un-set by `update` (`cache_stays_set`), and a set cache is maintained by every path (`update_keeps_cache_coherent`). -/
theorem loaded_cache_stays_live {bins vs : List (K × K)} {mn mx : Option K} {h' : Hist K} (hne : bins ≠ [])
    (hok : merge (load bins mn mx) vs = .ok h') :
    h'.diffs = some (gaps h'.bins) ∧
    (match h'.minDiff with
     | none => gaps h'.bins = []
     | some m => m ∈ gaps h'.bins ∧ ∀ x ∈ gaps h'.bins, m ≤ x) := by
  rw [merge_def] at hok
  have hs : (load bins mn mx).diffs.isSome = true := by rw [load_def]; rfl
  have hset := foldUpdate_isSome vs hok hs
  obtain ⟨hc, _⟩ := coherent_foldUpdate vs (coherent_load bins mn mx hne) hok
  obtain ⟨d, hd⟩ := Option.isSome_iff_exists.mp hset
  obtain ⟨_, hg, hm⟩ := hc d hd
  subst hg
  refine ⟨hd, ?_⟩
  cases hmd : h'.minDiff with
  | none => rw [hmd] at hm; exact hm
  | some m => rw [hmd] at hm; exact hm

/-- One step: **a cache that is set stays set** through every path of `update` (exact hit, in-place merge, append, insert,
every turn of `_trim`). -/
theorem cache_stays_set {h h' : Hist K} {v c : K} (hok : update h v c = .ok h') (hd : h.diffs.isSome = true) :
    h'.diffs.isSome = true :=
  update_isSome hok hd

/-- One step of the invariant: a successful `update` of a coherent state is coherent and keeps the limit. -/
theorem update_keeps_cache_coherent {h h' : Hist K} {v c : K} (hc : Coherent h) (hok : update h v c = .ok h') :
    Coherent h' ∧ h'.cap = h.cap :=
  coherent_update hc hok

/-- **`_trim` refines the reference trim** for any number of turns: with a coherent cache
`h.diffs.index(h.min_diff)` is the first closest pair and the stored bin is `mergeAt` of it — ties included. -/
theorem trim_refines_reference (fuel : Nat) {h h' : Hist K} (hc : Coherent h) (hok : trim fuel h = .ok h') :
    h'.bins = trimRef h.cap fuel h.bins :=
  trim_refines fuel hc hok

/-- **The exact-hit branch refines the reference insertion.** -/
theorem exact_hit_refines_reference {bins : List (K × K)} {v c vi fi : K} (hne : bins ≠ [])
    (hi : bins.Pairwise (fun a b => a.1 < b.1)) (h1 : ∀ b ∈ bins, 1 ≤ b.2)
    (hb : bins[(locate bins v).2]? = some (vi, fi)) (he : vi = v) :
    bins.set (locate bins v).2 (vi, fi + c) = insertRef v c bins :=
  exactHit_refines hne hi h1 hb he

/-- **Insert + `_trim` refines the reference update** — no uniqueness hypothesis: both machines merge the
first closest pair. -/
theorem insert_trim_refines_reference {h h' : Hist K} {v c : K} (hc : Coherent h)
    (hi : h.bins.Pairwise (fun a b => a.1 < b.1)) (h1 : ∀ b ∈ h.bins, 1 ≤ b.2)
    (hnohit : ∀ vi fi, h.bins[(locate h.bins v).2]? = some (vi, fi) → vi ≠ v)
    (hok : insertTrim h (locate h.bins v).1 (locate h.bins v).2 v c = .ok h') :
    h'.bins = (updateRef h.toR v c).bins :=
  insertTrim_refines hc hi h1 hnohit hok

/-- **The tie flag is sound**: when the executable tie detection (`tieIn`, what the driver and the harness use
to decide whether the reference clause is judged) is silent, the smallest adjacent gap is attained once. -/
theorem tie_detection_sound {l : List (K × K)} (h : tieIn l = false) : UniqueClosest l :=
  uniqueClosest_of_tieIn h

/-- The fold the driver runs for `+`, `merge` and bulk loads is `mergeRef` with the tie flag `foldTie`. -/
theorem driver_fold_is_reference (bs : List (K × K)) (s : RState K) (t : Bool) :
    bs.foldl refStep (s, t) = (mergeRef s bs, t || foldTie s bs) :=
  refStep_fold bs s t

/-- **The in-place shortcut, and every other path of `update`, merges an adjacent pair**: a successful `update` is
either exactly the reference update (exact hit; insert + `_trim`, ties or not) or — through `_trim_in_place`, on a
full histogram — the merge of an adjacent pair `p` of the list after insertion, and `p` is the reference's first
closest pair as soon as the closest pair is unique. -/
theorem update_is_adjacent_merge {h h' : Hist K} {v c : K} (hc : Coherent h) (hinv : Inv h.toR)
    (h1 : ∀ b ∈ h.bins, 1 ≤ b.2) (hok : update h v c = .ok h') :
    h'.toR = updateRef h.toR v c ∨
    ∃ p, p + 1 < (insertRef v c h.bins).length ∧ (insertRef v c h.bins).length = h.cap + 1 ∧
      h'.bins = mergeAt p (insertRef v c h.bins) ∧
      (UniqueClosest (insertRef v c h.bins) → argminFirst (gaps (insertRef v c h.bins)) = p) ∧
      h'.min = some (minO h.min v) ∧ h'.max = some (maxO h.max v) ∧ h'.cap = h.cap :=
  update_shape hc hinv h1 hok

/-- **refines_reference, one step** (every path of `update`, the in-place shortcut included): on a coherent state
that is valid (`Inv`: increasing centres, positive counts, at most `cap` bins, centres within the bounds) with
counts ≥ 1, a successful `update` yields the reference's bins, bounds and limit whenever the reference saw a
unique closest pair (`updateTie … = false`). -/
theorem refines_reference_step {h h' : Hist K} {v c : K} (hc : Coherent h) (hinv : Inv h.toR)
    (h1 : ∀ b ∈ h.bins, 1 ≤ b.2) (hok : update h v c = .ok h') (hnt : updateTie h.toR v c = false) :
    h'.toR = updateRef h.toR v c :=
  update_sim hc hinv h1 hok hnt

/-- The bare `merge` (and the fold inside `+` and bulk loads) refines the reference fold. -/
theorem merge_refines_reference {h h' : Hist K} (bs : List (K × K)) (hc : Coherent h) (hinv : Inv h.toR)
    (h1 : ∀ b ∈ h.bins, 1 ≤ b.2) (hb : ∀ b ∈ bs, 1 ≤ b.2) (hok : merge h bs = .ok h')
    (hnt : foldTie h.toR bs = false) : h'.toR = mergeRef h.toR bs :=
  fold_sim bs hc hinv h1 hb hok hnt

/-- **refines_reference** (the property's second sentence, whole histories): for every history of `update`, `+`
of independently built histograms, bulk loads and dump/load run on both machines in which the reference never saw
a second closest pair, the faithful machine's state — bins, minimum, maximum, limit — **is** the reference
machine's state; the history is a `Built` history, so every stage-1 theorem holds of the faithful state. -/
theorem refines_reference {h : Hist K} (hb : FHist h s L B) : h.toR = s ∧ Built s L B :=
  ⟨(fhist_sim hb).1, (fhist_sim hb).2.1⟩

/-- One step of the faithful invariants, ties or not. -/
theorem faithful_update_conserves {h h' : Hist K} {v c : K} (hc : Coherent h) (hinv : Inv h.toR)
    (h1 : ∀ b ∈ h.bins, 1 ≤ b.2) (hc1 : 1 ≤ c) (hok : update h v c = .ok h') :
    Inv h'.toR ∧ (∀ b ∈ h'.bins, 1 ≤ b.2) ∧ mass h'.bins = mass h.bins + c ∧ wsum h'.bins = wsum h.bins + v * c ∧
    h'.min = some (minO h.min v) ∧ h'.max = some (maxO h.max v) ∧ h'.cap = h.cap :=
  update_inv hc hinv h1 hc1 hok

/-- **Bins strictly increasing and no more than the configured maximum — for the code's own machine**, after every
history (`FLedger`), whichever pairs were merged (ties, in-place shortcut, cached differences). -/
theorem faithful_order_and_capacity {h : Hist K} (hb : FLedger h L B) :
    h.bins.Pairwise (fun a b => a.1 < b.1) ∧ h.bins.length ≤ h.cap ∧ ∀ b ∈ h.bins, 1 ≤ b.2 :=
  ⟨(fledger_facts hb).2.1.inc, (fledger_facts hb).2.1.len, (fledger_facts hb).2.2.1⟩

/-- **Mass, weighted sum and mean — for the code's own machine**, after every history. -/
theorem faithful_mass_and_mean {h : Hist K} (hb : FLedger h L B) :
    mass h.bins = mass L ∧ wsum h.bins = wsum L ∧ wsum h.bins / mass h.bins = wsum L / mass L := by
  have hf := fledger_facts hb
  exact ⟨hf.2.2.2.1, hf.2.2.2.2.1, by rw [hf.2.2.2.1, hf.2.2.2.2.1]⟩

/-- **Exact minimum and maximum, every centre between them — for the code's own machine**, after every history. -/
theorem faithful_bounds {h : Hist K} (hb : FLedger h L B) :
    (∀ m, h.min = some m → m ∈ B ∧ ∀ b ∈ B, m ≤ b) ∧ (h.min = none → B = []) ∧
    (∀ M, h.max = some M → M ∈ B ∧ ∀ b ∈ B, b ≤ M) ∧ (h.max = none → B = []) ∧
    (∀ m M, h.min = some m → h.max = some M → ∀ b ∈ h.bins, m ≤ b.1 ∧ b.1 ≤ M) := by
  have hf := fledger_facts hb
  refine ⟨?_, ?_, ?_, ?_, hf.2.1.within⟩
  · intro m hm; have := hf.2.2.2.2.2.1; rw [hm] at this; exact this
  · intro hm; have := hf.2.2.2.2.2.1; rw [hm] at this; exact this
  · intro m hm; have := hf.2.2.2.2.2.2; rw [hm] at this; exact this
  · intro hm; have := hf.2.2.2.2.2.2; rw [hm] at this; exact this

/-- **Bulk load above the direct-insert threshold** (numpy.histogram's `edges` and `counts` are parameters, all
edges inside the data's range `[lo, hi]`): it is a ledger step that inserts the midpoints the source computes with
their counts, so the weighted mean of the bins is the true mean *of the inserted midpoints* — exactly — and all the
other clauses hold of the result (`faithful_*`). -/
theorem bulk_above_threshold_mean {h h' : Hist K} (edges counts : List K) (lo hi : K) (hs : FLedger h L B)
    (hlh : lo ≤ hi) (he : ∀ e ∈ edges, lo ≤ e ∧ e ≤ hi) (hcn : ∀ c ∈ counts, 0 < c → 1 ≤ c)
    (hok : bulk h ((midpoints edges).zip counts) lo hi = .ok h') :
    let ins := ((midpoints edges).zip counts).filter (fun p => decide (0 < p.2))
    FLedger h' (L ++ ins) (B ++ [lo, hi]) ∧ (∀ p ∈ ins, lo ≤ p.1 ∧ p.1 ≤ hi) ∧
    wsum h'.bins / mass h'.bins = (wsum L + wsum ins) / (mass L + mass ins) := by
  have hl := fledger_bulk_histogram edges counts lo hi hs hlh he hcn hok
  have hf := fledger_facts hl
  refine ⟨hl, ?_, ?_⟩
  · intro p hp
    exact midpoints_within he p.1 (List.of_mem_zip (List.mem_filter.mp hp).1).1
  · rw [hf.2.2.2.1, hf.2.2.2.2.1, mass_append, wsum_append]

/-- Non-vacuity of stage 2: a faithful history with an in-place merge, an exact hit, an insert + trim and
a dump/load succeeds, is `FBuilt`, and equals the reference on it. -/
example :
    ((update (Hist.init 3 : Hist ℚ) 0 1).bind fun h1 =>
     (update h1 10 1).bind fun h2 =>
     (update h2 20 1).bind fun h3 =>
     (update h3 11 1).bind fun h4 =>      -- in place into bin 1
     (update h4 20 2).bind fun h5 =>      -- exact hit
     (update h5 40 1).bind fun h6 =>      -- append + trim
     .ok (h6.bins, h6.diffs, h6.minDiff))
      = .ok ([(0, 1), (81 / 5, 5), (40, 1)], some [81 / 5, 119 / 5], some (81 / 5)) := by
  decide +kernel

/-- Non-vacuity of `loaded_cache_stays_live`: a single-bin dump is loaded (empty cache, infinite minimum), then a new
minimum is inserted and a new maximum appended — the cache is filled and kept. -/
example :
    ((merge (load [((10 : ℚ), 3)] (some 10) (some 10)) [(0, 1), (25, 2)]).map fun h => (h.bins, h.diffs, h.minDiff)) =
      .ok ([(0, 1), (10, 3), (25, 2)], some [10, 15], some 10) ∧
    (load [((10 : ℚ), 3)] (some 10) (some 10)).diffs = some [] ∧ (load [((10 : ℚ), 3)] (some 10) (some 10)).minDiff = none := by
  decide +kernel

/-- Non-vacuity of `FHist` / `FLedger`: the history above up to the in-place merge runs on both machines without
a tie, and the states agree. -/
example :
    ∃ h : Hist ℚ, FHist h (updateRef (updateRef (updateRef (updateRef (RState.init 3) 0 1) 10 1) 20 1) 11 1)
      ([] ++ [(0, 1)] ++ [(10, 1)] ++ [(20, 1)] ++ [(11, 1)]) ([] ++ [0] ++ [10] ++ [20] ++ [11]) ∧
      h.bins = [(0, 1), (21 / 2, 2), (20, 1)] := by
  refine ⟨_, FHist.update (h' := ⟨[(0, 1), (21 / 2, 2), (20, 1)], some 0, some 20, some [21 / 2, 19 / 2], some (19 / 2), 3⟩)
    11 1 (FHist.update (h' := ⟨[(0, 1), (10, 1), (20, 1)], some 0, some 20, none, none, 3⟩) 20 1
      (FHist.update (h' := ⟨[(0, 1), (10, 1)], some 0, some 10, none, none, 3⟩) 10 1
        (FHist.update (h' := ⟨[(0, 1)], some 0, some 0, none, none, 3⟩) 0 1 (FHist.init 3 (by decide)) (le_refl _)
          (by decide +kernel) (by decide +kernel))
        (le_refl _) (by decide +kernel) (by decide +kernel))
      (le_refl _) (by decide +kernel) (by decide +kernel))
    (le_refl _) (by decide +kernel) (by decide +kernel), rfl⟩

/-- Non-vacuity: a concrete history with an update sequence that trims, a `+`, a bulk load and a
dump/load is `Built`, and its state is the expected one. -/
example :
    let a : RState ℚ := updateRef (updateRef (updateRef (RState.init 2) 1 1) 3 1) 8 2
    let b : RState ℚ := updateRef (RState.init 3) (-5) 4
    let c := dumpLoadRef (bulkRef (addRef a b) [(10, 1), (20, 0)] 9 21)
    Built c ([(1, 1), (3, 1), (8, 2)] ++ [(-5, 4)] ++ [(10, 1)]) ([1, 3, 8] ++ [-5] ++ [9, 21]) ∧
    a.bins = [(2, 2), (8, 2)] ∧ c.bins = [(-5, 4), (6, 5)] ∧ c.min = some (-5) ∧ c.max = some 21 := by
  refine ⟨?_, by decide +kernel, by decide +kernel, by decide +kernel, by decide +kernel⟩
  refine Built.dumpLoad (Built.bulk _ 9 21 (Built.add ?_ ?_) (by norm_num) ?_) (by decide +kernel)
  · exact Built.update 8 2 (Built.update 3 1 (Built.update 1 1 (Built.init 2 (by decide)) (by norm_num)) (by norm_num)) (by norm_num)
  · exact Built.update (-5) 4 (Built.init 3 (by decide)) (by norm_num)
  · intro p hp hpos
    simp only [List.mem_cons, List.not_mem_nil, or_false] at hp
    rcases hp with rfl | rfl
    · norm_num
    · norm_num at hpos

end C13
