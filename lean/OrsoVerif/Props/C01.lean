import OrsoVerif.Model.RowCodec
import OrsoVerif.Lemmas.RowBytes
import OrsoVerif.Lemmas.MsgPackRoundtrip
/-!
# C01 — Row byte format is lossless and self-delimiting

Property theorems only.  The framing theorems quantify over every payload, every timestamp, every
payload codec (`unpack` is a parameter), every tear point and every suffix; the codec theorems over
every value the encoder accepts, at every nesting depth.  All of them are statements about
definitions built from the constants extracted from the working tree (`Gen.Row.*`).
-/
namespace C01
open RowBytes MsgPack RowCodec

variable {α : Type}

/-- Byte strings (the two models use the same type). -/
abbrev Bytes := List UInt8

/-! ## Framing -/

/-- **Every emitted record is accepted, with exactly its payload** ("every record the encoder
emits is accepted by the decoder"): the three guards pass and hand `payload` to the codec. -/
theorem check_encode (ts : Nat) (payload r : Bytes) (h : encodeFrame ts payload = .ok r) :
    checkFrame r = .ok payload := by
  obtain ⟨hl, rfl⟩ := encodeFrame_ok h
  rw [checkFrame_header _ _ _ (by omega)]
  simp

/-- The encoder emits a record for every payload up to the cap (and a 64-bit clock), and refuses
larger ones with the data error of orso/row.py:167 — it never emits a record it cannot frame. -/
theorem encode_total (ts : Nat) (payload : Bytes) :
    (payload.length ≤ Gen.Row.maxRecord → ts < 2 ^ 64 → ∃ r, encodeFrame ts payload = .ok r) ∧
    (Gen.Row.maxRecord < payload.length → encodeFrame ts payload = .error .tooLarge) := by
  constructor
  · intro hl ht
    refine ⟨header payload.length ts ++ payload, ?_⟩
    simp only [Gen.Row.maxRecord] at hl
    rw [pow_consts.2.2] at ht
    have a : ¬ payload.length > 16777216 := by omega
    have b : ¬ (payload.length ≥ 4294967296 ∨ ts ≥ 18446744073709551616) := by omega
    simp only [encodeFrame, Gen.Row.maxRecord, Gen.Row.lenWidth, Gen.Row.tsWidth, pow_consts.1,
      pow_consts.2.1, a, b, if_false]
  · intro hl
    simp only [encodeFrame]
    rw [if_pos hl]

/-- **Every strict prefix is rejected with a data error** (a write torn at any byte `k`), for every
record size and every payload codec; nothing is handed to the codec. -/
theorem torn_rejected (unpack : Bytes → Option α) (ts : Nat) (payload r : Bytes)
    (h : encodeFrame ts payload = .ok r) (k : Nat) (hk : k < r.length) :
    ∃ e, decodeWith unpack (r.take k) = .error e ∧ e.isDataError = true := by
  obtain ⟨hl, rfl⟩ := encodeFrame_ok h
  have hh := header_length payload.length ts
  by_cases hk14 : k < 14
  · refine ⟨.malformed, decodeWith_error unpack ?_, rfl⟩
    exact checkFrame_short _ (by simp only [List.length_take]; omega)
  · refine ⟨.badLength, decodeWith_error unpack ?_, rfl⟩
    have ht : (header payload.length ts ++ payload).take k
        = header payload.length ts ++ payload.take (k - 14) := by
      rw [List.take_append, hh, List.take_of_length_le (by omega)]
    rw [ht, checkFrame_header _ _ _ (by omega)]
    have : payload.length ≠ (payload.take (k - 14)).length := by
      simp only [List.length_append, hh] at hk
      simp only [List.length_take]; omega
    rw [if_neg this]

/-- **Every extension is rejected with a data error**: any non-empty suffix (one byte, garbage, a
second record) makes the length field disagree. -/
theorem extended_rejected (unpack : Bytes → Option α) (ts : Nat) (payload r s : Bytes)
    (h : encodeFrame ts payload = .ok r) (hs : s ≠ []) :
    decodeWith unpack (r ++ s) = .error .badLength := by
  obtain ⟨hl, rfl⟩ := encodeFrame_ok h
  apply decodeWith_error
  rw [List.append_assoc, checkFrame_header _ _ _ (by omega)]
  have : payload.length ≠ (payload ++ s).length := by
    have : 0 < s.length := by
      cases s with
      | nil => exact absurd rfl hs
      | cons _ _ => simp
    simp only [List.length_append]; omega
  rw [if_neg this]

/-- **An altered version marker is rejected**: replacing the first byte by any byte whose masked
high nibble is not the version value gives "Data malformed". -/
theorem version_altered_rejected (unpack : Bytes → Option α) (ts : Nat) (payload r : Bytes)
    (h : encodeFrame ts payload = .ok r) (b : UInt8)
    (hb : (b.toNat &&& Gen.Row.nibbleMask) ≠ Gen.Row.nibbleValue) :
    decodeWith unpack (r.set 0 b) = .error .malformed := by
  obtain ⟨hl, rfl⟩ := encodeFrame_ok h
  simp only [Gen.Row.nibbleMask, Gen.Row.nibbleValue] at hb
  apply decodeWith_error
  rw [header_eq]
  simp only [List.cons_append, List.nil_append, List.set_cons_zero]
  rw [checkFrame_cons _ _ _ _ _ _ _ (by simp), if_pos hb]

/-- The four single-bit changes of the version nibble (bits 4..7 of byte 0) are rejected. -/
theorem version_bitflip_rejected (unpack : Bytes → Option α) (ts : Nat) (payload r : Bytes)
    (h : encodeFrame ts payload = .ok r) (j : Nat) (hj : 4 ≤ j ∧ j < 8) :
    decodeWith unpack (flipBit r 0 j) = .error .malformed := by
  have hr := (encodeFrame_ok h).2
  have h0 : r.getD 0 0 = 16 := by rw [hr, header_eq]; rfl
  unfold flipBit
  rw [h0]
  apply version_altered_rejected unpack ts payload r h
  have : j = 4 ∨ j = 5 ∨ j = 6 ∨ j = 7 := by omega
  rcases this with rfl | rfl | rfl | rfl <;> decide

/-- **An altered length field is rejected**: every record that differs from an emitted one only
inside the four length bytes (positions 2..5), in any way, gives "incorrect length" — the
big-endian length is injective below the cap. -/
theorem length_altered_rejected (unpack : Bytes → Option α) (ts : Nat) (payload r : Bytes)
    (h : encodeFrame ts payload = .ok r) (l0 l1 l2 l3 : UInt8)
    (hne : [l0, l1, l2, l3] ≠ (r.drop 2).take 4) :
    decodeWith unpack (r.take 2 ++ [l0, l1, l2, l3] ++ r.drop 6) = .error .badLength := by
  obtain ⟨hl, rfl⟩ := encodeFrame_ok h
  apply decodeWith_error
  rw [header_eq] at hne ⊢
  simp only [List.cons_append, List.nil_append, List.take_succ_cons, List.take_zero, List.drop_succ_cons,
    List.drop_zero] at hne ⊢
  rw [checkFrame_cons _ _ _ _ _ _ _ (by simp), if_neg (by decide)]
  have hw : wrap32 (len4 l0 l1 l2 l3) ≠ ((payload.length : Nat) : Int) := by
    intro hw
    obtain ⟨e0, e1, e2, e3⟩ := wrap32_len4_eq (by omega) hw
    exact hne (by rw [e0, e1, e2, e3])
  simp only [List.length_cons]
  rw [if_pos (by
    have : payload.length + 0 + 1 + 1 + 1 + 1 + 1 + 1 + 1 + 1 - 8 = payload.length := by omega
    first | (rw [this]; exact hw) | (simp only [Nat.add_sub_cancel]; exact hw) | (simpa using hw))]

/-! ## MessagePack payload -/

/-- **The payload codec is lossless** on every value `packb` accepts (nulls, booleans, integers in
`[-2^63, 2^64)`, floats by bit pattern, text, binary, nested lists and text-keyed maps), at every
nesting depth below the fuel, and it stops exactly at the end of the value. -/
theorem unpack_pack (v : PyVal) (fuel : Nat) (rest : Bytes)
    (hp : packable v = true) (hd : cdepth v < fuel) :
    unpack fuel (pack v ++ rest) = some (v, rest) :=
  unpack_pack' v fuel rest hp hd

/-! ## Rows -/

/-- No item of the row has the reserved two-element form `["__datetime__", x]`. -/
def NoReserved (row : List PyVal) : Prop := ∀ v ∈ row, isReserved v = false

/-- **Round trip**: whatever `Row.as_bytes` emits for a row without reserved items decodes to the
same row, value for value and in order (and in particular is accepted). No hypothesis on sizes,
depth or integer range is needed: the encoder refuses what it cannot represent. -/
theorem row_roundtrip (ts : Nat) (row : List PyVal) (r : Bytes)
    (h : encodeRow ts row = .ok r) (hr : NoReserved row) :
    decodeRow r = .ok (row.map Item.val) := by
  unfold encodeRow encodeWith at h
  cases hp : packRow row with
  | none => rw [hp] at h; cases h
  | some p =>
    rw [hp] at h
    simp only [] at h
    unfold packRow packb at hp
    split at hp
    · rename_i hc
      injection hp with hp
      subst hp
      simp only [Bool.and_eq_true] at hc
      have hc2 : cdepth (.list row) ≤ 255 := of_decide_eq_true hc.2
      unfold decodeRow
      rw [decodeWith_ok _ (check_encode ts _ r h)]
      have hu : unpackb (pack (.list row)) = some (.list row) := by
        unfold unpackb
        have := unpack_pack (.list row) unpackFuel [] hc.1 (by simp only [unpackFuel]; omega)
        rw [List.append_nil] at this
        rw [this]
      have hm : row.mapM post = some (row.map Item.val) := by
        clear h hc hu hc2
        induction row with
        | nil => rfl
        | cons v vs ih =>
          have hv : post v = some (.val v) := by
            have := hr v (by simp)
            unfold post
            split
            · rename_i s x
              simp only [isReserved] at this
              rw [this]; rfl
            · rfl
          have := ih (fun w hw => hr w (by simp [hw]))
          simp [List.mapM_cons, hv, this]
      unfold unpackRow
      rw [hu]
      simp only []
      rw [hm]
    · cases hp

/-- Every record `Row.as_bytes` emits — for any row whatsoever — passes the decoder's guards. -/
theorem emitted_accepted (ts : Nat) (row : List PyVal) (r : Bytes) (h : encodeRow ts row = .ok r) :
    ∃ p, checkFrame r = .ok p := by
  unfold encodeRow encodeWith at h
  cases hp : packRow row with
  | none => rw [hp] at h; cases h
  | some p => rw [hp] at h; exact ⟨p, check_encode ts p r h⟩

/-- The encoder does emit a record for every packable row within the limits. -/
theorem row_encode_total (ts : Nat) (row : List PyVal)
    (hp : packable (.list row) = true) (hd : cdepth (.list row) ≤ packDepthLimit)
    (hl : (pack (.list row)).length ≤ Gen.Row.maxRecord) (ht : ts < 2 ^ 64) :
    ∃ r, encodeRow ts row = .ok r := by
  unfold encodeRow encodeWith packRow packb
  rw [if_pos (by simp [hp, hd])]
  exact (encode_total ts _).1 hl ht

/-! Non-vacuity: a concrete row over several value kinds is emitted and decodes to itself; the
reserved form does not (which is why it is excluded). -/
set_option maxRecDepth 100000 in
example :
    let row : List PyVal := [.int 1, .str "a", .none, .list [.bool true, .int (-129)], .dict [("k", .bytes [1, 2])]]
    (encodeRow 7 row).toOption.bind (fun r => (decodeRow r).toOption) = some (row.map Item.val) := by decide

example : (encodeRow 7 [.list [.str "__datetime__", .int 0]]).toOption.bind (fun r => (decodeRow r).toOption)
    = some [Item.datetime (.int 0)] := by decide

/-! Non-vacuity of the rejection theorems: a concrete emitted record, torn, extended, altered. -/
example :
    (encodeFrame 7 [0x91, 1]).toOption = some [16, 0, 0, 0, 0, 2, 0, 0, 0, 0, 0, 0, 0, 7, 0x91, 1] ∧
    (checkFrame [16, 0, 0, 0, 0, 2, 0, 0, 0, 0, 0, 0, 0, 7, 0x91, 1]).toOption = some [0x91, 1] ∧
    (checkFrame [16, 0, 0, 0, 0, 2, 0, 0, 0, 0, 0, 0, 0, 7, 0x91]).toOption = none ∧
    (checkFrame [16, 0, 0, 0, 0, 2, 0, 0, 0, 0, 0, 0, 0, 7, 0x91, 1, 0]).toOption = none ∧
    (checkFrame [32, 0, 0, 0, 0, 2, 0, 0, 0, 0, 0, 0, 0, 7, 0x91, 1]).toOption = none ∧
    (checkFrame [16, 0, 0, 0, 0, 3, 0, 0, 0, 0, 0, 0, 0, 7, 0x91, 1]).toOption = none := by decide

end C01
