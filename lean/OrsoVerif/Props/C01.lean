import OrsoVerif.Model.RowCodec
import OrsoVerif.Model.RowGlue
import OrsoVerif.Model.RowObject
import OrsoVerif.Lemmas.RowBytes
import OrsoVerif.Lemmas.MsgPackRoundtrip
import OrsoVerif.Lemmas.RowStream
import OrsoVerif.Lemmas.MsgPackSound
import OrsoVerif.Lemmas.RowFns
import OrsoVerif.Generated.RowMarkers
/-!
# C01 — Row byte format is lossless and self-delimiting

Property theorems only.  The framing theorems quantify over every payload, every timestamp, every
payload codec (`unpack` is a parameter), every tear point and every suffix; the codec theorems over
every value the encoder accepts, at every nesting depth.  All of them are statements about
definitions built from the constants extracted from the working tree (`Gen.Row.*`).
-/
namespace C01
open RowBytes MsgPack RowCodec RowStream

variable {α : Type}

/-- Byte strings (the two models use the same type). -/
abbrev Bytes := List UInt8

/-! ## The functions the theorems are about are the code of the working tree

`Gen.RowFns.from_bytes_cython` and `Gen.RowFns.as_bytes_frame` are translated statement by statement from
compiled.pyx / orso/row.py on every run (harness/extractors/c01_fns.py). -/

/-- The OR/shift arithmetic of `record_size` as written in compiled.pyx:51-56 (inside the translation)
is the fold over the extracted `(offset, shift)` list the framing lemmas use. -/
theorem recordSize_expr (data : Bytes) :
    recordSize data = cInt32 (((((byteAt data 2) <<< 24) ||| ((byteAt data 3) <<< 16)) ||| ((byteAt data 4) <<< 8)) ||| (byteAt data 5)) := by
  simp [recordSize, Gen.Row.lengthField, List.foldl]

/-- **The decoder of every theorem below is `from_bytes_cython` as written**: the statement-level
translation (guards with their `or`, operators, mask and value; the `record_size` arithmetic; the two
`DataError` texts; `unpackb(data[HEADER_SIZE:])`; the `cdef list` cast; the loop with the reserved-form
test and `datetime.fromtimestamp(item[1])`; the returned tuple) computes `decodeRow` on every buffer. -/
theorem generated_from_bytes_eq_model (data : Bytes) :
    Gen.RowFns.from_bytes_cython data = decodeRow data := by
  unfold Gen.RowFns.from_bytes_cython decodeRow decodeWith
  rw [checkFrame_eq, ← recordSize_expr]
  simp only []
  by_cases h1 : ((data.length : Nat) : Int) < 14
  · simp [h1]
  · by_cases h2 : (byteAt data 0 &&& 240) ≠ 16
    · simp [h1, h2]
    · by_cases h3 : recordSize data ≠ ((data.length : Nat) : Int) - 14
      · simp [h1, h2, h3]
      · have h1' : ¬ ((data.length : Nat) : Int) < ((14 : Nat) : Int) := h1
        have h3' : ¬ recordSize data ≠ ((data.length : Nat) : Int) - ((14 : Nat) : Int) := h3
        rw [if_neg (by simp only [not_or]; exact ⟨h1', h2⟩), if_neg h3', if_neg h1, if_neg h2, if_neg h3]
        simp only [unpackRow]
        cases hu : unpackb (List.drop 14 data) with
        | none => simp [castList]
        | some v =>
          cases v with
          | list xs =>
            simp only [castList, post_step]
            rw [foldl_bind_mapM]
            cases xs.mapM post with
            | none => rfl
            | some ys => simp
          | _ => simp [castList]

/-- **The framing of every theorem below is `Row.as_bytes` as written** (after `packb` and the clock):
the cap test and the returned `+` chain with both `to_bytes` calls compute `encodeFrame` — for either kind of
row object (`d`: does `self` have a `__dict__`; an instance of `Row` itself has none): the function does not
touch `self` beyond reading its items, so what it computes cannot depend on `d`.  A `self.x = …` statement
in `as_bytes` makes the translation `RowGlue.setAttr d …`, `AttributeError` for `d = false`, and this
theorem no longer checks. -/
theorem generated_as_bytes_eq_model (d : Bool) (ts : Nat) (payload : Bytes) :
    Gen.RowFns.as_bytes_frame d ts payload = encodeFrame ts payload := by
  unfold Gen.RowFns.as_bytes_frame encodeFrame
  rw [frameDecision_eq, frameBytes_eq]
  -- the size test of the translation is the extracted operator on the extracted constant, whichever of `>` / `>=` and
  -- whatever constant below 2^31 they are: *which* they are is stated by `as_bytes_accepts_iff_payload_le_limit`
  have hsmall := cap_small
  have hbig : ∀ {n : Nat}, ¬ overCap n → n < 4294967296 := fun {n} h => by
    by_cases hb : n ≥ 2147483648
    · exact absurd (overCap_of_big hb) h
    · omega
  simp only [intToBytes, pow_consts.1, pow_consts.2.1]
  rcases capOp_known with hop | hop
  · first
    | exact absurd hop (by decide)
    | (have ho : overCap payload.length ↔ payload.length > Gen.Row.maxRecord := by unfold overCap; rw [hop]; simp
       by_cases h : payload.length > Gen.Row.maxRecord
       · rw [if_pos (ho.2 h)]; simp [h]
       · rw [if_neg (fun hh => h (ho.1 hh))]
         have h4 : ¬ (4294967296 ≤ payload.length) := by have := hbig (fun hh => h (ho.1 hh)); omega
         by_cases h8 : ts ≥ 18446744073709551616
         · simp [h, h4, h8, catBytes]
         · simp [h, h4, h8, catBytes, header, toBytes, Gen.Row.bigEndian, Gen.Row.lenWidth, Gen.Row.tsWidth])
  · first
    | exact absurd hop (by decide)
    | (have ho : overCap payload.length ↔ payload.length ≥ Gen.Row.maxRecord := by unfold overCap; rw [hop]; simp
       by_cases h : payload.length ≥ Gen.Row.maxRecord
       · rw [if_pos (ho.2 h)]; simp [h]
       · rw [if_neg (fun hh => h (ho.1 hh))]
         have h4 : ¬ (4294967296 ≤ payload.length) := by have := hbig (fun hh => h (ho.1 hh)); omega
         by_cases h8 : ts ≥ 18446744073709551616
         · simp [h, h4, h8, catBytes]
         · simp [h, h4, h8, catBytes, header, toBytes, Gen.Row.bigEndian, Gen.Row.lenWidth, Gen.Row.tsWidth])

/-- The translated functions on a concrete row: emitted, decoded back, torn and extended; the same record for a row
object without and with a `__dict__`.  (Placed here: counted against the `generated_*` theorem above if it breaks.) -/
example :
    (Gen.RowFns.as_bytes_frame false 7 [0x92, 0x01, 0xa1, 0x61]).toOption.map (fun r =>
      ((Gen.RowFns.from_bytes_cython r).toOption, (Gen.RowFns.from_bytes_cython (r.take 17)).toOption,
        (Gen.RowFns.from_bytes_cython (r ++ [0])).toOption, r.length))
      = some (some [.val (.int 1), .val (.str "a")], none, none, 18) ∧
    (Gen.RowFns.as_bytes_frame false 7 [0x90]).toOption = (Gen.RowFns.as_bytes_frame true 7 [0x90]).toOption := by decide


/-! ## Framing -/

/-- **Every emitted record is accepted, with exactly its payload** ("every record the encoder
emits is accepted by the decoder"): the three guards pass and hand `payload` to the codec. -/
theorem check_encode (ts : Nat) (payload r : Bytes) (h : encodeFrame ts payload = .ok r) :
    checkFrame r = .ok payload := by
  obtain ⟨hl, rfl⟩ := encodeFrame_ok h
  rw [checkFrame_header _ _ _ (by omega)]
  simp

/-- The encoder emits a record for every payload up to the cap (and a 64-bit clock), and refuses
larger ones with the data error of orso/row.py:167 — it never emits a record it cannot frame. -/
theorem encode_total (ts : Nat) (payload : Bytes) :
    (payload.length ≤ Gen.Row.maxRecord → ts < 2 ^ 64 → ∃ r, encodeFrame ts payload = .ok r) ∧
    (Gen.Row.maxRecord < payload.length → encodeFrame ts payload = .error .tooLarge) := by
  -- here the operator and the constant are looked at: `>` and 16 MiB
  have ho : ∀ n, overCap n ↔ n > 16777216 := fun n => by unfold overCap; simp [Gen.Row.capOp, Gen.Row.maxRecord]
  constructor
  · intro hl ht
    refine ⟨header payload.length ts ++ payload, ?_⟩
    simp only [Gen.Row.maxRecord] at hl
    rw [pow_consts.2.2] at ht
    unfold encodeFrame
    rw [frameDecision_eq, frameBytes_eq, if_neg (by rw [ho]; omega), if_neg (by omega)]
  · intro hl
    simp only [Gen.Row.maxRecord] at hl
    unfold encodeFrame
    rw [frameDecision_eq, if_pos (by rw [ho]; omega)]

/-- **Every strict prefix is rejected with a data error** (a write torn at any byte `k`), for every
record size and every payload codec; nothing is handed to the codec. -/
theorem torn_rejected (unpack : Bytes → Option α) (ts : Nat) (payload r : Bytes)
    (h : encodeFrame ts payload = .ok r) (k : Nat) (hk : k < r.length) :
    ∃ e, decodeWith unpack (r.take k) = .error e ∧ e.isDataError = true := by
  obtain ⟨hl, rfl⟩ := encodeFrame_ok h
  have hh := header_length payload.length ts
  by_cases hk14 : k < 14
  · refine ⟨.malformed, decodeWith_error unpack ?_, rfl⟩
    exact checkFrame_short _ (by simp only [List.length_take]; omega)
  · refine ⟨.badLength, decodeWith_error unpack ?_, rfl⟩
    have ht : (header payload.length ts ++ payload).take k
        = header payload.length ts ++ payload.take (k - 14) := by
      rw [List.take_append, hh, List.take_of_length_le (by omega)]
    rw [ht, checkFrame_header _ _ _ (by omega)]
    have : payload.length ≠ (payload.take (k - 14)).length := by
      simp only [List.length_append, hh] at hk
      simp only [List.length_take]; omega
    rw [if_neg this]

/-- **Every extension is rejected with a data error**: any non-empty suffix (one byte, garbage, a
second record) makes the length field disagree. -/
theorem extended_rejected (unpack : Bytes → Option α) (ts : Nat) (payload r s : Bytes)
    (h : encodeFrame ts payload = .ok r) (hs : s ≠ []) :
    decodeWith unpack (r ++ s) = .error .badLength := by
  obtain ⟨hl, rfl⟩ := encodeFrame_ok h
  apply decodeWith_error
  rw [List.append_assoc, checkFrame_header _ _ _ (by omega)]
  have : payload.length ≠ (payload ++ s).length := by
    have : 0 < s.length := by
      cases s with
      | nil => exact absurd rfl hs
      | cons _ _ => simp
    simp only [List.length_append]; omega
  rw [if_neg this]

/-- **An altered version marker is rejected**: replacing the first byte by any byte whose masked
high nibble is not the version value gives "Data malformed". -/
theorem version_altered_rejected (unpack : Bytes → Option α) (ts : Nat) (payload r : Bytes)
    (h : encodeFrame ts payload = .ok r) (b : UInt8)
    (hb : (b.toNat &&& Gen.Row.nibbleMask) ≠ Gen.Row.nibbleValue) :
    decodeWith unpack (r.set 0 b) = .error .malformed := by
  obtain ⟨hl, rfl⟩ := encodeFrame_ok h
  simp only [Gen.Row.nibbleMask, Gen.Row.nibbleValue] at hb
  apply decodeWith_error
  rw [header_eq]
  simp only [List.cons_append, List.nil_append, List.set_cons_zero]
  rw [checkFrame_cons _ _ _ _ _ _ _ (by simp), if_pos hb]

/-- The four single-bit changes of the version nibble (bits 4..7 of byte 0) are rejected. -/
theorem version_bitflip_rejected (unpack : Bytes → Option α) (ts : Nat) (payload r : Bytes)
    (h : encodeFrame ts payload = .ok r) (j : Nat) (hj : 4 ≤ j ∧ j < 8) :
    decodeWith unpack (flipBit r 0 j) = .error .malformed := by
  have hr := (encodeFrame_ok h).2
  have h0 : r.getD 0 0 = 16 := by rw [hr, header_eq]; rfl
  unfold flipBit
  rw [h0]
  apply version_altered_rejected unpack ts payload r h
  have : j = 4 ∨ j = 5 ∨ j = 6 ∨ j = 7 := by omega
  rcases this with rfl | rfl | rfl | rfl <;> decide

/-- **An altered length field is rejected**: every record that differs from an emitted one only
inside the four length bytes (positions 2..5), in any way, gives "incorrect length" — the
big-endian length is injective below the cap. -/
theorem length_altered_rejected (unpack : Bytes → Option α) (ts : Nat) (payload r : Bytes)
    (h : encodeFrame ts payload = .ok r) (l0 l1 l2 l3 : UInt8)
    (hne : [l0, l1, l2, l3] ≠ (r.drop 2).take 4) :
    decodeWith unpack (r.take 2 ++ [l0, l1, l2, l3] ++ r.drop 6) = .error .badLength := by
  obtain ⟨hl, rfl⟩ := encodeFrame_ok h
  apply decodeWith_error
  rw [header_eq] at hne ⊢
  simp only [List.cons_append, List.nil_append, List.take_succ_cons, List.take_zero, List.drop_succ_cons,
    List.drop_zero] at hne ⊢
  rw [checkFrame_cons _ _ _ _ _ _ _ (by simp), if_neg (by decide)]
  have hw : wrap32 (len4 l0 l1 l2 l3) ≠ ((payload.length : Nat) : Int) := by
    intro hw
    obtain ⟨e0, e1, e2, e3⟩ := wrap32_len4_eq (by omega) hw
    exact hne (by rw [e0, e1, e2, e3])
  simp only [List.length_cons]
  rw [if_pos (by
    have : payload.length + 0 + 1 + 1 + 1 + 1 + 1 + 1 + 1 + 1 - 8 = payload.length := by omega
    first | (rw [this]; exact hw) | (simp only [Nat.add_sub_cancel]; exact hw) | (simpa using hw))]

/-- The 32 single-bit changes of the four length bytes (bits 0..7 of bytes 2..5) are rejected. -/
theorem length_bitflip_rejected (unpack : Bytes → Option α) (ts : Nat) (payload r : Bytes)
    (h : encodeFrame ts payload = .ok r) (i j : Nat) (hi : 2 ≤ i ∧ i < 6) (hj : j < 8) :
    decodeWith unpack (flipBit r i j) = .error .badLength := by
  have hr := (encodeFrame_ok h).2
  have key := length_altered_rejected unpack ts payload r h
  rw [hr, header_eq] at key ⊢
  simp only [List.cons_append, List.nil_append, List.take_succ_cons, List.take_zero, List.drop_succ_cons,
    List.drop_zero] at key
  have hi' : i = 2 ∨ i = 3 ∨ i = 4 ∨ i = 5 := by omega
  unfold flipBit
  rcases hi' with rfl | rfl | rfl | rfl
  · simp only [List.cons_append, List.nil_append, List.getD_cons_succ, List.getD_cons_zero, List.set_cons_succ, List.set_cons_zero]
    apply key
    intro hc; injection hc with h0 _; exact xor_bit_ne _ j hj h0
  · simp only [List.cons_append, List.nil_append, List.getD_cons_succ, List.getD_cons_zero, List.set_cons_succ, List.set_cons_zero]
    apply key
    intro hc; injection hc with _ hc; injection hc with h0 _; exact xor_bit_ne _ j hj h0
  · simp only [List.cons_append, List.nil_append, List.getD_cons_succ, List.getD_cons_zero, List.set_cons_succ, List.set_cons_zero]
    apply key
    intro hc; injection hc with _ hc; injection hc with _ hc; injection hc with h0 _; exact xor_bit_ne _ j hj h0
  · simp only [List.cons_append, List.nil_append, List.getD_cons_succ, List.getD_cons_zero, List.set_cons_succ, List.set_cons_zero]
    apply key
    intro hc; injection hc with _ hc; injection hc with _ hc; injection hc with _ hc; injection hc with h0 _; exact xor_bit_ne _ j hj h0
/-! ## MessagePack payload -/

/-- **The payload codec is lossless** on every value `packb` accepts (nulls, booleans, integers in
`[-2^63, 2^64)`, floats by bit pattern, text, binary, nested lists and text-keyed maps), at every
nesting depth below the fuel, and it stops exactly at the end of the value. -/
theorem unpack_pack (v : PyVal) (fuel : Nat) (rest : Bytes)
    (hp : packable v = true) (hd : cdepth v < fuel) :
    unpack fuel (pack v ++ rest) = some (v, rest) :=
  unpack_pack' v fuel rest hp hd

/-- **The decoder's range is the encoder's domain, for arbitrary bytes**: whatever the payload
codec reads from any buffer is a value `packb` accepts (integers in `[-2^63, 2^64)`, sizes below
`2^32`, nesting at most the fuel) — no family of MessagePack (float32, non-minimal integer/str/bin/
array/map headers) leads outside it, the ext families and `0xc1` are refused — and it was read from
a non-empty prefix: the unread rest is a proper suffix of the buffer. -/
theorem unpack_in_domain (fuel : Nat) (bs : Bytes) (v : PyVal) (rest : Bytes)
    (h : unpack fuel bs = some (v, rest)) :
    packable v = true ∧ cdepth v ≤ fuel ∧ rest <:+ bs ∧ rest.length < bs.length :=
  unpack_sound fuel bs v rest h

/-- **Decoding normalises**: a value read from any bytes, packed again (smallest encodings) and
read again is the same value: `unpack ∘ pack ∘ unpack = unpack`. -/
theorem unpack_canonical (fuel : Nat) (bs : Bytes) (v : PyVal) (rest rest' : Bytes)
    (h : unpack fuel bs = some (v, rest)) :
    unpack (fuel + 1) (pack v ++ rest') = some (v, rest') := by
  obtain ⟨hp, hd, _⟩ := unpack_sound fuel bs v rest h
  exact unpack_pack v (fuel + 1) rest' hp (by omega)

/-! ## Rows -/

/-- No item of the row has the reserved two-element form `["__datetime__", x]`. -/
def NoReserved (row : List PyVal) : Prop := ∀ v ∈ row, isReserved v = false

/-- **Round trip**: whatever `Row.as_bytes` emits for a row without reserved items decodes to the
same row, value for value and in order (and in particular is accepted). No hypothesis on sizes,
depth or integer range is needed: the encoder refuses what it cannot represent. -/
theorem row_roundtrip (ts : Nat) (row : List PyVal) (r : Bytes)
    (h : encodeRow ts row = .ok r) (hr : NoReserved row) :
    decodeRow r = .ok (row.map Item.val) := by
  unfold encodeRow encodeWith at h
  cases hp : packRow row with
  | none => rw [hp] at h; cases h
  | some p =>
    rw [hp] at h
    simp only [] at h
    unfold packRow packb at hp
    split at hp
    · rename_i hc
      injection hp with hp
      subst hp
      simp only [Bool.and_eq_true] at hc
      have hc2 : cdepth (.list row) ≤ 255 := of_decide_eq_true hc.2
      unfold decodeRow
      rw [decodeWith_ok _ (check_encode ts _ r h)]
      have hu : unpackb (pack (.list row)) = some (.list row) := by
        unfold unpackb
        have := unpack_pack (.list row) unpackFuel [] hc.1 (by simp only [unpackFuel]; omega)
        rw [List.append_nil] at this
        rw [this]
      have hm : row.mapM post = some (row.map Item.val) := by
        clear h hc hu hc2
        induction row with
        | nil => rfl
        | cons v vs ih =>
          have hv : post v = some (.val v) := by
            have := hr v (by simp)
            unfold post
            rw [this]
            rfl
          have := ih (fun w hw => hr w (by simp [hw]))
          simp [List.mapM_cons, hv, this]
      unfold unpackRow
      rw [hu]
      simp only []
      rw [hm]
    · cases hp

/-- Every record `Row.as_bytes` emits — for any row whatsoever — passes the decoder's guards. -/
theorem emitted_accepted (ts : Nat) (row : List PyVal) (r : Bytes) (h : encodeRow ts row = .ok r) :
    ∃ p, checkFrame r = .ok p := by
  unfold encodeRow encodeWith at h
  cases hp : packRow row with
  | none => rw [hp] at h; cases h
  | some p => rw [hp] at h; exact ⟨p, check_encode ts p r h⟩

/-- The encoder does emit a record for every packable row within the limits. -/
theorem row_encode_total (ts : Nat) (row : List PyVal)
    (hp : packable (.list row) = true) (hd : cdepth (.list row) ≤ packDepthLimit)
    (hl : (pack (.list row)).length ≤ Gen.Row.maxRecord) (ht : ts < 2 ^ 64) :
    ∃ r, encodeRow ts row = .ok r := by
  unfold encodeRow encodeWith packRow packb
  rw [if_pos (by simp [hp, hd])]
  exact (encode_total ts _).1 hl ht

/-- **Every accepted buffer is equivalent to an emitted record**: if the decoder turns an arbitrary
buffer into a row, the payload is a MessagePack array `row` of the encoder's domain, and *whatever*
record the encoder emits for `row` decodes to the very same items (datetime rewrites included):
`decode ∘ encode ∘ decode = decode`. Nothing the decoder accepts lies outside what the encoder can
express. -/
theorem decoded_reencodes (data : Bytes) (items : List Item) (h : decodeRow data = .ok items) :
    ∃ p row, checkFrame data = .ok p ∧ unpackb p = some (.list row) ∧ row.mapM post = some items ∧
      packable (.list row) = true ∧ cdepth (.list row) ≤ unpackFuel ∧
      ∀ ts r, encodeRow ts row = .ok r → decodeRow r = .ok items := by
  unfold decodeRow decodeWith at h
  cases hc : checkFrame data with
  | error e => rw [hc] at h; cases h
  | ok p =>
    rw [hc] at h
    simp only [] at h
    cases hu : unpackRow p with
    | none => rw [hu] at h; cases h
    | some its =>
      rw [hu] at h
      injection h with h
      subst h
      unfold unpackRow at hu
      cases hb : unpackb p with
      | none => rw [hb] at hu; cases hu
      | some v =>
        rw [hb] at hu
        match v, hb, hu with
        | .list row, hb, hu =>
          simp only [] at hu
          have hb' := hb
          unfold unpackb at hb'
          cases hk : unpack unpackFuel p with
          | none => rw [hk] at hb'; cases hb'
          | some q =>
            obtain ⟨v', rest⟩ := q
            rw [hk] at hb'
            injection hb' with hb'
            subst hb'
            obtain ⟨hp, hd, _⟩ := unpack_sound unpackFuel p _ rest hk
            refine ⟨p, row, rfl, hb, hu, hp, hd, ?_⟩
            intro ts r he
            unfold encodeRow encodeWith at he
            cases hpk : packRow row with
            | none => rw [hpk] at he; cases he
            | some pl =>
              rw [hpk] at he
              simp only [] at he
              unfold packRow packb at hpk
              split at hpk
              · rename_i hcnd
                injection hpk with hpk
                subst hpk
                simp only [Bool.and_eq_true] at hcnd
                have hc2 : cdepth (.list row) ≤ 255 := of_decide_eq_true hcnd.2
                unfold decodeRow
                rw [decodeWith_ok _ (check_encode ts _ r he)]
                have hu2 : unpackb (pack (.list row)) = some (.list row) := by
                  unfold unpackb
                  have := unpack_pack (.list row) unpackFuel [] hcnd.1 (by simp only [unpackFuel]; omega)
                  rw [List.append_nil] at this
                  rw [this]
                unfold unpackRow
                rw [hu2]
                simp only []
                rw [hu]
              · cases hpk

/-! ## The property, stated of the translated code

The same clauses with `Gen.RowFns.as_bytes_frame` (what `Row.as_bytes` does with the packed row and the
clock) and `Gen.RowFns.from_bytes_cython` (the decoder as written) in place of the model's functions. -/

/-- **Round trip and acceptance, of the code as written**: whatever the translated `as_bytes` emits for the
packed form of a row without reserved items, the translated `from_bytes_cython` turns back into that row. -/
theorem code_roundtrip (d : Bool) (ts : Nat) (row : List PyVal) (p r : Bytes) (hp : packRow row = some p)
    (h : Gen.RowFns.as_bytes_frame d ts p = .ok r) (hr : NoReserved row) :
    Gen.RowFns.from_bytes_cython r = .ok (row.map Item.val) := by
  rw [generated_as_bytes_eq_model] at h
  rw [generated_from_bytes_eq_model]
  apply row_roundtrip ts row r _ hr
  unfold encodeRow encodeWith
  rw [hp]
  exact h

/-- **Torn, extended and header-altered records are rejected with a data error, of the code as written**:
every strict prefix, every non-empty extension, every other version nibble and every other length field of
a record the translated `as_bytes` emits makes the translated `from_bytes_cython` raise `DataError`. -/
theorem code_alterations_rejected (d : Bool) (ts : Nat) (p r : Bytes) (h : Gen.RowFns.as_bytes_frame d ts p = .ok r) :
    (∀ k, k < r.length → ∃ e, Gen.RowFns.from_bytes_cython (r.take k) = .error e ∧ e.isDataError = true) ∧
    (∀ s, s ≠ [] → Gen.RowFns.from_bytes_cython (r ++ s) = .error .badLength) ∧
    (∀ b : UInt8, (b.toNat &&& 240) ≠ 16 → Gen.RowFns.from_bytes_cython (r.set 0 b) = .error .malformed) ∧
    (∀ l0 l1 l2 l3 : UInt8, [l0, l1, l2, l3] ≠ (r.drop 2).take 4 →
      Gen.RowFns.from_bytes_cython (r.take 2 ++ [l0, l1, l2, l3] ++ r.drop 6) = .error .badLength) := by
  rw [generated_as_bytes_eq_model] at h
  simp only [generated_from_bytes_eq_model]
  refine ⟨fun k hk => ?_, fun s hs => ?_, fun b hb => ?_, fun l0 l1 l2 l3 hne => ?_⟩
  · exact torn_rejected unpackRow ts p r h k hk
  · exact extended_rejected unpackRow ts p r s h hs
  · exact version_altered_rejected unpackRow ts p r h b hb
  · exact length_altered_rejected unpackRow ts p r h l0 l1 l2 l3 hne

/-! ## The Python glue: `Row.from_bytes` as written, and the kind of row object `as_bytes` is called on

The compiled decoder is reached through `Row.from_bytes` (orso/row.py:131-141) and the encoder runs on a row
*object*.  Both are translated from the working tree (`Gen.RowFns.from_bytes`; the `selfHasDict` argument of
`Gen.RowFns.as_bytes_frame`), with outcomes the codec alone never has: a return value that is not a row, an
exception of the glue's own (`RowGlue.Out`). -/

/-- **`Row.from_bytes` as written is "call the decoder, wrap its tuple in `cls`"** — nothing in front of the call,
nothing behind it. -/
theorem generated_glue_eq_model (data : Bytes) : Gen.RowFns.from_bytes data = RowGlue.fromBytes data := by
  unfold Gen.RowFns.from_bytes RowGlue.fromBytes
  rw [generated_from_bytes_eq_model]

/-- (Placed here so that, should it stop checking, it is counted against the theorem above: it speaks about the same
generated definition.)  Non-vacuity of the glue theorems: tears at 0 and at 1 byte are data errors (not an `IndexError` of the glue);
the smallest record with a bit of the unguarded flags byte set is a row (not `None`); an emitted record, torn in the
middle, extended. -/
example :
    Gen.RowFns.from_bytes [] = .raised .malformed ∧ Gen.RowFns.from_bytes [16] = .raised .malformed ∧
    Gen.RowFns.from_bytes [16, 1, 0, 0, 0, 1, 0, 0, 0, 0, 0, 0, 0, 0, 0x90] = .row [] ∧
    Gen.RowFns.from_bytes [16, 0, 0, 0, 0, 2, 0, 0, 0, 0, 0, 0, 0, 7, 0x91, 1] = .row [.val (.int 1)] ∧
    Gen.RowFns.from_bytes [16, 0, 0, 0, 0, 2, 0, 0, 0, 0, 0, 0, 0, 7, 0x91] = .raised .badLength ∧
    Gen.RowFns.from_bytes [16, 0, 0, 0, 0, 2, 0, 0, 0, 0, 0, 0, 0, 7, 0x91, 1, 10] = .raised .badLength := by decide

/-- **Whatever the buffer, `Row.from_bytes` ends in a row or in the decoder's own exception** — the decoder's
outcome, unchanged: it never answers with something that is not a row (`None`), never raises an exception of its
own (`IndexError` on a buffer shorter than an index it reads).  ("… is rejected with a data error instead of being
decoded …": the rejection the guards produce is what the caller sees.) -/
theorem glue_outcome (data : Bytes) :
    (∃ items, Gen.RowFns.from_bytes data = .row items ∧ decodeRow data = .ok items) ∨
    (∃ e, Gen.RowFns.from_bytes data = .raised e ∧ decodeRow data = .error e) := by
  rw [generated_glue_eq_model]
  unfold RowGlue.fromBytes RowGlue.callDecoder RowGlue.rowNew
  cases h : decodeRow data with
  | error e => exact .inr ⟨e, rfl, rfl⟩
  | ok t => exact .inl ⟨t, rfl, rfl⟩

/-- **Round trip through the glue, for every kind of row object**: the record `as_bytes` emits for a row without
reserved items — whether or not the object has a `__dict__` — comes back from `Row.from_bytes` as a row with the
same items in the same order. -/
theorem glue_roundtrip (d : Bool) (ts : Nat) (row : List PyVal) (p r : Bytes) (hp : packRow row = some p)
    (h : Gen.RowFns.as_bytes_frame d ts p = .ok r) (hr : NoReserved row) :
    Gen.RowFns.from_bytes r = .row (row.map Item.val) := by
  rw [generated_glue_eq_model]
  unfold RowGlue.fromBytes RowGlue.callDecoder RowGlue.rowNew
  rw [← generated_from_bytes_eq_model, code_roundtrip d ts row p r hp h hr]

/-- **Torn, extended and header-altered records are rejected with a data error by `Row.from_bytes`** (every tear
point from 0 on: the empty buffer and the one-byte buffer included). -/
theorem glue_alterations_rejected (d : Bool) (ts : Nat) (p r : Bytes) (h : Gen.RowFns.as_bytes_frame d ts p = .ok r) :
    (∀ k, k < r.length → (Gen.RowFns.from_bytes (r.take k)).isDataError = true) ∧
    (∀ s, s ≠ [] → Gen.RowFns.from_bytes (r ++ s) = .raised .badLength) ∧
    (∀ b : UInt8, (b.toNat &&& 240) ≠ 16 → Gen.RowFns.from_bytes (r.set 0 b) = .raised .malformed) ∧
    (∀ l0 l1 l2 l3 : UInt8, [l0, l1, l2, l3] ≠ (r.drop 2).take 4 →
      Gen.RowFns.from_bytes (r.take 2 ++ [l0, l1, l2, l3] ++ r.drop 6) = .raised .badLength) := by
  obtain ⟨h1, h2, h3, h4⟩ := code_alterations_rejected d ts p r h
  simp only [generated_glue_eq_model, RowGlue.fromBytes, ← generated_from_bytes_eq_model]
  refine ⟨fun k hk => ?_, fun s hs => ?_, fun b hb => ?_, fun l0 l1 l2 l3 hne => ?_⟩
  · obtain ⟨e, he, hd⟩ := h1 k hk
    rw [he]; exact hd
  · rw [h2 s hs]; rfl
  · rw [h3 b hb]; rfl
  · rw [h4 l0 l1 l2 l3 hne]; rfl

/-- **The kind of row object is not an input of the encoder**: an instance of `Row` itself (no `__dict__`), of a
class made by `Row.create_class`, of a user subclass, a row handed back by `from_bytes` — the same clock and
payload give the same outcome, record or refusal. -/
theorem object_kind_irrelevant (d d' : Bool) (ts : Nat) (payload : Bytes) :
    Gen.RowFns.as_bytes_frame d ts payload = Gen.RowFns.as_bytes_frame d' ts payload := by
  rw [generated_as_bytes_eq_model, generated_as_bytes_eq_model]

/-! ## Arbitrary buffers: the decoder's outcome is one of four, each with its exact cause -/

/-- **Every buffer either decodes to a row or is rejected, and nothing else can happen**: for an
arbitrary byte string the decoder model gives exactly one of
* "Data malformed" — precisely when the buffer is shorter than the header or its version nibble is wrong,
* "incorrect length" — precisely when those pass and the length field differs from the bytes that follow,
* a payload error — precisely when the guards pass and the payload is not a MessagePack array whose
  reserved items carry a number,
* a row — precisely the one the payload codec reads from the bytes after the header.
(`unknownOp`, the outcome for a comparison operator the model does not know, cannot occur with the
operators extracted from the source.) -/
theorem decode_total (data : Bytes) :
    (decodeRow data = .error .malformed ∧
      (data.length < Gen.Row.decHeaderSize ∨ (byteAt data 0 &&& Gen.Row.nibbleMask) ≠ Gen.Row.nibbleValue)) ∨
    (decodeRow data = .error .badLength ∧ Gen.Row.decHeaderSize ≤ data.length ∧
      (byteAt data 0 &&& Gen.Row.nibbleMask) = Gen.Row.nibbleValue ∧
      recordSize data ≠ (data.length : Int) - Gen.Row.decHeaderSize) ∨
    (decodeRow data = .error .payloadError ∧ checkFrame data = .ok (data.drop Gen.Row.payloadStart) ∧
      unpackRow (data.drop Gen.Row.payloadStart) = none) ∨
    (∃ items, decodeRow data = .ok items ∧ checkFrame data = .ok (data.drop Gen.Row.payloadStart) ∧
      unpackRow (data.drop Gen.Row.payloadStart) = some items) := by
  simp only [Gen.Row.decHeaderSize, Gen.Row.nibbleMask, Gen.Row.nibbleValue, Gen.Row.payloadStart]
  have hcf := checkFrame_eq data
  by_cases h1 : (data.length : Int) < 14
  · rw [if_pos h1] at hcf
    exact .inl ⟨decodeWith_error _ hcf, .inl (by omega)⟩
  · rw [if_neg h1] at hcf
    by_cases h2 : (byteAt data 0 &&& 240) ≠ 16
    · rw [if_pos h2] at hcf
      exact .inl ⟨decodeWith_error _ hcf, .inr h2⟩
    · rw [if_neg h2] at hcf
      by_cases h3 : recordSize data ≠ (data.length : Int) - 14
      · rw [if_pos h3] at hcf
        exact .inr (.inl ⟨decodeWith_error _ hcf, by omega, by simpa using h2, by simpa using h3⟩)
      · rw [if_neg h3] at hcf
        have hd : decodeRow data = _ := decodeWith_ok unpackRow hcf
        cases hu : unpackRow (data.drop 14) with
        | none => rw [hu] at hd; exact .inr (.inr (.inl ⟨hd, hcf, rfl⟩))
        | some items => rw [hu] at hd; exact .inr (.inr (.inr ⟨items, hd, hcf, rfl⟩))

/-- **What the guards accept is exactly the emitted shape**: a buffer passes the three guards with
payload `p` iff it is `b0, b1, len(p) as four big-endian bytes, eight more bytes, p` with the
version nibble in `b0` and `len(p) < 2^31`. So an accepted buffer differs from the record the
encoder emits for the same payload at most in the unguarded bits (low nibble of byte 0, byte 1,
the clock) — the converse of `check_encode`. -/
theorem accepted_iff (data p : Bytes) :
    checkFrame data = .ok p ↔
      ∃ b0 b1 ts8, (b0.toNat &&& Gen.Row.nibbleMask) = Gen.Row.nibbleValue ∧ ts8.length = 8 ∧
        p.length < 2147483648 ∧ data = b0 :: b1 :: (be 4 p.length ++ ts8 ++ p) := by
  simp only [Gen.Row.nibbleMask, Gen.Row.nibbleValue]
  constructor
  · intro h
    have hlen : 14 ≤ data.length := by
      by_cases hs : data.length < 14
      · rw [checkFrame_short data hs] at h; cases h
      · omega
    obtain ⟨p0, p1, l0, l1, l2, l3, rest, rfl⟩ := exists_cons6 data (by omega)
    have hr : 8 ≤ rest.length := by simp only [List.length_cons] at hlen; omega
    rw [checkFrame_cons _ _ _ _ _ _ _ hr] at h
    split at h
    · cases h
    · rename_i hn
      split at h
      · cases h
      · rename_i hw
        injection h with h
        have hw' : wrap32 (len4 l0 l1 l2 l3) = ((rest.length - 8 : Nat) : Int) := by simpa using hw
        have hlt : rest.length - 8 < 2147483648 := by
          have := wrap32_lt l0 l1 l2 l3
          omega
        obtain ⟨e0, e1, e2, e3⟩ := wrap32_len4_eq hlt hw'
        have hpl : p.length = rest.length - 8 := by rw [← h]; simp
        refine ⟨p0, p1, rest.take 8, by simpa using hn, by simp; omega, by omega, ?_⟩
        rw [be4, hpl, ← e0, ← e1, ← e2, ← e3, ← h]
        simp
  · rintro ⟨b0, b1, ts8, hn, hts, hp, rfl⟩
    rw [be4]
    simp only [List.cons_append, List.nil_append]
    rw [checkFrame_cons _ _ _ _ _ _ _ (by simp [hts])]
    rw [if_neg (by simpa using hn), len4_be p.length (by omega)]
    have hw : wrap32 p.length = (p.length : Int) := by simp [wrap32]; omega
    have hl : (ts8 ++ p).length - 8 = p.length := by simp [hts]
    rw [hw, hl, if_neg (by simp)]
    congr 1
    rw [← hts, List.drop_left]

/-! ## Records one after another (self-delimiting as a stream property) -/

/-- **`split (r1 ++ r2 ++ …) = [r1, r2, …]`**: any number of emitted records written one after the
other are cut back into exactly those records by their own length fields, whatever the payloads
contain (a payload may itself look like a header). -/
theorem split_concat (rs : List Bytes) (h : ∀ r ∈ rs, ∃ ts payload, encodeFrame ts payload = .ok r) :
    split rs.flatten = .ok rs :=
  splitFuel_flatten rs h _ (length_le_flatten rs (fun r hr => Emitted.ne_nil (h r hr)))

/-- **A torn tail is detected in a stream too**: complete records followed by a strict non-empty
prefix of another record (the write-ahead file after a crash) is a data error for the reader — the
complete records are not silently returned as if the file ended cleanly, nor is a record invented. -/
theorem split_torn_tail (rs : List Bytes) (h : ∀ r ∈ rs, ∃ ts payload, encodeFrame ts payload = .ok r)
    (ts : Nat) (payload r : Bytes) (hr : encodeFrame ts payload = .ok r) (k : Nat) (hk0 : 0 < k)
    (hk : k < r.length) :
    ∃ e, split (rs.flatten ++ r.take k) = .error e ∧ e.isDataError = true := by
  obtain ⟨e, he, hd⟩ := nextRecord_torn hr k hk
  have hne : r.take k ≠ [] := by
    intro hn
    have : (r.take k).length = 0 := by rw [hn]; rfl
    simp only [List.length_take] at this; omega
  refine ⟨e, ?_, hd⟩
  apply splitFuel_torn rs h _ hne e he
  have h1 := length_le_flatten rs (fun r hr => Emitted.ne_nil (h r hr))
  have h2 : 0 < (r.take k).length := List.length_pos_iff.mpr hne
  simp only [List.length_append]; omega

/-- **Round trip of a whole write-ahead buffer**: rows (without reserved items) serialised one after
the other, each with its own clock, and concatenated, are read back as the same rows in the same
order. -/
theorem stream_roundtrip (xs : List (Nat × List PyVal × Bytes))
    (h : ∀ x ∈ xs, encodeRow x.1 x.2.1 = .ok x.2.2 ∧ NoReserved x.2.1) :
    decodeStream (xs.map (·.2.2)).flatten = .ok (xs.map fun x => x.2.1.map Item.val) := by
  have hem : ∀ r ∈ xs.map (·.2.2), ∃ ts payload, encodeFrame ts payload = .ok r := by
    intro r hr
    obtain ⟨x, hx, rfl⟩ := List.mem_map.mp hr
    have he := (h x hx).1
    unfold encodeRow encodeWith at he
    cases hp : packRow x.2.1 with
    | none => rw [hp] at he; cases he
    | some p => rw [hp] at he; exact ⟨x.1, p, he⟩
  have hd : decodeAll (xs.map (·.2.2)) = .ok (xs.map fun x => x.2.1.map Item.val) :=
    decodeAllWith_map decodeRow xs (·.2.2) (fun x => x.2.1.map Item.val)
      (fun x hx => row_roundtrip x.1 x.2.1 x.2.2 (h x hx).1 (h x hx).2)
  unfold decodeStream
  rw [split_concat _ hem]
  exact hd

/-! Non-vacuity: a concrete row over several value kinds is emitted and decodes to itself; the
reserved form does not (which is why it is excluded). -/
set_option maxRecDepth 100000 in
example :
    let row : List PyVal := [.int 1, .str "a", .none, .list [.bool true, .int (-129)], .dict [("k", .bytes [1, 2])]]
    (encodeRow 7 row).toOption.bind (fun r => (decodeRow r).toOption) = some (row.map Item.val) := by decide

example : (encodeRow 7 [.list [.str "__datetime__", .int 0]]).toOption.bind (fun r => (decodeRow r).toOption)
    = some [Item.datetime (.int 0)] := by decide

/-! Non-vacuity of the rejection theorems: a concrete emitted record, torn, extended, altered. -/
example :
    (encodeFrame 7 [0x91, 1]).toOption = some [16, 0, 0, 0, 0, 2, 0, 0, 0, 0, 0, 0, 0, 7, 0x91, 1] ∧
    (checkFrame [16, 0, 0, 0, 0, 2, 0, 0, 0, 0, 0, 0, 0, 7, 0x91, 1]).toOption = some [0x91, 1] ∧
    (checkFrame [16, 0, 0, 0, 0, 2, 0, 0, 0, 0, 0, 0, 0, 7, 0x91]).toOption = none ∧
    (checkFrame [16, 0, 0, 0, 0, 2, 0, 0, 0, 0, 0, 0, 0, 7, 0x91, 1, 0]).toOption = none ∧
    (checkFrame [32, 0, 0, 0, 0, 2, 0, 0, 0, 0, 0, 0, 0, 7, 0x91, 1]).toOption = none ∧
    (checkFrame [16, 0, 0, 0, 0, 3, 0, 0, 0, 0, 0, 0, 0, 7, 0x91, 1]).toOption = none := by decide

/-! Non-vacuity of the stream theorems: two concrete records, concatenated, cut apart, and a torn tail. -/
example :
    (split ([16, 0, 0, 0, 0, 2, 0, 0, 0, 0, 0, 0, 0, 7, 0x91, 1] ++ [16, 0, 0, 0, 0, 1, 0, 0, 0, 0, 0, 0, 0, 8, 0x90])).toOption
      = some [[16, 0, 0, 0, 0, 2, 0, 0, 0, 0, 0, 0, 0, 7, 0x91, 1], [16, 0, 0, 0, 0, 1, 0, 0, 0, 0, 0, 0, 0, 8, 0x90]] ∧
    (split ([16, 0, 0, 0, 0, 2, 0, 0, 0, 0, 0, 0, 0, 7, 0x91, 1] ++ [16, 0, 0, 0, 0, 1, 0, 0, 0, 0, 0, 0, 0, 8])).toOption = none ∧
    (split []).toOption = some [] ∧
    (decodeStream ([16, 0, 0, 0, 0, 2, 0, 0, 0, 0, 0, 0, 0, 7, 0x91, 1] ++ [16, 0, 0, 0, 0, 1, 0, 0, 0, 0, 0, 0, 0, 8, 0x90])).toOption
      = some [[Item.val (.int 1)], []] := by decide

/-- The reserved form the encoder's `serialize` writes is the one the decoder rewrites (same marker,
same length): both sides are extracted from the source. -/
example : Gen.Row.reservedMarkerEnc = Gen.Row.reservedMarker ∧ Gen.Row.reservedLenEnc = Gen.Row.reservedLen := by decide

/-- The exact excluded form: a two-element list whose first element is the marker text — not a
longer list, not the marker as bytes, not the form one level down. -/
example : isReserved (.list [.str "__datetime__", .none]) = true ∧
    isReserved (.list [.str "__datetime__", .int 1, .int 2]) = false ∧
    isReserved (.list [.bytes [95], .int 1]) = false ∧
    isReserved (.list [.list [.str "__datetime__", .int 1]]) = false ∧
    isReserved (.dict [("__datetime__", .int 1)]) = false := by decide

/-- The range of `datetime.fromtimestamp` in the model: exactly at and one past each bound, ints and floats
(0xc22cef214b000000 = -62135510400.0, 0x424d7ffa20bfffff = the last double below 253402300800.0). -/
example : fromtimestamp (some (.int (-62135510400))) = some (.datetime (.int (-62135510400))) ∧
    fromtimestamp (some (.int (-62135510401))) = none ∧
    fromtimestamp (some (.int 253402300799)) = some (.datetime (.int 253402300799)) ∧
    fromtimestamp (some (.int 253402300800)) = none ∧
    fromtimestamp (some (.float 0xc22cef214b000000)) = some (.datetime (.float 0xc22cef214b000000)) ∧
    fromtimestamp (some (.float 0xc22cef214b000001)) = none ∧
    fromtimestamp (some (.float 0x424d7ffa20bfffff)) = some (.datetime (.float 0x424d7ffa20bfffff)) ∧
    fromtimestamp (some (.float 0x424d7ffa20c00000)) = none ∧
    fromtimestamp (some (.float 0x7ff8000000000000)) = none ∧ fromtimestamp (some (.float 0xfff0000000000000)) = none ∧
    fromtimestamp (some (.str "0")) = none ∧ fromtimestamp none = none := by decide

/-! ## Round 5: the whole of `Row.as_bytes`, the size guard by its numbers, `Row.nbytes`, `Row.__new__`

`Gen.RowFns.as_bytes` (the `packb` call included: which serialiser the name is bound to, `tuple(self)`, its flags),
`Gen.RowFns.nbytes` and `Gen.RowFns.row_new` are translated statement by statement from orso/row.py on every run. -/

/-- **`Row.as_bytes` as written, from its first statement on**: `packb(tuple(self), option=…, default=…)` with the
serialiser orso/row.py imports under that name (ormsgpack's), its refusal (`TypeError`) ending the call, then the framing —
computes `encodeRow` on the items of the row, for either kind of row object and whatever size `nbytes` has cached on
it before **and whatever record is kept on the object** (`k`: the value of an attribute of `self` other than the size that
`nbytes` / `as_bytes` assign — round 6).  `as_bytes` is a function of the items as they are now and of the clock, of nothing
else.  (Another serialiser, another argument than `tuple(self)`, a read of the cached size, **a kept record handed out
instead of serialising the items** — `if self._cached_bytes is not None: return self._cached_bytes`, translated
`if kept ≠ none then RowGlue.retKept kept else …` —: no longer checks.) -/
theorem generated_as_bytes_whole_eq_model (d : Bool) (c : Option Nat) (k : Option Bytes) (ts : Nat) (row : List PyVal) :
    Gen.RowFns.as_bytes d c k ts row = encodeRow ts row := by
  unfold encodeRow encodeWith packRow
  have h := fun p => generated_as_bytes_eq_model d ts p
  unfold Gen.RowFns.as_bytes_frame at h
  unfold Gen.RowFns.as_bytes RowGlue.callPackb RowGlue.tupleOf
  rw [if_pos rfl]
  cases packb (.list row) with
  | none => rfl
  | some p => exact h p

/-- The whole encoder on a concrete row of several value kinds, on an integer past 64 bits (refused by the codec), and
with / without a cached size. -/
example :
    (Gen.RowFns.as_bytes true none none 7 [.int 1, .str "a"]).toOption = some [16, 0, 0, 0, 0, 4, 0, 0, 0, 0, 0, 0, 0, 7, 0x92, 1, 0xa1, 0x61] ∧
    (Gen.RowFns.as_bytes true (some 99) none 7 [.int 1, .str "a"]).toOption = (Gen.RowFns.as_bytes false none none 7 [.int 1, .str "a"]).toOption ∧
    (Gen.RowFns.as_bytes true (some 15) (some [16, 0, 0, 0, 0, 1, 0, 0, 0, 0, 0, 0, 0, 7, 0x90]) 7 [.list [.int 1]]).toOption =
      some [16, 0, 0, 0, 0, 3, 0, 0, 0, 0, 0, 0, 0, 7, 0x91, 0x91, 1] ∧
    (match Gen.RowFns.as_bytes true none none 7 [.int (2 ^ 64)] with | .error .codec => true | _ => false) = true ∧
    (Gen.RowFns.as_bytes true none none 7 [.int (2 ^ 64 - 1)]).toOption.map (·.length) = some 24 := by decide

/-- **The size guard, by its numbers** (orso/row.py:46,173: `if record_size > MAXIMUM_RECORD_SIZE`, 16 MiB): with a 64-bit
clock the translated `as_bytes` emits a record **iff the payload has at most 16·1024·1024 bytes** — exactly at the limit it
does, one byte past it it does not — and what it refuses past the limit is the data error, whatever the clock.  The
limit is written here as a number: changing the operator (`>=`) or the constant in the source breaks this theorem. -/
theorem as_bytes_accepts_iff_payload_le_limit (d : Bool) (ts : Nat) (payload : Bytes) :
    (ts < 2 ^ 64 → ((∃ r, Gen.RowFns.as_bytes_frame d ts payload = .ok r) ↔ payload.length ≤ 16 * 1024 * 1024)) ∧
    (16 * 1024 * 1024 < payload.length → Gen.RowFns.as_bytes_frame d ts payload = .error .tooLarge) := by
  rw [generated_as_bytes_eq_model]
  -- the operator and the constant of the source are looked at here, and nowhere before: `>` and 16 MiB
  have ho : ∀ n, overCap n ↔ n > 16 * 1024 * 1024 := fun n => by unfold overCap; simp [Gen.Row.capOp, Gen.Row.maxRecord]
  unfold encodeFrame
  rw [frameDecision_eq, frameBytes_eq]
  refine ⟨fun hts => ?_, fun hl => by rw [if_pos ((ho _).2 hl)]⟩
  rw [pow_consts.2.2] at hts
  by_cases hl : payload.length ≤ 16 * 1024 * 1024
  · rw [if_neg (by rw [ho]; omega), if_neg (by omega)]; simp [hl]
  · rw [if_pos ((ho _).2 (by omega))]; simp [hl]

/-- The same for a row: `as_bytes` emits a record iff the codec packs the row and the packed form is within the limit. -/
theorem as_bytes_row_accepts_iff (d : Bool) (c : Option Nat) (k : Option Bytes) (ts : Nat) (row : List PyVal) (hts : ts < 2 ^ 64) :
    (∃ r, Gen.RowFns.as_bytes d c k ts row = .ok r) ↔ ∃ p, packRow row = some p ∧ p.length ≤ 16 * 1024 * 1024 := by
  rw [generated_as_bytes_whole_eq_model]
  unfold encodeRow encodeWith
  cases hp : packRow row with
  | none => simp
  | some p =>
    simp only [Option.some.injEq, exists_eq_left']
    rw [← generated_as_bytes_eq_model d]
    exact (as_bytes_accepts_iff_payload_le_limit d ts p).1 hts

/-- **A record is its header and its payload**: `HEADER_SIZE` of orso/row.py (14) is the length of what `as_bytes` puts in
front of the payload and the header size the decoder assumes; the payload follows unchanged. -/
theorem emitted_is_header_then_payload (d : Bool) (ts : Nat) (payload r : Bytes)
    (h : Gen.RowFns.as_bytes_frame d ts payload = .ok r) :
    r.length = Gen.Row.headerSize + payload.length ∧ r.drop Gen.Row.headerSize = payload ∧
      Gen.Row.headerSize = Gen.Row.decHeaderSize ∧ r.take 2 = Gen.Row.headerPrefix := by
  rw [generated_as_bytes_eq_model] at h
  obtain ⟨_, rfl⟩ := encodeFrame_ok h
  have hh := header_length payload.length ts
  refine ⟨by simp [hh, Gen.Row.headerSize], ?_, rfl, ?_⟩
  · simp only [Gen.Row.headerSize]
    rw [← hh, List.drop_left]
  · rw [header_eq]; rfl

/-! ### `Row.nbytes`: how a `DataFrame` reaches the guard, and one object used several times -/

/-- `Row.nbytes` as written is "size the row once, keep the size on the object": its answer and the size it leaves on
the object, whatever record is kept on the object (`k`) — and whatever the function does to that component (a record
stored and never handed out would be harmless; what `as_bytes` does with a kept record is `generated_as_bytes_whole_eq_model`). -/
theorem generated_nbytes_eq_model (d : Bool) (c : Option Nat) (k : Option Bytes) (a : Except EncErr Bytes) :
    ((Gen.RowFns.nbytes d c k a).1, (Gen.RowFns.nbytes d c k a).2.1) = RowGlue.nbytesModel d c a := by
  cases c <;> cases a <;> cases d <;> cases k <;> rfl

/-- **`DataFrame.append` reaches the size guard through `Row.nbytes`** (dataframe.py:153 sizes the new row before it keeps
it): on a fresh row object of a frame's class (it has a `__dict__`, nothing cached) whose items pack to `p`, `nbytes`
answers `HEADER_SIZE + len(p)` and keeps it when `p` has at most 16·1024·1024 bytes, and ends in the data error of
`as_bytes` — leaving nothing cached — when it has more.  Exactly at the limit the row is sized, one byte past it refused. -/
theorem nbytes_reaches_the_guard (ts : Nat) (hts : ts < 2 ^ 64) (row : List PyVal) (p : Bytes) (hp : packRow row = some p)
    (k : Option Bytes) :
    ((Gen.RowFns.nbytes true none k (Gen.RowFns.as_bytes true none k ts row)).1,
      (Gen.RowFns.nbytes true none k (Gen.RowFns.as_bytes true none k ts row)).2.1) =
      if p.length ≤ 16 * 1024 * 1024 then (.ok (some (Gen.Row.headerSize + p.length)), some (Gen.Row.headerSize + p.length))
      else (.error .tooLarge, none) := by
  rw [generated_nbytes_eq_model, generated_as_bytes_whole_eq_model]
  unfold encodeRow encodeWith
  rw [hp]
  simp only []
  have hg := as_bytes_accepts_iff_payload_le_limit true ts p
  rw [generated_as_bytes_eq_model] at hg
  by_cases hl : p.length ≤ 16 * 1024 * 1024
  · rw [if_pos hl]
    obtain ⟨r, hr⟩ := ((hg.1 hts).2 hl)
    have hlen := (emitted_is_header_then_payload true ts p r (by rw [generated_as_bytes_eq_model]; exact hr)).1
    rw [hr]
    simp [RowGlue.nbytesModel, hlen]
  · rw [if_neg hl, hg.2 (by omega)]
    rfl

/-- What `as_bytes` answers for a row does not depend on the 64-bit clock, except for the clock bytes: its size. -/
theorem encodeRow_size (ts : Nat) (hts : ts < 2 ^ 64) (row : List PyVal) :
    (encodeRow ts row).map List.length = RowObject.sizeOf row := by
  unfold RowObject.sizeOf encodeRow encodeWith
  cases hp : packRow row with
  | none => rfl
  | some p =>
    simp only []
    have hg := as_bytes_accepts_iff_payload_le_limit true ts p
    rw [generated_as_bytes_eq_model] at hg
    have hm : Gen.Row.maxRecord = 16777216 := rfl
    by_cases hl : p.length ≤ 16 * 1024 * 1024
    · obtain ⟨r, hr⟩ := ((hg.1 hts).2 hl)
      have hlen := (emitted_is_header_then_payload true ts p r (by rw [generated_as_bytes_eq_model]; exact hr)).1
      rw [hr, if_neg (by omega)]
      simp [Except.map, hlen]
    · rw [hg.2 (by omega), if_pos (by omega)]
      rfl

/-- One call of the machine against the specification: whatever record is kept on the object (`k`), an `nbytes` call on an
object not sized yet answers `sizeSpec` and keeps as size exactly what `spec` says. -/
theorem nbytes_step (d : Bool) (row : List PyVal) (k : Option Bytes) (ts : Nat) (hts : ts < 2 ^ 64) :
    ((Gen.RowFns.nbytes d none k (Gen.RowFns.as_bytes d none k ts row)).1,
      (Gen.RowFns.nbytes d none k (Gen.RowFns.as_bytes d none k ts row)).2.1) =
      (RowObject.sizeSpec d row, RowObject.sizedTo (RowObject.sizeSpec d row)) := by
  have hsz := encodeRow_size ts hts row
  rw [generated_nbytes_eq_model, generated_as_bytes_whole_eq_model]
  cases he : encodeRow ts row with
  | error e =>
    rw [he] at hsz
    have hs : RowObject.sizeOf row = .error e := by rw [← hsz]; rfl
    simp [RowObject.sizeSpec, RowObject.sizedTo, hs, RowGlue.nbytesModel]
  | ok r =>
    rw [he] at hsz
    have hs : RowObject.sizeOf row = .ok r.length := by rw [← hsz]; rfl
    cases d <;> simp [RowObject.sizeSpec, RowObject.sizedTo, hs, RowGlue.nbytesModel]

/-- **One row object used any number of times, in any order, and edited in place in between** (`as_bytes`, `nbytes`,
an in-place edit of a list / map inside the row, `as_bytes` again, …; 64-bit clocks; from *any* state of the object: any
cached size, any kept record): the machine made of the translated `Row.as_bytes` / `Row.nbytes` answers what
`RowObject.spec` says — **every `as_bytes` is the record of the items as they are at that moment** (`encodeRow ts row`
with `row` the value after the last edit), never one made from an earlier value; `nbytes` answers the size kept from the
first sizing.  No earlier call on the object changes a later record ("every record the encoder emits": also the second
and the third one of the same object, also after a `DataFrame` sized the row, also after the row's nested values
changed since). -/
theorem object_history_irrelevant (d : Bool) (ops : List RowObject.Op) (hts : RowObject.Clocks64 ops)
    (row : List PyVal) (c : Option Nat) (k : Option Bytes) :
    RowObject.run d ⟨row, c, k⟩ ops = RowObject.spec d row c ops := by
  induction ops generalizing row c k with
  | nil => simp [RowObject.run, RowObject.spec]
  | cons op ops ih =>
    have hrest : RowObject.Clocks64 ops := fun op' h' => hts op' (by simp [h'])
    cases op with
    | asBytes ts =>
      simp only [RowObject.run, RowObject.step, RowObject.spec, generated_as_bytes_whole_eq_model]
      rw [ih hrest]
    | edit row' =>
      simp only [RowObject.run, RowObject.step, RowObject.spec]
      rw [ih hrest]
    | nbytes ts =>
      have h1 : ts < 2 ^ 64 := hts (.nbytes ts) (by simp)
      cases c with
      | some n =>
        have h2 := Prod.mk.inj (generated_nbytes_eq_model d (some n) k (Gen.RowFns.as_bytes d (some n) k ts row))
        have h2 : _ = Except.ok (some n) ∧ _ = some n := h2
        simp only [RowObject.run, RowObject.step, RowObject.spec, h2.1, h2.2]
        rw [ih hrest]
      | none =>
        have h2 := Prod.mk.inj (nbytes_step d row k ts h1)
        simp only [RowObject.run, RowObject.step, RowObject.spec, h2.1, h2.2]
        rw [ih hrest]

/-- Non-vacuity: a frame row sized, serialised, sized again, serialised again; the same on an instance of `Row` itself;
a row holding a list: sized (15 + 2 bytes), the list edited in place (one more element), serialised — the record is that
of the edited row (one byte longer, last byte the new element), the size answered afterwards is still the one kept. -/
example :
    (RowObject.run true (RowObject.fresh [.int 1]) [.nbytes 5, .asBytes 6, .nbytes 7, .asBytes 8]).map (fun r => match r with
        | .record (.ok b) => b.length + b.getLast!.toNat * 1000 | .size (.ok (some n)) => n | _ => 0) = [16, 1016, 16, 1016] ∧
    (RowObject.run false (RowObject.fresh [.int 1]) [.nbytes 5, .asBytes 6]).map (fun r => match r with
        | .record (.ok b) => b.length | .size (.error .attribute) => 77 | _ => 0) = [77, 16] ∧
    (RowObject.run true (RowObject.fresh [.list [.int 1]]) [.nbytes 5, .edit [.list [.int 1, .int 9]], .asBytes 6, .nbytes 7]).map (fun r => match r with
        | .record (.ok b) => b.length + b.getLast!.toNat * 1000 | .size (.ok (some n)) => n | .edited => 1 | _ => 0) = [17, 1, 9018, 17] := by decide

/-- **Every record is that of the object's current value**: in any history (calls and in-place edits, 64-bit clocks,
any state of the object to begin with), the answer to the `i`-th step, when that step is `as_bytes` at clock `ts`, is
`encodeRow ts` of the items the object has after the edits among the first `i` steps — by `row_roundtrip` it decodes to
exactly those items (the row AS IT IS NOW), not to what the row was when it was last sized or serialised. -/
theorem records_follow_edits (d : Bool) (ops : List RowObject.Op) (hts : RowObject.Clocks64 ops)
    (row : List PyVal) (c : Option Nat) (k : Option Bytes) (i : Nat) (ts : Nat) (hi : ops[i]? = some (.asBytes ts)) :
    (RowObject.run d ⟨row, c, k⟩ ops)[i]? = some (.record (encodeRow ts (RowObject.valueAfter row (ops.take i)))) := by
  rw [object_history_irrelevant d ops hts]
  clear hts
  induction ops generalizing row c i with
  | nil => simp at hi
  | cons op ops ih =>
    cases i with
    | zero =>
      simp only [List.getElem?_cons_zero, Option.some.injEq] at hi
      subst hi
      simp [RowObject.spec, RowObject.valueAfter]
    | succ i =>
      simp only [List.getElem?_cons_succ] at hi
      cases op with
      | asBytes t => simpa [RowObject.spec, RowObject.valueAfter] using ih row c i hi
      | edit row' => simpa [RowObject.spec, RowObject.valueAfter] using ih row' c i hi
      | nbytes t =>
        cases c with
        | some n => simpa [RowObject.spec, RowObject.valueAfter] using ih row (some n) i hi
        | none => simpa [RowObject.spec, RowObject.valueAfter] using ih row _ i hi

/-- **Round trip of an edited object**: a row object that was sized / serialised, then had its nested lists / maps edited
in place (now holding `row'`, without the reserved form), then serialised: whatever the machine answers to that last
`as_bytes` decodes — by the translated `Row.from_bytes` — to `row'`, value for value and in order. -/
theorem edited_object_roundtrip (d : Bool) (ops : List RowObject.Op) (hts : RowObject.Clocks64 ops)
    (row row' : List PyVal) (c : Option Nat) (k : Option Bytes) (ts : Nat) (r : Bytes) (hr : NoReserved row')
    (h : (RowObject.run d ⟨row, c, k⟩ (ops ++ [.edit row', .asBytes ts])).getLast? = some (.record (.ok r))) :
    Gen.RowFns.from_bytes r = .row (row'.map Item.val) := by
  have hrun : ∀ (o : RowObject.Obj) (ops : List RowObject.Op), RowObject.Clocks64 ops →
      (RowObject.run d o (ops ++ [.edit row', .asBytes ts])).getLast? = some (.record (encodeRow ts row')) := by
    intro o ops
    induction ops generalizing o with
    | nil => intro _; simp [RowObject.run, RowObject.step, generated_as_bytes_whole_eq_model]
    | cons op ops ih =>
      intro h'
      have := ih (RowObject.step d o op).2 (fun op' hm => h' op' (by simp [hm]))
      simp only [List.cons_append, RowObject.run]
      rw [List.getLast?_cons_of_ne_nil (by cases ops <;> simp [RowObject.run])]
      exact this
  rw [hrun _ ops hts] at h
  simp only [Option.some.injEq, RowObject.Res.record.injEq] at h
  rw [generated_glue_eq_model]
  unfold RowGlue.fromBytes RowGlue.callDecoder RowGlue.rowNew
  rw [row_roundtrip ts row' r h hr]

/-- The size an unedited object answers: on a history without edits, from a fresh object (or one holding its true
size), every `nbytes` answers the size of the record every `as_bytes` of the history emits (`sizeSpec`). -/
theorem unedited_object_sizes (d : Bool) (row : List PyVal) (ops : List RowObject.Op) (hts : RowObject.Clocks64 ops)
    (hne : ∀ op ∈ ops, match op with | .edit _ => False | _ => True)
    (c : Option Nat) (k : Option Bytes) (hc : c = none ∨ (d = true ∧ ∃ n, c = some n ∧ RowObject.sizeOf row = .ok n)) :
    RowObject.run d ⟨row, c, k⟩ ops = ops.map (fun op => match op with
      | .asBytes ts => RowObject.Res.record (encodeRow ts row)
      | .nbytes _ => RowObject.Res.size (RowObject.sizeSpec d row)
      | .edit _ => RowObject.Res.edited) := by
  rw [object_history_irrelevant d ops hts]
  clear hts
  induction ops generalizing c with
  | nil => rfl
  | cons op ops ih =>
    have hrest : ∀ op' ∈ ops, match op' with | .edit _ => False | _ => True := fun op' h' => hne op' (by simp [h'])
    cases op with
    | edit r => exact (hne (.edit r) (by simp)).elim
    | asBytes ts => simp only [RowObject.spec, List.map_cons]; rw [ih hrest c hc]
    | nbytes ts =>
      rcases hc with rfl | ⟨rfl, n, rfl, hn⟩
      · simp only [RowObject.spec, List.map_cons]
        congr 1
        cases hs : RowObject.sizeOf row with
        | error e =>
          have : RowObject.sizedTo (RowObject.sizeSpec d row) = none := by simp [RowObject.sizeSpec, RowObject.sizedTo, hs]
          rw [this]; exact ih hrest none (.inl rfl)
        | ok n =>
          cases d with
          | false =>
            have : RowObject.sizedTo (RowObject.sizeSpec false row) = none := by simp [RowObject.sizeSpec, RowObject.sizedTo, hs]
            rw [this]; exact ih hrest none (.inl rfl)
          | true =>
            have : RowObject.sizedTo (RowObject.sizeSpec true row) = some n := by simp [RowObject.sizeSpec, RowObject.sizedTo, hs]
            rw [this]; exact ih hrest (some n) (.inr ⟨rfl, n, rfl, hs⟩)
      · simp only [RowObject.spec, List.map_cons]
        rw [ih hrest (some n) (.inr ⟨rfl, n, rfl, hn⟩)]
        simp [RowObject.sizeSpec, hn]

/-! ### Rows with reserved items: what exactly happens to the form the statement excludes -/

/-- **Round trip for every row, reserved items included**: whatever `as_bytes` emits for *any* row decodes to the row
with each reserved item `["__datetime__", x]` replaced by the `datetime` of `x` — and is refused with a payload error
(not a data error, not another row) precisely when some reserved item carries no number inside the range of
`datetime.fromtimestamp`; every other item comes back value for value and in order.  `row_roundtrip` is the case
where `post` is the identity; this is why exactly the two-element form is excluded, and nothing else. -/
theorem row_roundtrip_general (ts : Nat) (row : List PyVal) (r : Bytes) (h : encodeRow ts row = .ok r) :
    decodeRow r = match row.mapM post with
      | some items => .ok items
      | none => .error .payloadError := by
  unfold encodeRow encodeWith at h
  cases hp : packRow row with
  | none => rw [hp] at h; cases h
  | some p =>
    rw [hp] at h
    simp only [] at h
    unfold packRow packb at hp
    split at hp
    · rename_i hc
      injection hp with hp
      subst hp
      simp only [Bool.and_eq_true] at hc
      have hc2 : cdepth (.list row) ≤ 255 := of_decide_eq_true hc.2
      unfold decodeRow
      rw [decodeWith_ok _ (check_encode ts _ r h)]
      have hu : unpackb (pack (.list row)) = some (.list row) := by
        unfold unpackb
        have := unpack_pack (.list row) unpackFuel [] hc.1 (by simp only [unpackFuel]; omega)
        rw [List.append_nil] at this
        rw [this]
      unfold unpackRow
      rw [hu]
      simp only []
      cases row.mapM post <;> rfl
    · cases hp

/-- A reserved item whose second element is a number in range becomes a `datetime`; anything else refuses the row. -/
example :
    (encodeRow 7 [.int 1, .list [.str "__datetime__", .float 0x41d9000000000000]]).toOption.bind (fun r => (decodeRow r).toOption)
      = some [.val (.int 1), .datetime (.float 0x41d9000000000000)] ∧
    (encodeRow 7 [.list [.str "__datetime__", .str "x"]]).toOption.map (fun r => (decodeRow r).toOption) = some none ∧
    (encodeRow 7 [.list [.str "__datetime__", .int 253402300800]]).toOption.map (fun r => (decodeRow r).toOption) = some none := by decide

/-! ### `Row.__new__`: the object `as_bytes` runs on, from a tuple and from a dictionary -/

/-- `Row.__new__` as written: a tuple is kept; a dictionary (a subclass instance is copied into an exact one first, and so
is a mapping that is not a `dict` at all: `if not isinstance(data, (dict, tuple, list)) and isinstance(data, Mapping)`) is
laid out by `extract_dict_columns` over the fields of the class. -/
theorem generated_row_new_eq_model (fields : Option (List String)) (data : RowGlue.NewArg) :
    Gen.RowFns.row_new fields data = RowGlue.rowNewModel fields data := by
  unfold Gen.RowFns.row_new RowGlue.rowNewModel
  cases data with
  | tuple items => rfl
  | dict e es => cases e <;> rfl
  | mapping es => rfl

/-- **`cls(tuple)` keeps the items, in order** — what `Row.from_bytes` does with the decoder's tuple and what every
`R(values)` of the correspondence does: the row object `as_bytes` runs on holds exactly the values given. -/
theorem row_new_tuple (fields : Option (List String)) (items : List PyVal) :
    Gen.RowFns.row_new fields (.tuple items) = .ok items := by
  rw [generated_row_new_eq_model]; rfl

/-- **`cls(dict)` lays the values out by the fields of the class**: field by field, in field order, `None` for a field the
dictionary lacks, entries that are no field dropped — for an exact dictionary, for an instance of a subclass **and for a
mapping that is not a `dict`** (`UserDict`, `ChainMap`, `MappingProxyType`: never the row of its keys) alike.
On the class `Row` itself (`_fields` is `None`) it is a `TypeError`. -/
theorem row_new_dict (e : Bool) (fs : List String) (es : List (String × PyVal)) :
    Gen.RowFns.row_new (some fs) (.dict e es) = .ok (fs.map (fun f => (RowGlue.dictGet es f).getD .none)) ∧
    Gen.RowFns.row_new none (.dict e es) = .error "TypeError" ∧
    Gen.RowFns.row_new (some fs) (.mapping es) = Gen.RowFns.row_new (some fs) (.dict true es) ∧
    Gen.RowFns.row_new none (.mapping es) = .error "TypeError" := by
  simp only [generated_row_new_eq_model]
  exact ⟨rfl, rfl, rfl, rfl⟩

/-- Looking a field up in the dictionary `{f₁: v₁, …}` made of distinct fields and as many values gives its value. -/
theorem dict_of_fields (fs : List String) (vs : List PyVal) (hn : fs.Nodup) (hl : fs.length = vs.length) :
    fs.map (fun f => (RowGlue.dictGet (fs.zip vs) f).getD .none) = vs := by
  induction fs generalizing vs with
  | nil => cases vs with
    | nil => rfl
    | cons _ _ => simp at hl
  | cons f fs ih =>
    cases vs with
    | nil => simp at hl
    | cons v vs =>
      have hn' := List.nodup_cons.mp hn
      simp only [List.zip_cons_cons, List.map_cons]
      congr 1
      · simp [RowGlue.dictGet, List.find?]
      · refine Eq.trans ?_ (ih vs hn'.2 (by simpa using hl))
        apply List.map_congr_left
        intro g hg
        have : (f == g) = false := by
          simp only [beq_eq_false_iff_ne, ne_eq]
          rintro rfl; exact hn'.1 hg
        simp only [RowGlue.dictGet, List.find?, this]

/-- **Round trip from a dictionary** (the dict path of `Row.__new__`, what `DataFrame.append` feeds a row class): a row
built from `{field: value}` over the distinct fields of its class, serialised by the translated `as_bytes` and read back
by the translated `Row.from_bytes`, comes back as the values in field order — whatever order the dictionary lists them in
is irrelevant only through `dictGet`; stated here for the dictionary in field order. -/
theorem dict_row_roundtrip (e : Bool) (fs : List String) (vs : List PyVal) (hn : fs.Nodup) (hl : fs.length = vs.length)
    (d : Bool) (c : Option Nat) (k : Option Bytes) (ts : Nat) (r : Bytes) (hr : NoReserved vs) :
    ∃ items, Gen.RowFns.row_new (some fs) (.dict e (fs.zip vs)) = .ok items ∧ items = vs ∧
      (Gen.RowFns.as_bytes d c k ts items = .ok r → Gen.RowFns.from_bytes r = .row (vs.map Item.val)) := by
  refine ⟨vs, ?_, rfl, fun h => ?_⟩
  · rw [(row_new_dict e fs (fs.zip vs)).1, dict_of_fields fs vs hn hl]
  · rw [generated_as_bytes_whole_eq_model] at h
    rw [generated_glue_eq_model]
    unfold RowGlue.fromBytes RowGlue.callDecoder RowGlue.rowNew
    rw [row_roundtrip ts vs r h hr]

/-- Non-vacuity of the dict path: a dictionary in another order than the fields, with a missing and a surplus key; a
subclass instance; a dictionary given to a class whose `__new__` is `tuple`'s would be its keys (`tupleNew`). -/
example :
    (Gen.RowFns.row_new (some ["a", "b", "c"]) (.dict true [("c", .int 3), ("a", .int 1), ("z", .int 9)])).toOption = some [.int 1, .none, .int 3] ∧
    (Gen.RowFns.row_new (some ["a"]) (.dict false [("a", .str "x")])).toOption = some [.str "x"] ∧
    (Gen.RowFns.row_new none (.dict true [])).toOption = none ∧
    (Gen.RowFns.row_new none (.tuple [.int 1])).toOption = some [.int 1] ∧
    RowGlue.tupleNew (.dict true [("a", .int 1)]) = [.str "a"] := by decide

/-! ## Sixth pass (wave 8): one reserved form, no second tag

"… the reserved two-element form ['__datetime__', x] excluded": that pair is the *only* value of the domain the codec may
rewrite.  `Gen.RowMarkers.*` (harness/extractors/c01_markers.py, regenerated from the working tree on every run) lists the tag
texts the source compares a value with — inside `from_bytes_cython` and anywhere in orso/row.py (the glue `Row.from_bytes`,
helpers it calls) — and the tag texts that head a tuple / list literal of orso/row.py (what the `default=` hook of `packb` can
write in front of a payload). -/

/-- **The only rewritten shape is the reserved pair.**  Every tag text the decoder side tests for (compiled.pyx and orso/row.py)
is the reserved marker; every tag text the encoder side writes in front of a payload is that marker; and whatever buffer
`Row.from_bytes` (as written) turns into a row, the items of that row are the unpacked values `vs` one by one, each either
*itself* (and not of the reserved form) or the date-time of the reserved pair `[marker, x]`.  A second marker — a
`'__decimal__'` test in the glue, a `('__decimal__', text)` written by `serialize` — breaks the first or the second
conjunct; a rewrite the statement-level translation of the glue does read breaks the third. -/
theorem only_rewritten_shape_is_reserved_pair :
    (∀ m ∈ Gen.RowMarkers.testedPyx ++ Gen.RowMarkers.testedRow, m = Gen.Row.reservedMarker) ∧
    (∀ m ∈ Gen.RowMarkers.writtenRow, m = Gen.Row.reservedMarkerEnc) ∧
    (∀ (data : Bytes) (items : List Item), Gen.RowFns.from_bytes data = .row items →
      ∃ vs : List PyVal, vs.mapM post = some items ∧
        ∀ v it, post v = some it →
          (isReserved v = false ∧ it = .val v) ∨ (∃ x, v = .list [.str Gen.Row.reservedMarker, x] ∧ it = .datetime x)) := by
  refine ⟨by decide, by decide, fun data items h => ?_⟩
  rw [generated_glue_eq_model] at h
  unfold RowGlue.fromBytes RowGlue.callDecoder RowGlue.rowNew at h
  cases hd : decodeRow data with
  | error e => rw [hd] at h; cases h
  | ok t =>
    rw [hd] at h
    injection h with h
    subst h
    unfold decodeRow decodeWith at hd
    split at hd
    · cases hd
    · rename_i p _
      unfold unpackRow at hd
      split at hd
      · rename_i hv
        split at hv
        · rename_i vs _
          injection hd with hd; subst hd
          exact ⟨vs, hv, post_shapes⟩
        · cases hv
      · cases hd

/-- Non-vacuity: the lists are not empty on both sides, a look-alike is kept, the reserved pair is rewritten. -/
example : Gen.RowMarkers.testedPyx ≠ [] ∧ Gen.RowMarkers.writtenRow ≠ [] ∧
    post (.list [.str "__decimal__", .str "1.50"]) = some (.val (.list [.str "__decimal__", .str "1.50"])) ∧
    post (.list [.str "__datetime__x", .int 1]) = some (.val (.list [.str "__datetime__x", .int 1])) ∧
    post (.list [.str "__datetime__", .int 1]) = some (.datetime (.int 1)) := by decide

/-! ### Text is an opaque sequence of code points -/

/-- **Records distinguish rows**: two rows without reserved items that are given the same record are the same row, value for
value — the format has no two spellings of one row to merge and no rewrite that maps two rows to one.  (`.str s` holds a
`String`, i.e. a list of Unicode scalar values: `e + U+0301` and `U+00E9`, `'a'` and `'A'`, `'a'` and `'a '`, `'a'` and
`'a\0'` are different values here, as they are under Python's `==`.) -/
theorem records_distinguish_rows (ts ts' : Nat) (row row' : List PyVal) (r : Bytes)
    (h : encodeRow ts row = .ok r) (h' : encodeRow ts' row' = .ok r) (hr : NoReserved row) (hr' : NoReserved row') :
    row = row' := by
  have a := row_roundtrip ts row r h hr
  have b := row_roundtrip ts' row' r h' hr'
  rw [a] at b
  injection b with b
  exact (List.map_inj_right (fun x y hxy => by injection hxy)).mp b

/-- **Text comes back code point for code point**, at top level, inside a list, as a map value and as a map key: whatever
record is emitted for such a row decodes to a row holding a text with *the same list of code points* (`String.toList`) —
for every text, normalised or not, cased, padded, with a byte-order mark, zero-width characters, NULs or line ends of any
family; and two texts that differ in one code point never share a record. -/
theorem text_is_opaque (ts : Nat) (s k : String) (r : Bytes)
    (h : encodeRow ts [.str s, .list [.str s], .dict [(k, .str s)]] = .ok r) :
    (∃ s' k' : String, decodeRow r = .ok [.val (.str s'), .val (.list [.str s']), .val (.dict [(k', .str s')])] ∧
      s'.toList = s.toList ∧ k'.toList = k.toList) ∧
    ∀ (ts' : Nat) (t : String), t.toList ≠ s.toList → encodeRow ts' [.str t, .list [.str t], .dict [(k, .str t)]] ≠ .ok r := by
  have nr : ∀ (u : String), NoReserved [.str u, .list [.str u], .dict [(k, .str u)]] := by
    intro u v hv
    simp only [List.mem_cons, List.not_mem_nil, or_false] at hv
    rcases hv with rfl | rfl | rfl <;> rfl
  refine ⟨⟨s, k, row_roundtrip ts _ r h (nr s), rfl, rfl⟩, fun ts' t ht h' => ?_⟩
  have e := records_distinguish_rows ts' ts _ _ r h' h (nr t) (nr s)
  injection e with e _
  injection e with e
  exact ht (by rw [e])

/-- Non-vacuity: canonically equivalent / compatibility-equivalent / case-variant / padded texts are different texts with
different records, and each record decodes to its own text (all texts written with escapes: this file holds no
non-ASCII character here). -/
example :
    ("e\u0301" : String) ≠ "\u00e9" ∧ ("e\u0301" : String).toList.length = 2 ∧ ("\u00e9" : String).toList.length = 1 ∧
    (encodeRow 7 [.str "e\u0301"]).toOption ≠ (encodeRow 7 [.str "\u00e9"]).toOption ∧
    (encodeRow 7 [.str "\u212b"]).toOption ≠ (encodeRow 7 [.str "\u00c5"]).toOption ∧
    (encodeRow 7 [.str "a"]).toOption ≠ (encodeRow 7 [.str "a "]).toOption ∧
    (encodeRow 7 [.str "a"]).toOption ≠ (encodeRow 7 [.str "a\x00"]).toOption ∧
    (encodeRow 7 [.str "e\u0301", .dict [("\u1100\u1161", .str "\ufeffa\r\n")]]).toOption.bind (fun r => (decodeRow r).toOption)
      = some [.val (.str "e\u0301"), .val (.dict [("\u1100\u1161", .str "\ufeffa\r\n")])] := by decide

end C01
