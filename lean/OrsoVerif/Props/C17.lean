import OrsoVerif.Model.SchemaOps
import OrsoVerif.Lemmas.SchemaOps
import OrsoVerif.Lemmas.SchemaFns
import OrsoVerif.Lemmas.SchemaHeap
import OrsoVerif.Lemmas.SchemaBattery
import OrsoVerif.Lemmas.SchemaOpaque
import OrsoVerif.Lemmas.SchemaIter
import OrsoVerif.Lemmas.SchemaEdit
import OrsoVerif.Generated.SchemaFns
/-!
# C17 — Schema union and lookup are identity-based, ordered and non-mutating

Property theorems only (helper lemmas are in `Lemmas/SchemaOps.lean`).  Every statement
quantifies over all identity types `ι`, all name types `ν`, all schemas of any width, all keys,
every lower-casing function `lower` (so also Python's Unicode aware `str.lower`) and — for the
history theorems — every finite interleaving of lookups and removals.

"Modifies neither operand" is a statement about Python objects: in the model schemas are values,
so it holds by construction (`program_add_keeps_registers`) and is *checked* on the running code
by the correspondence (operands are snapshotted around every `+`, the sum's column list must be a
new list).
-/
set_option linter.unusedSectionVars false
set_option linter.unusedSimpArgs false
namespace C17
open SchemaOps

variable {ι ν : Type} [DecidableEq ι] [DecidableEq ν]

/-! ## Union -/

/-- **The sum lists the left columns, then the right-hand columns whose identity is not already
present, each once and in order.**  `fresh seen cs` is the declarative reading: drop the columns
whose identity is in `seen`, then keep the first column of every identity (`firstByKey`). -/
theorem union_spec (a b : Schema ι ν) :
    (union a b).columns = a.columns ++ fresh (ids a.columns) b.columns := by
  rw [union_columns, news_eq_fresh]

/-- The same clause spelled out without `fresh`: the appended part `r` is a subsequence of the
right operand (order kept), carries no identity twice and none of the left operand's, covers
every right-hand identity that the left operand lacks, and every appended column is the *first*
right-hand column with its identity. -/
theorem union_right_part (a b : Schema ι ν) :
    ∃ r, (union a b).columns = a.columns ++ r
      ∧ r.Sublist b.columns
      ∧ (ids r).Nodup
      ∧ (∀ c ∈ r, c.identity ∉ ids a.columns)
      ∧ (∀ c ∈ b.columns, c.identity ∉ ids a.columns → c.identity ∈ ids r)
      ∧ (∀ c ∈ r, b.columns.find? (fun d => decide (d.identity = c.identity)) = some c) := by
  refine ⟨fresh (ids a.columns) b.columns, union_spec a b, ?_, ?_, ?_, ?_, ?_⟩
  · exact (firstByKey_sublist _ _).trans List.filter_sublist
  · exact firstByKey_nodup (fun (d : Col ι ν) => d.identity) _
  · intro c hc
    have h1 := (firstByKey_sublist (fun (d : Col ι ν) => d.identity) _).subset hc
    simpa using (List.mem_filter.mp h1).2
  · intro c hc hn
    apply (mem_keys_firstByKey (fun (d : Col ι ν) => d.identity) _ _).mpr
    exact List.mem_map.mpr ⟨c, List.mem_filter.mpr ⟨hc, by simpa using hn⟩, rfl⟩
  · intro c hc
    have h1 := firstByKey_first (fun (d : Col ι ν) => d.identity) _ c hc
    have hcn : c.identity ∉ ids a.columns := by
      have h2 := (firstByKey_sublist (fun (d : Col ι ν) => d.identity) _).subset hc
      simpa using (List.mem_filter.mp h2).2
    apply find?_filter_of _ _ _ _ h1
    intro d hd
    have hd' : d.identity = c.identity := by simpa using hd
    simpa [hd'] using hcn

/-- The sum keeps the left schema's name and aliases. -/
theorem union_keeps_name_aliases (a b : Schema ι ν) :
    (union a b).name = a.name ∧ (union a b).aliases = a.aliases := ⟨rfl, rfl⟩

/-- If the left operand carries no identity twice, neither does the sum — whatever the right
operand repeats. -/
theorem union_identities_nodup (a b : Schema ι ν) (h : (ids a.columns).Nodup) :
    (ids (union a b).columns).Nodup := by
  obtain ⟨r, hr, _, hnd, hdis, _, _⟩ := union_right_part a b
  rw [hr, ids_append]
  refine List.nodup_append.mpr ⟨h, hnd, ?_⟩
  intro x hx y hy hxy
  obtain ⟨c, hc, rfl⟩ := List.mem_map.mp hy
  exact hdis c hc (hxy ▸ hx)

/-- An identity occurs in the sum exactly when it occurs in one of the operands. -/
theorem union_identities_mem (a b : Schema ι ν) (i : ι) :
    i ∈ ids (union a b).columns ↔ i ∈ ids a.columns ∨ i ∈ ids b.columns := by
  obtain ⟨r, hr, hsub, _, _, hcov, _⟩ := union_right_part a b
  rw [hr, ids_append, List.mem_append]
  constructor
  · rintro (h | h)
    · exact Or.inl h
    · exact Or.inr ((hsub.map _).subset h)
  · rintro (h | h)
    · exact Or.inl h
    · by_cases hi : i ∈ ids a.columns
      · exact Or.inl hi
      · obtain ⟨c, hc, rfl⟩ := List.mem_map.mp h
        exact Or.inr (hcov c hc hi)

/-- **Duplicate identities inside one operand, exactly.**  How often an identity occurs in the sum: as often as
in the left operand when the left operand has it (the left columns are copied whole, repeats included — the sum
does *not* de-duplicate its left operand), otherwise once if the right operand has it (however often it repeats
there), otherwise never. -/
theorem union_identity_count (a b : Schema ι ν) (i : ι) :
    (ids (union a b).columns).count i =
      if i ∈ ids a.columns then (ids a.columns).count i else if i ∈ ids b.columns then 1 else 0 := by
  obtain ⟨r, hr, hsub, hnd, hdis, hcov, _⟩ := union_right_part a b
  rw [hr, ids_append, List.count_append]
  by_cases hi : i ∈ ids a.columns
  · have h0 : (ids r).count i = 0 := by
      apply List.count_eq_zero.mpr
      intro hm
      obtain ⟨c, hc, rfl⟩ := List.mem_map.mp hm
      exact hdis c hc hi
    simp [hi, h0]
  · have ha : (ids a.columns).count i = 0 := List.count_eq_zero.mpr hi
    simp only [hi, if_false, ha, Nat.zero_add]
    by_cases hb : i ∈ ids b.columns
    · obtain ⟨c, hc, rfl⟩ := List.mem_map.mp hb
      have hm : c.identity ∈ ids r := hcov c hc hi
      have h1 := List.nodup_iff_count.mp hnd c.identity
      have h2 := List.count_pos_iff.mpr hm
      simp only [hb, if_true]
      omega
    · have : i ∉ ids r := fun hm => hb ((hsub.map _).subset hm)
      simp [hb, List.count_eq_zero.mpr this]

/-- **Chains.** `(a + b) + c = a + (b + c)` as schemas (name, aliases and the whole column list),
for all operands, duplicate identities included. -/
theorem union_assoc (a b c : Schema ι ν) :
    union (union a b) c = union a (union b c) := by
  have hcols : (union (union a b) c).columns = (union a (union b c)).columns := by
    rw [union_columns (union a b) c, union_columns a (union b c), union_columns a b,
      union_columns b c, news_append, ids_append, List.append_assoc]
    congr 2
    symm
    apply news_news
    intro i hi
    obtain ⟨x, hx, rfl⟩ := List.mem_map.mp hi
    exact List.mem_append.mpr (news_covers (ids a.columns) b.columns x hx)
  have hn : (union (union a b) c).name = (union a (union b c)).name := rfl
  have ha : (union (union a b) c).aliases = (union a (union b c)).aliases := rfl
  cases h1 : union (union a b) c
  cases h2 : union a (union b c)
  simp only [h1, h2] at hcols hn ha
  simp [hcols, hn, ha]

/-- The planned statement of DESIGN.md: both bracketings list the same identities in the same order. -/
theorem union_assoc_on_identities (a b c : Schema ι ν) :
    ids (union (union a b) c).columns = ids (union a (union b c)).columns := by
  rw [union_assoc]

/-- A chain `a + b₁ + … + bₙ` is the left schema followed by the not-yet-present columns of the
concatenated right operands, first of each identity, in order; name and aliases are `a`'s. -/
theorem union_chain_spec (a : Schema ι ν) (bs : List (Schema ι ν)) :
    (unionAll a bs).columns = a.columns ++ fresh (ids a.columns) (bs.flatMap (·.columns))
    ∧ (unionAll a bs).name = a.name ∧ (unionAll a bs).aliases = a.aliases := by
  refine ⟨?_, unionAll_name a bs⟩
  rw [unionAll_columns, news_eq_fresh]

/-- Adding a schema to itself (or anything already contained) appends nothing. -/
theorem union_absorbs (a b : Schema ι ν) (h : ∀ c ∈ b.columns, c.identity ∈ ids a.columns) :
    (union a b).columns = a.columns := by
  rw [union_spec]
  have : b.columns.filter (fun c => decide (c.identity ∉ ids a.columns)) = [] := by
    apply List.filter_eq_nil_iff.mpr
    intro c hc
    simpa using h c hc
  unfold fresh
  rw [this]
  simp [firstByKey]

/-! ## Lookup -/

/-- **Lookup returns the first column that bears the key.**  `find_column` (either mode) returns
`c` exactly when the column list splits as `pre ++ c :: post` with `c` bearing the key (as its
name or one of its aliases, after `norm`) and no column of `pre` bearing it. -/
theorem find_first (norm : ν → ν) (k : ν) (cols : List (Col ι ν)) (c : Col ι ν) :
    findCol norm k cols = some c ↔
      ∃ pre post, cols = pre ++ c :: post ∧ c.bears norm k = true ∧ ∀ d ∈ pre, d.bears norm k = false := by
  constructor
  · exact findCol_split norm k cols c
  · rintro ⟨pre, post, rfl, hc, hpre⟩
    exact findCol_of_split norm k pre post c hc hpre

/-- `find_column` is `List.find?` with the "bears the key" test, and `find` dispatches on the
`case_insensitive` flag between `lower` and the identity. -/
theorem find_is_find? (lower : ν → ν) (k : ν) (ci : Bool) (cols : List (Col ι ν)) :
    find lower cols k ci = cols.find? (fun c => c.bears (if ci then lower else id) k) := by
  cases ci <;> simp [find, findCol_eq_find?]

/-- **None exactly when no column bears the key** — equivalently when the (normalised) key is not in
the (normalised) list of all names and aliases. -/
theorem find_none_iff (norm : ν → ν) (k : ν) (cols : List (Col ι ν)) :
    (findCol norm k cols = none ↔ ∀ d ∈ cols, d.bears norm k = false)
    ∧ (findCol norm k cols = none ↔ norm k ∉ (allColumnNames cols).map norm) := by
  have h1 : findCol norm k cols = none ↔ ∀ d ∈ cols, d.bears norm k = false := by
    rw [findCol_eq_find?, List.find?_eq_none]
    simp
  refine ⟨h1, ?_⟩
  rw [h1, mem_allColumnNames]
  constructor
  · rintro h ⟨d, hd, hb⟩
    rw [h d hd] at hb
    cases hb
  · intro h d hd
    cases hb : d.bears norm k
    · rfl
    · exact absurd ⟨d, hd, hb⟩ h

/-- **Lookup agrees with positional access, iteration order and the list of all names.**  When a
lookup returns `c`, `c` sits at some position `i = pre.length`; `column(i)` and the negative index
`column(i - len)` return the same column; `column(name)` is `find_column(name)`; the `i`-th entry
of `column_names` / of the iteration is `c.name`; the list of all names and aliases is the
concatenation `… pre … ++ c.all_names ++ … post …` and the key first occurs in `c`'s segment. -/
theorem find_agrees_positional (norm : ν → ν) (k : ν) (cols : List (Col ι ν)) (c : Col ι ν)
    (h : findCol norm k cols = some c) :
    ∃ pre post, cols = pre ++ c :: post
      ∧ column cols (.idx (pre.length : Int)) = .col (some c)
      ∧ column cols (.idx (-((post.length : Int) + 1))) = .col (some c)
      ∧ (columnNames cols)[pre.length]? = some c.name
      ∧ allColumnNames cols = allColumnNames pre ++ c.allNames ++ allColumnNames post
      ∧ norm k ∉ (allColumnNames pre).map norm
      ∧ norm k ∈ c.allNames.map norm := by
  obtain ⟨pre, post, rfl, hc, hpre⟩ := findCol_split norm k cols c h
  refine ⟨pre, post, rfl, ?_, ?_, ?_, ?_, ?_, ?_⟩
  · simp [column, pyIndex_nonneg, Out.ofIndex]
  · simp only [column, pyIndex_neg, Out.ofIndex]
  · simp [columnNames]
  · simp [allColumnNames_append, allColumnNames, List.append_assoc]
  · rw [mem_allColumnNames]
    rintro ⟨d, hd, hb⟩
    rw [hpre d hd] at hb
    cases hb
  · simpa [Col.bears] using hc

/-- `column(name)` is exactly the case-sensitive `find_column(name)`; `column(i)` is Python list
indexing: defined (and a member of the schema) exactly for `-len ≤ i < len`, `IndexError` otherwise. -/
theorem column_spec (lower : ν → ν) (cols : List (Col ι ν)) :
    (∀ k, column cols (.name k) = .col (find lower cols k false))
    ∧ (∀ i : Int, column cols (.idx i) = .indexError ↔ (i ≥ cols.length ∨ i < -(cols.length : Int)))
    ∧ (∀ (i : Nat) (h : i < cols.length),
        column cols (.idx (i : Int)) = .col (some cols[i])
        ∧ column cols (.idx ((i : Int) - cols.length)) = .col (some cols[i])) := by
  refine ⟨fun k => by simp [column, find], ?_, ?_⟩
  · intro i
    rw [← pyIndex_none_iff]
    cases hp : pyIndex cols i <;> simp [column, hp, Out.ofIndex]
  · intro i h
    have hs : cols = cols.take i ++ cols[i] :: cols.drop (i + 1) := by
      simp
    have hl : (cols.take i).length = i := by simp; omega
    have hd : (cols.drop (i + 1)).length = cols.length - (i + 1) := by simp
    constructor
    · have := pyIndex_nonneg (cols.take i) (cols.drop (i + 1)) cols[i]
      rw [← hs, hl] at this
      simp [column, this, Out.ofIndex]
    · have := pyIndex_neg (cols.take i) (cols.drop (i + 1)) cols[i]
      rw [← hs, hd] at this
      have he : (i : Int) - cols.length = -(((cols.length - (i + 1) : Nat) : Int) + 1) := by omega
      rw [he]
      simp [column, this, Out.ofIndex]

/-- Looking a column up by its own name returns the column at the first position bearing that
name: itself when no earlier column has the name as name or alias. -/
theorem find_by_own_name (pre post : List (Col ι ν)) (c : Col ι ν)
    (hpre : ∀ d ∈ pre, d.bears id c.name = false) :
    findCol id c.name (pre ++ c :: post) = some c
    ∧ column (pre ++ c :: post) (.name c.name) = column (pre ++ c :: post) (.idx (pre.length : Int)) := by
  have hc : c.bears id c.name = true := bears_own_name c
  have h := findCol_of_split id c.name pre post c hc hpre
  exact ⟨h, by simp [column, h, pyIndex_nonneg, Out.ofIndex]⟩

/-- **The list of all names and aliases**: per column, in column order, the aliases (if any) and
then the name; `column_names` and iteration list the names in column order; a key is found exactly
when it is in the list. -/
theorem allNames_spec (cols : List (Col ι ν)) :
    allColumnNames cols = cols.flatMap (fun c =>
      if Gen.SchemaOps.aliasesFirst then (c.aliases.getD []) ++ [c.name] else [c.name] ++ (c.aliases.getD []))
    ∧ columnNames cols = cols.map (·.name)
    ∧ (∀ k, k ∈ allColumnNames cols ↔ (findCol id k cols).isSome = true)
    ∧ (∀ k, k ∈ columnNames cols → k ∈ allColumnNames cols) := by
  refine ⟨?_, rfl, ?_, ?_⟩
  · induction cols with
    | nil => simp [allColumnNames]
    | cons c cs ih =>
      cases hal : c.aliases <;> cases hf : Gen.SchemaOps.aliasesFirst <;>
        simp [allColumnNames, Col.allNames, hal, hf, ih]
  · intro k
    have h := (find_none_iff id k cols).2
    simp only [id, List.map_id] at h
    cases hf : findCol id k cols with
    | none => simpa using h.mp hf
    | some c =>
      simp only [Option.isSome_some, iff_true]
      exact Classical.byContradiction (fun hn => by rw [h.mpr hn] at hf; cases hf)
  · intro k hk
    obtain ⟨c, hc, rfl⟩ := List.mem_map.mp hk
    obtain ⟨pre, post, rfl⟩ := List.append_of_mem hc
    rw [allColumnNames_append]
    apply List.mem_append_right
    simp only [allColumnNames]
    apply List.mem_append_left
    exact name_mem_allNames c

/-! ## Removal -/

/-- **Removal by name deletes exactly the first column with that name and nothing else.**
`pop_column(k)` returns `c` exactly when the columns split as `pre ++ c :: post` with
`c.name = k` and no column of `pre` named `k` (aliases do not count), and then what remains is
`pre ++ post`; it returns `None` exactly when no column is named `k`, and then nothing changes. -/
theorem pop_removes_exactly_first_named (k : ν) (cols : List (Col ι ν)) :
    (∀ c cols', popCol k cols = (some c, cols') ↔
        ∃ pre post, cols = pre ++ c :: post ∧ c.name = k ∧ (∀ d ∈ pre, d.name ≠ k) ∧ cols' = pre ++ post)
    ∧ ((popCol k cols).1 = none ↔ k ∉ columnNames cols)
    ∧ ((popCol k cols).1 = none → (popCol k cols).2 = cols) := by
  refine ⟨?_, ?_, ?_⟩
  · intro c cols'
    constructor
    · intro h
      have h1 : (popCol k cols).1 = some c := by rw [h]
      obtain ⟨pre, post, hs, hn, hpre, h2⟩ := popCol_some k cols c h1
      refine ⟨pre, post, hs, hn, hpre, ?_⟩
      rw [← h2, h]
    · rintro ⟨pre, post, rfl, hn, hpre, rfl⟩
      exact popCol_of_split k pre post c hn hpre
  · rw [popCol_none]
    simp [columnNames]
  · intro h
    rw [popCol_none_unchanged k cols ((popCol_none k cols).mp h)]

/-- Removal agrees with lookup: the names lose exactly the first occurrence of `k`; if the column
found under `k` is *named* `k` it is the one removed; and a lookup of any key the removed column
does not bear gives the same answer before and after. -/
theorem pop_agrees_with_lookup (norm : ν → ν) (k : ν) (cols : List (Col ι ν)) :
    columnNames (popCol k cols).2 = (columnNames cols).erase k
    ∧ (∀ c, findCol id k cols = some c → c.name = k → (popCol k cols).1 = some c)
    ∧ (∀ c k', (popCol k cols).1 = some c → c.bears norm k' = false →
        findCol norm k' (popCol k cols).2 = findCol norm k' cols) := by
  refine ⟨?_, ?_, ?_⟩
  · induction cols with
    | nil => simp [popCol, columnNames]
    | cons x xs ih =>
      by_cases hx : x.name = k
      · simp [popCol, columnNames, hx]
      · simp only [columnNames] at ih
        simp [popCol, columnNames, hx, ih, List.erase_cons_tail]
  · intro c hf hn
    obtain ⟨pre, post, rfl, _, hpre⟩ := findCol_split id k cols c hf
    have hpre' : ∀ d ∈ pre, d.name ≠ k := by
      intro d hd hdk
      have hb := hpre d hd
      have : d.bears id k = true := bears_of_name d k hdk
      rw [this] at hb
      cases hb
    rw [popCol_of_split k pre post c hn hpre']
  · intro c k' hp hb
    obtain ⟨pre, post, hs, _, _, h2⟩ := popCol_some k cols c hp
    rw [h2, hs, findCol_append, findCol_append]
    simp [findCol, hb]

/-! ## Histories: lookups interleaved with removals -/

/-- Only removal changes a schema: every other operation returns it as it was. -/
theorem lookups_do_not_modify (lower : ν → ν) (cols : List (Col ι ν)) (op : Op ν)
    (h : op.isPop = false) : (step lower cols op).1 = cols := by
  cases op <;> simp_all [step, Op.isPop]

/-- For every history, the columns left are determined by the removals alone, in their order —
the lookups interleaved with them have no effect. -/
theorem history_state_only_removals (lower : ν → ν) (ops : List (Op ν)) (cols : List (Col ι ν)) :
    (run lower cols ops).1 =
      (ops.filter Op.isPop).foldl (fun cs op => (step lower cs op).1) cols := by
  induction ops generalizing cols with
  | nil => simp [run]
  | cons op ops ih =>
    cases hop : op.isPop
    · have := lookups_do_not_modify lower cols op hop
      simp [run, ih, hop, this]
    · simp [run, ih, hop]

/-- **Invariant over all histories.**  Whatever lookups and removals are interleaved: the columns
left are a subsequence of the original ones (order never changes), the removed columns together
with the remaining ones are a rearrangement of the original list (nothing else is lost, nothing is
duplicated), and every column any lookup returned belongs to the original schema. -/
theorem history_conserves (lower : ν → ν) (ops : List (Op ν)) (cols : List (Col ι ν)) :
    (run lower cols ops).1.Sublist cols
    ∧ (removed (run lower cols ops).2 ++ (run lower cols ops).1).Perm cols
    ∧ (∀ c, Out.col (some c) ∈ (run lower cols ops).2 → c ∈ cols) := by
  induction ops generalizing cols with
  | nil => simp [run, removed]
  | cons op ops ih =>
    obtain ⟨ih1, ih2, ih3⟩ := ih (step lower cols op).1
    have hsub : (step lower cols op).1.Sublist cols := by
      cases op <;> simp [step, popCol_sublist]
    refine ⟨ih1.trans hsub, ?_, ?_⟩
    · cases op with
      | pop k =>
        simp only [run, step] at ih2 ⊢
        cases hp : (popCol k cols).1 with
        | none =>
          have hu := popCol_none_unchanged k cols ((popCol_none k cols).mp hp)
          rw [hu] at ih2
          simpa [removed, hu] using ih2
        | some c =>
          obtain ⟨pre, post, hs, _, _, h2⟩ := popCol_some k cols c hp
          rw [h2] at ih2
          simp only [removed, List.cons_append]
          rw [h2]
          rw [hs]
          exact (List.Perm.cons c ih2).trans List.perm_middle.symm
      | find k ci => simpa [run, step, removed] using ih2
      | column key => simpa [run, step, removed_column] using ih2
      | allNames => simpa [run, step, removed] using ih2
      | names => simpa [run, step, removed] using ih2
      | iter => simpa [run, step, removed] using ih2
    · intro c hc
      simp only [run, List.mem_cons] at hc
      rcases hc with hc | hc
      · cases op with
        | find k ci =>
          simp only [step, Out.col.injEq] at hc
          cases ci
          · obtain ⟨pre, post, rfl, _⟩ := findCol_split id k cols c (by simpa [find] using hc.symm)
            simp
          · obtain ⟨pre, post, rfl, _⟩ := findCol_split lower k cols c (by simpa [find] using hc.symm)
            simp
        | column key =>
          cases key with
          | idx i =>
            simp only [step, column] at hc
            cases hi : pyIndex cols i with
            | none => simp [hi, Out.ofIndex] at hc
            | some d =>
              simp only [hi, Out.ofIndex, Out.col.injEq, Option.some.injEq] at hc
              subst hc
              exact pyIndex_mem cols i _ hi
          | flag b =>
            simp only [step, column] at hc
            cases hi : pyIndex cols (boolIndex b) with
            | none => simp [hi, Out.ofIndex] at hc
            | some d =>
              simp only [hi, Out.ofIndex, Out.col.injEq, Option.some.injEq] at hc
              subst hc
              exact pyIndex_mem cols _ _ hi
          | name k =>
            simp only [step, column, Out.col.injEq] at hc
            obtain ⟨pre, post, rfl, _⟩ := findCol_split id k cols c hc.symm
            simp
        | pop k => simp [step] at hc
        | allNames => simp [step] at hc
        | names => simp [step] at hc
        | iter => simp [step] at hc
      · exact hsub.subset (ih3 c hc)

/-- In the model a sum never touches the registers that exist (operands included); it only
appends the new schema.  (On the Python side this is what the correspondence checks.) -/
theorem program_add_keeps_registers (lower : ν → ν) (regs regs' : List (Schema ι ν)) (i j : Nat)
    (o : POut ι ν) (h : pstep lower regs (.add i j) = some (regs', o)) :
    ∃ a b, regs[i]? = some a ∧ regs[j]? = some b ∧ regs' = regs ++ [union a b]
      ∧ o = .schema (union a b) ∧ ∀ r, r < regs.length → regs'[r]? = regs[r]? := by
  unfold pstep at h
  cases ha : regs[i]? with
  | none => simp [ha] at h
  | some a =>
    cases hb : regs[j]? with
    | none => simp [ha, hb] at h
    | some b =>
      simp only [ha, hb, Option.some.injEq, Prod.mk.injEq] at h
      refine ⟨a, b, rfl, rfl, h.1.symm, h.2.symm, ?_⟩
      intro r hr
      rw [← h.1, List.getElem?_append_left hr]

/-- **Non-mutation as a frame property, for every interleaving.**  Run any program over any number of schemas
(sums of registers, sums of sums, lookups and removals anywhere): what register `q` holds at the end, and every
answer the operations addressed to `q` got, are those of running just *its own* operations on its own initial
columns — nothing done to another schema (in particular to a sum built from `q`, or to an operand `q` was built
from) shows through, and building sums from `q` never changes it. -/
theorem program_frame (lower : ν → ν) (prog : List (POp ν)) (regs regs' : List (Schema ι ν))
    (outs : List (POut ι ν)) (h : prun lower regs prog = some (regs', outs))
    (q : Nat) (s : Schema ι ν) (hq : regs[q]? = some s) :
    regs'[q]? = some { s with columns := (run lower s.columns (opsOn q prog)).1 }
    ∧ outsOn q prog outs = (run lower s.columns (opsOn q prog)).2 := by
  induction prog generalizing regs regs' outs s with
  | nil =>
    simp only [prun, Option.some.injEq, Prod.mk.injEq] at h
    obtain ⟨rfl, rfl⟩ := h
    simp [opsOn, run, hq, outsOn]
  | cons op rest ih =>
    simp only [prun] at h
    cases hp : pstep lower regs op with
    | none => simp [hp] at h
    | some r1 =>
      obtain ⟨regs1, o⟩ := r1
      simp only [hp] at h
      cases hr : prun lower regs1 rest with
      | none => simp [hr] at h
      | some r2 =>
        obtain ⟨regs2, os⟩ := r2
        simp only [hr, Option.some.injEq, Prod.mk.injEq] at h
        obtain ⟨rfl, rfl⟩ := h
        cases op with
        | add i j =>
          unfold pstep at hp
          cases ha : regs[i]? with
          | none => simp [ha] at hp
          | some a =>
            cases hb : regs[j]? with
            | none => simp [ha, hb] at hp
            | some b =>
              simp only [ha, hb, Option.some.injEq, Prod.mk.injEq] at hp
              obtain ⟨rfl, rfl⟩ := hp
              obtain ⟨hlt, _⟩ := List.getElem?_eq_some_iff.mp hq
              have hq1 : (regs ++ [union a b])[q]? = some s := by
                rw [List.getElem?_append_left hlt, hq]
              have := ih (regs ++ [union a b]) regs2 os hr s hq1
              simpa [opsOn, outsOn] using this
        | on r op =>
          unfold pstep at hp
          cases hrr : regs[r]? with
          | none => simp [hrr] at hp
          | some sr =>
            simp only [hrr, Option.some.injEq, Prod.mk.injEq] at hp
            obtain ⟨rfl, rfl⟩ := hp
            by_cases hrq : r = q
            · subst hrq
              rw [hq] at hrr
              cases hrr
              obtain ⟨hlt, _⟩ := List.getElem?_eq_some_iff.mp hq
              have hq1 : (regs.set r { s with columns := (step lower s.columns op).1 })[r]?
                  = some { s with columns := (step lower s.columns op).1 } := by
                simp [hlt]
              have := ih _ regs2 os hr _ hq1
              simpa [opsOn, outsOn, run] using this
            · have hq1 : (regs.set r { sr with columns := (step lower sr.columns op).1 })[q]? = some s := by
                rw [List.getElem?_set_ne hrq, hq]
              have := ih _ regs2 os hr s hq1
              simpa [opsOn, outsOn, hrq] using this

/-- **"Modifies neither operand" on Python objects.**  Registers hold *references* to column-list objects
(`Model/SchemaHeap.lean`); `pop_column` changes a list in place; `__add__` does what the source does with the left
operand's list — `Gen.SchemaOps.addCopies` is re-read from `orso/schema.py` on every run (`self.columns[:]` /
`list(self.columns)`).  From any state in which no two schemas share a column list, every program runs on the heap
exactly as on the value-level machine all other theorems are about, and ends again with no shared list: so on the
objects, too, a sum modifies neither operand, and removing from a sum (or an operand) never shows through. -/
theorem heap_refines_values (lower : ν → ν) (prog : List (POp ν)) (st : SchemaHeap.St ι ν) (hwf : st.WF) :
    (SchemaHeap.hrun Gen.SchemaOps.addCopies lower st prog).map (fun r => (r.1.abs, r.2)) = prun lower st.abs prog
    ∧ ∀ st' os, SchemaHeap.hrun Gen.SchemaOps.addCopies lower st prog = some (st', os) → st'.WF := by
  have hc : Gen.SchemaOps.addCopies = true := by decide
  rw [hc]
  exact SchemaHeap.heap_refines_run lower prog st hwf

/-- The copy is what makes it true: were `__add__` to extend the left operand's own list, `a + b` would change
`a` (one column before, two after) — a well-formed state, one operation, a different left operand. -/
theorem sum_without_copy_modifies_left :
    ∃ (st : SchemaHeap.St Nat Nat) (st' : SchemaHeap.St Nat Nat) (o : POut Nat Nat),
      st.WF ∧ SchemaHeap.hstep false id st (.add 0 1) = some (st', o)
      ∧ (st.abs[0]?.map (·.columns)) = some [⟨0, 10, 1, none⟩]
      ∧ (st'.abs[0]?.map (·.columns)) = some [⟨0, 10, 1, none⟩, ⟨1, 11, 2, none⟩] := by
  refine ⟨{ heap := [[⟨0, 10, 1, none⟩], [⟨1, 11, 2, none⟩]], regs := [⟨7, [], 0⟩, ⟨9, [], 1⟩] }, _, _, ?_, rfl, ?_, ?_⟩
  · constructor
    · intro s hs
      simp only [List.mem_cons, List.not_mem_nil, or_false] at hs
      rcases hs with rfl | rfl <;> decide
    · decide
  · decide
  · decide

/-! ## "By name" and "identity-based", exactly: what each operation may look at -/

/-- **A name is a name, whatever it looks like.**  Rename all names and aliases (and the keys of the operations) by any
injective `f` (for the case-insensitive lookups: any `f` under which the new lower-casing `lower'` identifies exactly
what `lower` identified): every history of lookups, positional accesses, listings and removals runs the same, its
answers and the columns left being the renamed ones.  So no operation can depend on *what* a name is — only on which
names are equal: `column('1')` cannot read `'1'` as a position, a lookup cannot strip or pad its key, `'None'` and `''`
are names like any other (rename `'1' ↦ 'x'` and the answer would have to stay the same column).  The translated
source is held to this by `generated_column_eq_model` / `generated_find_column_eq_model` /
`generated_pop_column_eq_model`, which hold for every `StrOps`. -/
theorem names_are_opaque {ν' : Type} [DecidableEq ν'] (f : ν → ν') (hf : ∀ x y, f x = f y → x = y)
    (lower : ν → ν) (lower' : ν' → ν') (hr : Respects f lower lower') (ops : List (Op ν)) (cols : List (Col ι ν)) :
    run lower' (cols.map (Col.rename f)) (ops.map (Op.rename f))
      = ((run lower cols ops).1.map (Col.rename f), (run lower cols ops).2.map (Out.rename f)) :=
  run_rename f hf lower lower' hr ops cols

/-- The counterexample that shows the theorem above has teeth: `column` as C17-w4s3 wrote it (a decimal name below the
width is a position) does *not* commute with the injective renaming `n ↦ n + 1`: on columns named `1, 0` the key `1`
gives the column at position 1; renamed (`2, 1`, key `2`) it gives the column *named* `2`, which is the other one. -/
theorem text_as_position_is_not_natural :
    let cols : List (Col Nat Nat) := [⟨0, 10, 1, none⟩, ⟨1, 11, 0, none⟩]
    let f : Nat → Nat := (· + 1)
    columnTextAsPosition (fun _ => true) (fun n : Nat => (n : Int)) (cols.map (Col.rename f)) (.name (f 1))
      ≠ (columnTextAsPosition (fun _ => true) (fun n : Nat => (n : Int)) cols (.name 1)).rename f
    ∧ column (cols.map (Col.rename f)) (.name (f 1)) = (column cols (.name 1)).rename f := by
  decide

/-- **Lookup, positional access, listing and removal never look at identities**: give every column another identity
(by any function — distinct identities may even collapse) and every history runs the same. -/
theorem lookup_ignores_identities {ι' : Type} [DecidableEq ι'] (h : ι → ι') (lower : ν → ν) (ops : List (Op ν))
    (cols : List (Col ι ν)) :
    run lower (cols.map (Col.relabel h)) ops
      = ((run lower cols ops).1.map (Col.relabel h), (run lower cols ops).2.map (Out.relabel h)) :=
  run_relabel h lower ops cols

/-- **The sum is identity-based and nothing else**: change the columns of both operands by any map that keeps
identities (other names — even all the same —, other aliases, other objects) and the sum is the changed sum: which
columns it lists, and in which order, depends on identities alone. -/
theorem union_ignores_names {ν₂ : Type} [DecidableEq ν₂] (g : Col ι ν → Col ι ν₂)
    (hg : ∀ c, (g c).identity = c.identity) (a b : Schema ι ν) (n n' : ν₂) (al al' : List ν₂) :
    (union ⟨n, al, a.columns.map g⟩ ⟨n', al', b.columns.map g⟩).columns = (union a b).columns.map g := by
  simp only [union, ids_map g hg]
  exact unionLoop_map g hg _ _ _

/-! ## The source the model was written from -/

/-- What the generated functions cannot say, as read from `orso/schema.py` and `orso/tools.py` on this run:
`__add__` starts from a *copy* of the left column list (an object-level fact: in the model lists are values) and
identities are 16 characters wide.  (Round 1 also pinned the spelling of the tests of `__add__`, `pop_column`,
`find_column` and `column` — `("identity", "not in")`, `("name", "==")` … — here; those are now *semantic*
obligations, `generated_*_eq_model` below, because a pinned spelling alarms on `if x in seen: continue`,
`column_name == column.name`, a hoisted `.lower()` or `isinstance(i, str)` tested first, which change nothing.) -/
theorem source_shape :
    Gen.SchemaOps.addCopies = true ∧ Gen.SchemaOps.identityWidth = 16 := by decide

/-! ## Non-vacuity -/

/-- Columns used by the examples: `(tag, identity, name, aliases)`. -/
private def c0 : Col Nat Nat := ⟨0, 10, 1, some [2]⟩   -- name 1, alias 2
private def c1 : Col Nat Nat := ⟨1, 11, 2, none⟩        -- name 2 (the alias of c0), aliases None
private def c2 : Col Nat Nat := ⟨2, 10, 3, some []⟩     -- same identity as c0, other name
private def c3 : Col Nat Nat := ⟨3, 12, 1, some [4, 3]⟩ -- same name as c0, other identity
private def c4 : Col Nat Nat := ⟨4, 12, 5, none⟩        -- repeats identity 12 on the right

/-- A union with an overlapping identity, a same-named-but-different-identity column and an
identity repeated inside the right operand; both bracketings of a chain. -/
example :
    let a : Schema Nat Nat := ⟨7, [8], [c0, c1]⟩
    let b : Schema Nat Nat := ⟨9, [], [c2, c3, c4, c1]⟩
    (union a b).columns = [c0, c1, c3] ∧ (union a b).name = 7 ∧ (union a b).aliases = [8]
    ∧ (union b a).columns = [c2, c3, c4, c1]
    ∧ (ids a.columns).Nodup
    ∧ union (union a b) ⟨0, [], [c4, c2]⟩ = union a (union b ⟨0, [], [c4, c2]⟩) := by decide

/-- Lookup by alias finds an earlier column than the one *named* by the key; removal by the same
key removes the later one; case-insensitive lookup with `lower := (· % 10)`. -/
example :
    let cols := [c0, c1, c2, c3]
    findCol id 2 cols = some c0 ∧ popCol 2 cols = (some c1, [c0, c2, c3])
    ∧ findCol id 3 cols = some c2 ∧ findCol id 4 cols = some c3 ∧ findCol id 9 cols = none
    ∧ findCol (· % 10) 13 cols = some c2 ∧ findCol id 13 cols = none
    ∧ (Gen.SchemaOps.aliasesFirst = true → allColumnNames cols = [2, 1, 2, 3, 4, 3, 1])
    ∧ column cols (.idx (-1)) = .col (some c3) ∧ column cols (.idx 4) = .indexError
    ∧ column cols (.idx (-5)) = .indexError := by decide

/-- A history interleaving lookups and removals. -/
example :
    let r := run (· % 10) [c0, c1, c2, c3] [.find 1 false, .pop 1, .find 1 false, .pop 1, .find 1 false,
      .column (.idx 0), .pop 7, .names]
    r.1 = [c1, c2] ∧ removed r.2 = [c0, c3]
    ∧ r.2 = [.col (some c0), .popped (some c0), .col (some c3), .popped (some c3), .col none,
             .col (some c1), .popped none, .strs [2, 3]] := by decide

/-- The frame theorem and the heap refinement on a concrete program: two schemas sharing the column *object*
`c1`, their sum, a removal from the sum, a removal from the left operand, lookups on all three.  The hypotheses
(`prun … = some …`, `WF`) hold, and the three registers end as their own operations alone dictate. -/
example :
    let regs : List (Schema Nat Nat) := [⟨7, [8], [c0, c1]⟩, ⟨9, [], [c2, c3, c1]⟩]
    let prog : List (POp Nat) := [.add 0 1, .on 2 (.pop 2), .on 0 (.pop 1), .on 2 (.find 1 false), .on 1 (.names), .on 0 (.names)]
    let st : SchemaHeap.St Nat Nat := { heap := [[c0, c1], [c2, c3, c1]], regs := [⟨7, [8], 0⟩, ⟨9, [], 1⟩] }
    (prun (· % 10) regs prog).map (fun r => r.1.map (·.columns)) = some [[c1], [c2, c3, c1], [c0, c3]]
    ∧ opsOn 0 prog = [.pop 1, .names] ∧ opsOn 2 prog = [.pop 2, .find 1 false]
    ∧ st.abs = regs ∧ (st.regs.map (·.ref)).Nodup ∧ (∀ s ∈ st.regs, s.ref < st.heap.length)
    ∧ (SchemaHeap.hrun true (· % 10) st prog).map (fun r => r.1.abs) = (prun (· % 10) regs prog).map (·.1) := by decide

/-- `names_are_opaque` on a concrete history: names shifted by 10 (which `(· % 10)`-lower-casing respects), a
case-insensitive lookup, a lookup by name through `column`, a removal — the hypotheses hold and the answers are the
renamed ones. -/
example :
    let f : Nat → Nat := (· + 10)
    let ops : List (Op Nat) := [.find 13 true, .column (.name 2), .pop 1, .column (.idx 0), .names]
    (∀ x y : Fin 40, f x = f y → x = y)
    ∧ (∀ x y : Fin 40, (f x) % 10 = (f y) % 10 ↔ x.val % 10 = y.val % 10)
    ∧ (run (· % 10) [c0, c1, c2, c3] ops).2 = [.col (some c2), .col (some c0), .popped (some c0), .col (some c1), .strs [2, 3, 1]]
    ∧ run (· % 10) ([c0, c1, c2, c3].map (Col.rename f)) (ops.map (Op.rename f))
        = ((run (· % 10) [c0, c1, c2, c3] ops).1.map (Col.rename f), (run (· % 10) [c0, c1, c2, c3] ops).2.map (Out.rename f)) := by
  decide

/-! ## The source, translated: what `orso/schema.py` says now is the model

`Gen.SchemaFns.*` are produced from the function bodies of the working tree on every run
(`harness/pystmt.py`: assignments, `if`, early `return`, the `for` shapes, comprehensions, in-place changes of
`self.columns`, the run-time type test of `column`).  The theorems below prove each of them equal to the
hand-written operation the other theorems are about, so those theorems are statements about the code as it
is; a change of a function's meaning makes the corresponding equality stop checking (and the correspondence
supplies the failing input).

The proofs go through *semantic* lemmas (`Lemmas/SchemaFns.lean`: the loop's step function / the search
predicate enters with a pointwise hypothesis that `simp` discharges), tried shape by shape, so that renamed
locals, `not x in` / `x not in`, `continue`, early return instead of `else`, a comprehension instead of a loop,
`remove(column)` instead of `pop(idx)` … keep them checking.  (The extractor re-checks this very section
against a changed translation before it accepts it; see `harness/extractors/c17_fns.py`.) -/

-- BEGIN generated-eq (this section is also elaborated by the extractor against a trial translation)

/-- `FlatColumn.all_names` -/
theorem generated_all_names_eq_model (c : Col ι ν) : Gen.SchemaFns.all_names c = c.allNames := by
  cases h : c.aliases <;> simp [Gen.SchemaFns.all_names, Col.allNames, h, Gen.SchemaOps.aliasesFirst]

/-- `RelationSchema.find_column` (both branches): the first column that bears the key as its name or one of its aliases,
`None` when none does — **whatever else a column carries** (`T`: its identity, `str()`, `repr()`, type, description … read
as names; the translated function takes them as a parameter and the equality holds for every `T`: it consults none). -/
theorem generated_find_column_eq_model (S : StrOps ν) (T : ColText ι ν) (lower : ν → ν) (s : Schema ι ν) (k : ν) (ci : Bool) :
    Gen.SchemaFns.find_column S T lower s k ci = find lower s.columns k ci := by
  unfold Gen.SchemaFns.find_column find
  first
    | (cases ci <;>
        simp [generated_all_names_eq_model, findCol_eq_find?, Col.bears, SchemaFnsLemmas.match_find?_id] <;>
        grind)
    | -- `for n in range(len(self.columns)): if <self.columns[n] bears the key>: return self.columns[n]`
      (cases ci <;> simp only [Bool.false_eq_true, if_false, if_true] <;>
        (split
         · next c i h =>
           rw [findCol_eq_find?]
           exact (SchemaFnsLemmas.zipIdx_find?_some _ _
             (by intro x; simp [generated_all_names_eq_model, Col.bears] <;> first | rfl | congr | grind) _ _ _ h).symm
         · next h =>
           rw [findCol_eq_find?]
           exact (SchemaFnsLemmas.zipIdx_find?_none _ _
             (by intro x; simp [generated_all_names_eq_model, Col.bears] <;> first | rfl | congr | grind) _ h).symm))

/-- `RelationSchema.column`: an `int` (a `bool` included: `isinstance(True, int)`) indexes the column list the
way a Python list is indexed, anything else is looked up by name, case-sensitively — **whatever the name looks
like** (`S` is everything Python can ask of a string besides comparing it: `'1'.isdecimal()`, `int('1')`,
`' a'.strip()`, `== 'None'` …: the translated function takes it as a parameter and the equality holds for every
`S`, i.e. the source consults none of it), and it raises nothing but `IndexError` (`.ok`). -/
theorem generated_column_eq_model (S : StrOps ν) (T : ColText ι ν) (s : Schema ι ν) (key : Key ν) :
    Gen.SchemaFns.column S T s key = .ok (column s.columns key) := by
  unfold Gen.SchemaFns.column column
  cases key <;> simp [generated_find_column_eq_model, find, boolIndex] <;> grind

/-- `RelationSchema.pop_column`: the removed column and the remaining column list -/
theorem generated_pop_column_eq_model (S : StrOps ν) (T : ColText ι ν) (s : Schema ι ν) (k : ν) :
    Gen.SchemaFns.pop_column S T s k = popCol k s.columns := by
  unfold Gen.SchemaFns.pop_column
  first
    | -- `for idx, column in enumerate(self.columns): if <named k>: return self.columns.pop(idx)`
      (dsimp only
       split
       · next c i h =>
         have hh := (SchemaFnsLemmas.pop_of_zipIdx k _ (by intro x; cases x; simp <;> grind) s.columns).1 c i h
         simp [hh.1, hh.2]
       · next h =>
         have hh := (SchemaFnsLemmas.pop_of_zipIdx k _ (by intro x; cases x; simp <;> grind) s.columns).2 h
         simp [hh])
    | -- `for column in self.columns: if <named k>: self.columns.remove(column); return column`
      (dsimp only
       split
       · next c h =>
         have hh := (SchemaFnsLemmas.pop_of_find k _ (by intro x; simp <;> grind) s.columns).1 c h
         simp [hh]
       · next h =>
         have hh := (SchemaFnsLemmas.pop_of_find k _ (by intro x; simp <;> grind) s.columns).2 h
         simp [hh])

/-- `RelationSchema.__add__` -/
theorem generated_add_eq_model (a b : Schema ι ν) : Gen.SchemaFns.add a b = union a b := by
  unfold Gen.SchemaFns.add
  rw [SchemaFnsLemmas.union_eq]
  dsimp only
  first
    | (rw [SchemaFnsLemmas.foldl_union _ (by intro st c; cases st; simp <;> grind)]
       simp [ids]
       done)
    | (rw [SchemaFnsLemmas.foldl_union_swapped _ (by intro st c; cases st; simp <;> grind)]
       simp [ids]
       done)
    | -- the seen identities are the keys of a dict (`seen[column.identity] = …`, `column.identity not in seen`)
      (rw [SchemaFnsLemmas.foldl_union_keyed _ (by intro st c; cases st; constructor <;> intro h <;> simp_all)]
       simp [ids, Function.comp_def]
       done)

/-- `column_names`, `__iter__`, `all_column_names` and `num_columns` -/
theorem generated_names_eq_model (s : Schema ι ν) :
    Gen.SchemaFns.column_names s = columnNames s.columns
    ∧ Gen.SchemaFns.iter_names s = columnNames s.columns
    ∧ Gen.SchemaFns.all_column_names s = allColumnNames s.columns
    ∧ Gen.SchemaFns.num_columns s = s.columns.length := by
  have h1 : Gen.SchemaFns.column_names s = columnNames s.columns := by
    unfold Gen.SchemaFns.column_names columnNames
    first
      | rfl
      | (dsimp only
         rw [SchemaFnsLemmas.foldl_append_singleton (fun c : Col ι ν => c.name) _ (by intro acc x; simp)]
         simp
         done)
  have h3 : Gen.SchemaFns.all_column_names s = allColumnNames s.columns := by
    unfold Gen.SchemaFns.all_column_names
    rw [SchemaFnsLemmas.allColumnNames_eq_flatMap]
    try simp only [generated_all_names_eq_model]
    first
      | done
      | (dsimp only
         rw [SchemaFnsLemmas.foldl_append_list (fun c : Col ι ν => c.allNames) _ (by intro acc x; simp)]
         simp
         done)
      | (simp [List.flatMap, List.flatten]
         done)
  refine ⟨h1, ?_, h3, ?_⟩
  · unfold Gen.SchemaFns.iter_names
    first
      | exact h1
      | rfl
      | (unfold columnNames
         dsimp only
         rw [SchemaFnsLemmas.foldl_append_singleton (fun c : Col ι ν => c.name) _ (by intro acc x; simp)]
         simp
         done)
  · simp [Gen.SchemaFns.num_columns, h1, columnNames]

/-- `RelationSchema.__iter__`, as the iterator it builds: an iterator over a list of the names made when `__iter__`
is called — not a walk over the live column list (`IterSrc`). -/
theorem generated_iter_eq_model (s : Schema ι ν) : Gen.SchemaFns.iter_src s = iterSrc s := by
  unfold Gen.SchemaFns.iter_src iterSrc
  first
    | rfl
    | (congr 1
       first
         | exact (generated_names_eq_model s).1
         | (simp [columnNames, (generated_names_eq_model s).1]
            done))

-- END generated-eq

/-! ## An iteration in progress, interleaved with removals and sums -/

/-- **Iteration order, for every interleaving.**  Obtain an iterator from schema `r` (`iter(schema)`, the head of a
`for name in schema:` loop) in any state — after any history — and then do anything: advance it, remove columns from
the schema it came from (or from any other), build sums, obtain and advance other iterators.  Its answers are those
of an iterator over a list of its own holding the names the schema had *when the iterator was created*
(`listIterRun`); so what it yields, followed by what it still has, is exactly those names in positional order, and it
answers `StopIteration` only once all of them were yielded.  `Gen.SchemaFns.iter_src` — what `__iter__` builds, re-read
from the source on every run — is the `__iter__` of the machine. -/
theorem iterator_yields_names_at_creation (lower : ν → ν) (st st' : ISt ι ν) (r : Nat) (post : List (IOp ν))
    (outs : List (IOut ι ν))
    (h : irun (fun s => Gen.SchemaFns.iter_src s) lower st (.mk r :: post) = some (st', outs)) :
    ∃ s os, st.regs[r]? = some s ∧ outs = .made st.iters.length :: os
      ∧ answersOf st.iters.length post os = (listIterRun (columnNames s.columns) (asksOf st.iters.length post)).2
      ∧ st'.iters[st.iters.length]? = some (.snap (listIterRun (columnNames s.columns) (asksOf st.iters.length post)).1)
      ∧ yielded (answersOf st.iters.length post os)
          ++ (listIterRun (columnNames s.columns) (asksOf st.iters.length post)).1 = columnNames s.columns
      ∧ (ItOut.stop ∈ answersOf st.iters.length post os →
          yielded (answersOf st.iters.length post os) = columnNames s.columns) := by
  have hsrc : (fun s : Schema ι ν => Gen.SchemaFns.iter_src s) = iterSrc := by
    funext s
    exact generated_iter_eq_model s
  rw [hsrc] at h
  simp only [irun] at h
  cases h1 : istep iterSrc lower st (.mk r) with
  | none => simp [h1] at h
  | some r1 =>
    obtain ⟨st1, o⟩ := r1
    simp only [h1] at h
    cases h2 : irun iterSrc lower st1 post with
    | none => simp [h2] at h
    | some r2 =>
      obtain ⟨st2, os⟩ := r2
      simp only [h2, Option.some.injEq, Prod.mk.injEq] at h
      obtain ⟨rfl, rfl⟩ := h
      simp only [istep] at h1
      cases hr : st.regs[r]? with
      | none => simp [hr] at h1
      | some s =>
        simp only [hr, Option.some.injEq, Prod.mk.injEq] at h1
        obtain ⟨rfl, rfl⟩ := h1
        have hk : (st.iters ++ [(iterSrc s).start r])[st.iters.length]? = some (.snap (columnNames s.columns)) := by
          simp [iterSrc, IterSrc.start]
        obtain ⟨f1, f2⟩ := snapshot_frame iterSrc lower post _ _ _ h2 st.iters.length _ hk
        refine ⟨s, os, rfl, rfl, f2, f1, ?_, ?_⟩
        · rw [f2]
          exact listIterRun_yielded _ _
        · intro hs
          rw [f2] at hs ⊢
          have h0 := listIterRun_stop _ _ hs
          have := listIterRun_yielded (columnNames s.columns) (asksOf st.iters.length post)
          rw [h0, List.append_nil] at this
          exact this

/-- Once an iterator is a snapshot it stays one, whatever `__iter__` builds for the iterators obtained later and
whatever else happens: its answers are a function of its own list and the questions put to it. -/
theorem snapshot_iterator_frame (src : Schema ι ν → IterSrc ι ν) (lower : ν → ν) (prog : List (IOp ν))
    (st st' : ISt ι ν) (outs : List (IOut ι ν)) (h : irun src lower st prog = some (st', outs))
    (k : Nat) (l : List ν) (hk : st.iters[k]? = some (.snap l)) :
    st'.iters[k]? = some (.snap (listIterRun l (asksOf k prog)).1)
    ∧ answersOf k prog outs = (listIterRun l (asksOf k prog)).2 :=
  snapshot_frame src lower prog st st' outs h k l hk

/-- **Iterating modifies nothing**: obtaining and advancing iterators — whatever `__iter__` builds — leaves every
schema as the register operations alone leave it, and those get the answers they get without any iterator around. -/
theorem iteration_modifies_nothing (src : Schema ι ν → IterSrc ι ν) (lower : ν → ν) (prog : List (IOp ν))
    (st st' : ISt ι ν) (outs : List (IOut ι ν)) (h : irun src lower st prog = some (st', outs)) :
    prun lower st.regs (baseOps prog) = some (st'.regs, baseOuts prog outs) :=
  irun_regs src lower prog st st' outs h

/-- The counterexample that shows the snapshot is what makes it true (C17-w6s1): were `__iter__` a generator walking
the live column list (`(col.name for col in self.columns)`), then on columns named `1, 2, 3` — take the iterator,
advance it once (`1`), remove column `1`, drain — the column named `2` would never be yielded: the list shifted under
the walk.  Under the model's `__iter__` the same program yields `1`, then `2, 3`. -/
theorem live_iterator_skips_after_removal :
    let cols : List (Col Nat Nat) := [⟨0, 10, 1, none⟩, ⟨1, 11, 2, none⟩, ⟨2, 12, 3, none⟩]
    let prog : List (IOp Nat) := [.mk 0, .ask 0 .next, .base (.on 0 (.pop 1)), .ask 0 .drain]
    (irun (fun _ => IterSrc.walk (fun c : Col Nat Nat => c.name)) id ⟨[⟨7, [], cols⟩], []⟩ prog).map (·.2)
      = some [.made 0, .it (.item 1), .base (.out (.popped (some ⟨0, 10, 1, none⟩))), .it (.rest [3])]
    ∧ (irun iterSrc id ⟨[⟨7, [], cols⟩], []⟩ prog).map (·.2)
      = some [.made 0, .it (.item 1), .base (.out (.popped (some ⟨0, 10, 1, none⟩))), .it (.rest [2, 3])] := by
  decide

/-! ## Column objects edited between two lookups; every way of writing the sum (fifth pass) -/

/-- **A lookup reads the column as it is *now*.**  A column object lives on between two operations of a schema and a
caller may rename it, give it another alias list, or edit the alias list *in place* (`append`, `remove`, `insert`, item
assignment, `del`, `clear`, `+=`, `reverse` — the same list object afterwards).  `FlatColumn.all_names` — what every
lookup and `all_column_names` go through — is modelled with whatever memo the source keeps on the column
(`Gen.SchemaOps.allNamesMemo`, re-read from `orso/schema.py` on every run: none; or revalidated by the name and / or the
aliases as an object / a copy).  For every history of edits and reads on a column that starts without a memo, every
read answers with the names of the column's current name and current aliases; and the translated body of `all_names`
computes exactly those. -/
theorem all_names_sees_edits (c : Cell ν) (hm : c.memo = none) (h : List (Option (Edit ν))) :
    Cell.run Gen.SchemaOps.allNamesMemo c h = namesAlong c.name c.aliases h
    ∧ ∀ (k : Col ι ν) (e : Edit ν), Gen.SchemaFns.all_names (e.apply k) = namesOf (e.onNA k.name k.aliases).1 (e.onNA k.name k.aliases).2 := by
  constructor
  · refine Cell.run_eq_namesAlong _ ?_ h c ?_
    · first
        | exact Or.inl rfl
        | exact Or.inr rfl
    · intro m h'
      rw [hm] at h'
      cases h'
  · intro k e
    rw [generated_all_names_eq_model]
    rfl

/-- Which memos are harmless: none at all, or one revalidated by the name and a *copy* of the alias list compared by value
— from any state whose memo is sound, every read is the current column's names. -/
theorem memo_by_value_is_transparent (p : Option (Bool × String)) (hp : p = none ∨ p = some (true, "copy"))
    (c : Cell ν) (hs : c.MemoSound) (h : List (Option (Edit ν))) :
    Cell.run p c h = namesAlong c.name c.aliases h :=
  Cell.run_eq_namesAlong p hp h c hs

/-- The proved counterexample: a memo revalidated by `cached name == name and cached list **is** aliases` survives an
edit in place — read, `aliases.append(2)`, read: the second read still gives the names without the alias — while a
replacement of the list is noticed, and a memo keyed on a copy notices both. -/
theorem memo_revalidated_by_object_is_stale :
    let c : Cell Nat := ⟨1, some [], 0, none⟩
    Cell.run (some (true, "object")) c [none, some (.append 2), none] = [namesOf 1 (some []), namesOf 1 (some [])]
    ∧ namesAlong 1 (some []) [none, some (.append 2), none] = [namesOf 1 (some []), namesOf 1 (some [2])]
    ∧ namesOf 1 (some []) ≠ namesOf 1 (some [2])
    ∧ Cell.run (some (true, "object")) c [none, some (.replace (some [2])), none] = [namesOf 1 (some []), namesOf 1 (some [2])]
    ∧ Cell.run (some (true, "copy")) c [none, some (.append 2), none] = [namesOf 1 (some []), namesOf 1 (some [2])] := by
  decide

/-- **An alias given in place is found at once.**  `c.aliases.append(k)` on the column object `c` of a schema in which no
earlier column bears `k` (under any normalisation: exact or ignoring case): the very next lookup of `k` returns `c` — as it
is now. -/
theorem find_after_alias_append (norm : ν → ν) (k : ν) (pre post : List (Col ι ν)) (c : Col ι ν) (as : List ν)
    (hal : c.aliases = some as)
    (htag : ∀ d ∈ pre, d.tag ≠ c.tag) (hpre : ∀ d ∈ pre, d.bears norm k = false) :
    findCol norm k ((pre ++ c :: post).map fun x => if x.tag = c.tag then (Edit.append k).apply x else x)
      = some ((Edit.append k).apply c) := by
  have hmap : pre.map (fun x => if x.tag = c.tag then (Edit.append k).apply x else x) = pre := by
    conv => rhs; rw [← List.map_id pre]
    apply List.map_congr_left
    intro d hd
    simp [htag d hd]
  rw [List.map_append, List.map_cons, hmap]
  simp only [if_true]
  apply findCol_of_split _ _ _ _ _ _ hpre
  simp only [Col.bears, decide_eq_true_eq]
  apply List.mem_map_of_mem
  rw [mem_allNames]
  right
  exact ⟨as ++ [k], by simp [Edit.apply, Edit.onNA, Edit.onList, hal], by simp⟩

/-- **An alias taken away in place is gone at once**: after `c.aliases.remove(k)` (the alias stood once, the column is not
named `k`) the column no longer bears `k`, and bears every other key exactly as before. -/
theorem alias_removed_is_not_borne (k : ν) (c : Col ι ν) (as : List ν) (hal : c.aliases = some as) (hn : c.name ≠ k)
    (h1 : as.count k ≤ 1) :
    ((Edit.remove k).apply c).bears id k = false
    ∧ ∀ x, x ≠ k → (((Edit.remove k).apply c).bears id x = c.bears id x) := by
  have hk : k ∉ as.erase k := by
    rw [← List.count_eq_zero, List.count_erase_self]
    omega
  constructor
  · simp only [Col.bears, List.map_id, decide_eq_false_iff_not, id]
    rw [mem_allNames]
    simp only [Edit.apply, Edit.onNA, Edit.onList, hal, Option.map_some, Option.some.injEq, exists_eq_left']
    rintro (h | h)
    · exact hn h.symm
    · exact hk h
  · intro x hx
    simp only [Col.bears, List.map_id, id, decide_eq_decide]
    rw [mem_allNames, mem_allNames]
    simp only [Edit.apply, Edit.onNA, Edit.onList, hal, Option.map_some, Option.some.injEq, exists_eq_left']
    rw [List.mem_erase_of_ne hx]

/-- An edit changes what a column is called, never which columns a schema lists: every schema keeps its name, its
aliases and — position by position — the same column objects with the same identities. -/
theorem edit_moves_no_column (t : Nat) (e : Edit ν) (regs : List (Schema ι ν)) :
    (editRegs t e regs).map (fun s => (s.name, s.aliases, s.columns.map fun c => (c.tag, c.identity)))
      = regs.map (fun s => (s.name, s.aliases, s.columns.map fun c => (c.tag, c.identity))) := by
  simp only [editRegs, List.map_map]
  apply List.map_congr_left
  intro s _
  simp only [Function.comp_apply, List.map_map, Prod.mk.injEq, true_and]
  apply List.map_congr_left
  intro c _
  simp only [Function.comp_apply]
  split <;> rfl

/-- … and the sum does not care: editing a column object before the sum or after it gives the same sum (the sum is
identity-based; the column objects are shared, not copied). -/
theorem sum_commutes_with_edits (t : Nat) (e : Edit ν) (a b : Schema ι ν) :
    (union { a with columns := a.columns.map fun c => if c.tag = t then e.apply c else c }
           { b with columns := b.columns.map fun c => if c.tag = t then e.apply c else c }).columns
      = (union a b).columns.map fun c => if c.tag = t then e.apply c else c :=
  union_ignores_names (fun c => if c.tag = t then e.apply c else c) (by intro c; split <;> rfl) a b _ _ _ _

/-- **Every way of writing the sum is the one sum.**  `a += b` (and `operator.iadd`, a `total += part` fold,
`functools.reduce(operator.iadd, …)`) is evaluated by Python as `a = a.__iadd__(b)` when the class defines `__iadd__` and
as `a = a.__add__(b)` when it does not.  `Gen.SchemaOps.augmentedInPlace` — re-read from the class body on every run —
says whether an `__iadd__` exists that changes `self`; it does not, so on the heap of list objects the augmented sum *is*
the plain sum bound to a new name. -/
theorem augmented_sum_is_plain_sum (lower : ν → ν) (st : SchemaHeap.St ι ν) (i j : Nat) :
    SchemaHeap.haug Gen.SchemaOps.augmentedInPlace Gen.SchemaOps.addCopies lower st i j
      = SchemaHeap.hstep Gen.SchemaOps.addCopies lower st (.add i j) := by
  have h : Gen.SchemaOps.augmentedInPlace = false := by decide
  simp [SchemaHeap.haug, h]

/-- … hence it modifies neither operand: from a state without shared column lists, after `regs[i] += regs[j]` every
schema that existed holds what it held, the new one is `union a b`, and again no two schemas share a list. -/
theorem augmented_sum_modifies_neither_operand (lower : ν → ν) (st st' : SchemaHeap.St ι ν) (hwf : st.WF) (i j : Nat) (o : POut ι ν)
    (h : SchemaHeap.haug Gen.SchemaOps.augmentedInPlace Gen.SchemaOps.addCopies lower st i j = some (st', o)) :
    ∃ a b, st.abs[i]? = some a ∧ st.abs[j]? = some b ∧ st'.abs = st.abs ++ [union a b] ∧ o = .schema (union a b) ∧ st'.WF := by
  rw [augmented_sum_is_plain_sum] at h
  have hc : Gen.SchemaOps.addCopies = true := by decide
  rw [hc] at h
  obtain ⟨h1, h2⟩ := SchemaHeap.heap_refines_step lower st (.add i j) hwf
  rw [h] at h1
  simp only [Option.map_some, pstep] at h1
  cases ha : st.abs[i]? with
  | none => simp [ha] at h1
  | some a =>
    cases hb : st.abs[j]? with
    | none => simp [ha, hb] at h1
    | some b =>
      simp only [ha, hb, Option.some.injEq, Prod.mk.injEq] at h1
      exact ⟨a, b, rfl, rfl, h1.1, h1.2, h2 st' o h⟩

/-- The proved counterexample (what an `__iadd__` that appends to `self.columns` and returns `self` does): `a += b`
turns a one-column `a` into a two-column `a` for everybody who holds `a`. -/
theorem inplace_augmented_sum_modifies_left :
    ∃ (st : SchemaHeap.St Nat Nat) (st' : SchemaHeap.St Nat Nat) (o : POut Nat Nat),
      st.WF ∧ SchemaHeap.haug true true id st 0 1 = some (st', o)
      ∧ (st.abs[0]?.map (·.columns)) = some [⟨0, 10, 1, none⟩]
      ∧ (st'.abs[0]?.map (·.columns)) = some [⟨0, 10, 1, none⟩, ⟨1, 11, 2, none⟩] := by
  refine ⟨{ heap := [[⟨0, 10, 1, none⟩], [⟨1, 11, 2, none⟩]], regs := [⟨7, [], 0⟩, ⟨9, [], 1⟩] }, _, _, ?_, rfl, ?_, ?_⟩
  · constructor
    · intro s hs
      simp only [List.mem_cons, List.not_mem_nil, or_false] at hs
      rcases hs with rfl | rfl <;> decide
    · decide
  · decide
  · decide

end C17
