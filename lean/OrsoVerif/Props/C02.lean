import OrsoVerif.Lemmas.DictRow
import OrsoVerif.Lemmas.DictSession
import OrsoVerif.Lemmas.DictViews
import OrsoVerif.Lemmas.DictSchema
import OrsoVerif.Lemmas.DictJson
import OrsoVerif.Model.DictIter
import OrsoVerif.Model.DictClass
import OrsoVerif.Model.DictKinds
import OrsoVerif.Model.DictKeyed
/-!
# C02 — Dictionary records map onto rows by field name

Property theorems (and the small lemmas they need, all about the model in
`Model/DictRow.lean`).  A dictionary is a key-unique association list; `Keys d` are its keys.
-/
namespace C02
open DictRow DictSession DictViews Gen.DictCode
open DictSchema (proj specStep specRun Safe RouteFresh sameOut sameOuts codeCfg readVia Cfg St SpecSt specViews validates applyMut Mut Schema)

variable {α : Type}

/-- Each field's value sits at that field's position: cell `i` is the dictionary's value for
`fields[i]`, or null when the dictionary has no such key; the row is as wide as the field list. -/
theorem extract_get (null : α) (fields : List String) (d : List (String × α)) :
    (extract null fields d).length = fields.length
    ∧ ∀ i : Nat, (extract null fields d)[i]? = (fields[i]?).map fun f => (lookup f d).getD null := by
  refine ⟨by simp [extract], ?_⟩
  intro i; simp [extract]

/-- Key order does not matter: any permutation of the dictionary's items gives the same lookups,
hence the same row. -/
theorem extract_perm (null : α) (fields : List String) (d d' : List (String × α))
    (hn : (keys d).Nodup) (hp : d.Perm d') : extract null fields d = extract null fields d' := by
  have hn' : (keys d').Nodup := by
    unfold keys at hn ⊢
    exact (hp.map _).nodup_iff.mp hn
  have hl : ∀ f, lookup f d = lookup f d' := by
    intro f
    cases h : lookup f d' with
    | none =>
      by_cases hm : f ∈ keys d
      · obtain ⟨⟨k, v⟩, hkv, hk⟩ := List.mem_map.mp hm
        simp only at hk; subst hk
        have := lookup_mem k v d' hn' (hp.subset hkv)
        rw [this] at h; cases h
      · exact lookup_none_of_not_mem f d hm
    | some v =>
      have hmem : (f, v) ∈ d' := by
        clear hn hn' hp
        induction d' with
        | nil => simp [lookup] at h
        | cons p rest ih =>
          obtain ⟨k', v'⟩ := p
          by_cases hk : k' = f
          · simp only [lookup, hk, if_true, Option.some.injEq] at h
            subst hk; subst h; simp
          · simp only [lookup, hk, if_false] at h
            exact List.mem_cons_of_mem _ (ih h)
      exact lookup_mem f v d hn (hp.symm.subset hmem)
  simp [extract, hl]

/-- Keys that are not fields are ignored. -/
theorem extract_ignores_extra (null : α) (fields : List String) (d extra : List (String × α))
    (h : ∀ k ∈ keys extra, k ∉ fields) : extract null fields (d ++ extra) = extract null fields d := by
  apply List.map_congr_left
  intro f hf
  have : f ∉ keys extra := fun hk => h f hk hf
  rw [lookup_append_of_not_mem f d extra this]

/-- Absent fields are filled with null. -/
theorem extract_absent (null : α) (fields : List String) (d : List (String × α)) (i : Nat) (f : String)
    (hf : fields[i]? = some f) (ha : f ∉ keys d) : (extract null fields d)[i]? = some null := by
  rw [(extract_get null fields d).2 i, hf]
  simp [lookup_none_of_not_mem f d ha]

/-- A frame built from dictionaries takes its columns from the first dictionary and has exactly one
row per dictionary, each as wide as the column list. -/
theorem frame_rectangular (null : α) (ds : List (List (String × α))) (names : List String)
    (rows : List (List α)) (h : frameOfDicts null ds = some (names, rows)) :
    (∃ d rest, ds = d :: rest ∧ names = keys d)
    ∧ rows.length = ds.length
    ∧ (∀ r ∈ rows, r.length = names.length)
    ∧ ∀ (i : Nat) (d : List (String × α)), ds[i]? = some d → rows[i]? = some (extract null names d) := by
  cases ds with
  | nil => simp [frameOfDicts] at h
  | cons d rest =>
    simp only [frameOfDicts, Option.some.injEq, Prod.mk.injEq] at h
    obtain ⟨hn, hr⟩ := h
    subst hn; subst hr
    refine ⟨⟨d, rest, rfl, rfl⟩, by simp, ?_, ?_⟩
    · intro r hr
      obtain ⟨d', _, rfl⟩ := List.mem_map.mp hr
      simp [extract]
    · intro i d' hi
      have : (List.map (extract null (List.map (fun x => x.fst) d)) (d :: rest))[i]?
          = some (extract null (List.map (fun x => x.fst) d) d') := by
        rw [List.getElem?_map, hi]; rfl
      simpa using this

/-- Key order does not matter for a frame of dictionaries either: re-ordering the items of any
dictionary after the first leaves the frame unchanged (the first dictionary's order IS the column order). -/
theorem frame_perm (null : α) (d : List (String × α)) (rest rest' : List (List (String × α)))
    (hl : rest.length = rest'.length)
    (h : ∀ p ∈ rest.zip rest', (keys p.1).Nodup ∧ p.1.Perm p.2) :
    frameOfDicts null (d :: rest) = frameOfDicts null (d :: rest') := by
  simp only [frameOfDicts, List.map_cons]
  congr 3
  induction rest generalizing rest' with
  | nil =>
    cases rest' with
    | nil => rfl
    | cons _ _ => simp at hl
  | cons a as ih =>
    cases rest' with
    | nil => simp at hl
    | cons b bs =>
      have hab := h (a, b) (by simp)
      simp only [List.map_cons]
      rw [extract_perm null _ a b hab.1 hab.2, ih bs (by simpa using hl) (fun p hp => h p (by simp [hp]))]

/-- `append(dict)` adds exactly the extracted row at the end. -/
theorem append_row (null : α) (fields : List String) (rows : List (List α)) (d : List (String × α)) :
    append null fields rows d = rows ++ [extract null fields d]
    ∧ (append null fields rows d).length = rows.length + 1 := by
  simp [append]

/-- With duplicate-free field names the dictionary view is the pair view itself. -/
theorem asDict_eq_asMap (fields : List String) (row : List α) (hn : fields.Nodup) :
    asDict fields row = asMap fields row := by
  unfold asDict ofPairs
  have h := foldl_insert_fresh (asMap fields row) [] (by
    simp only [List.nil_append, asMap]
    exact hn.sublist (keys_zip_sublist fields row))
  simpa using h

/-- The pair, key and value views reproduce the field-to-value association positionally
(duplicates allowed): pair `i` is `(fields[i], row[i])`. -/
theorem asMap_get (fields : List String) (row : List α) (hl : row.length = fields.length) (i : Nat) :
    (asMap fields row)[i]? = (fields[i]?).bind fun f => (row[i]?).map fun v => (f, v) := by
  simp only [asMap]
  cases hf : fields[i]? with
  | none =>
    have : (fields.zip row)[i]? = none := by
      rw [List.getElem?_eq_none_iff] at hf ⊢
      simp only [List.length_zip]; omega
    simpa using this
  | some f =>
    have hi : i < fields.length := (List.getElem?_eq_some_iff.mp hf).1
    have hr : i < row.length := by omega
    have hv : row[i]? = some row[i] := List.getElem?_eq_getElem hr
    have : (fields.zip row)[i]? = some (f, row[i]) := by
      rw [List.getElem?_zip_eq_some]
      exact ⟨hf, hv⟩
    simp [this, hv]

/-- Looking a field up by name: for duplicate-free fields, `get` returns the row's value when the
field is present, the supplied default when it is absent, and always agrees with the dictionary
view. -/
theorem get_spec (fields : List String) (row : List α) (hn : fields.Nodup)
    (hl : row.length = fields.length) (f : String) (default : α) :
    get fields row f default = (lookup f (asDict fields row)).getD default
    ∧ (f ∉ fields → get fields row f default = default)
    ∧ (∀ i : Nat, fields[i]? = some f → some (get fields row f default) = row[i]?) := by
  have h1 : get fields row f default = (lookup f (asDict fields row)).getD default := by
    rw [asDict_eq_asMap fields row hn, asMap, lookup_zip]
    unfold DictRow.get
    cases indexOf fields f <;> rfl
  refine ⟨h1, ?_, ?_⟩
  · intro hf
    have : indexOf fields f = none := by
      clear hn hl h1
      induction fields with
      | nil => rfl
      | cons n ns ih =>
        simp only [List.mem_cons, not_or] at hf
        have hne : ¬ n = f := fun e => hf.1 e.symm
        simp [indexOf, hne, ih hf.2]
    simp [DictRow.get, this]
  · intro i hi
    have hidx : indexOf fields f = some i := by
      clear hl h1
      induction fields generalizing i with
      | nil => simp at hi
      | cons n ns ih =>
        simp only [List.nodup_cons] at hn
        cases i with
        | zero =>
          simp only [List.getElem?_cons_zero, Option.some.injEq] at hi
          simp [indexOf, hi]
        | succ i =>
          simp only [List.getElem?_cons_succ] at hi
          have hmem : f ∈ ns := List.mem_of_getElem? hi
          have hne : ¬ n = f := fun e => hn.1 (e ▸ hmem)
          simp [indexOf, hne, ih hn.2 i hi]
    have hlt : i < row.length := by
      have := (List.getElem?_eq_some_iff.mp hi).1; omega
    simp [DictRow.get, hidx, List.getElem?_eq_getElem hlt]

/-- Round trip: extracting the row's own dictionary view gives the row back (duplicate-free fields). -/
theorem extract_asDict_roundtrip (null : α) (fields : List String) (row : List α)
    (hn : fields.Nodup) (hl : row.length = fields.length) :
    extract null fields (asDict fields row) = row := by
  apply List.ext_getElem?
  intro i
  rw [(extract_get null fields _).2 i]
  cases hf : fields[i]? with
  | none =>
    have : row[i]? = none := by
      rw [List.getElem?_eq_none_iff] at hf ⊢; omega
    simp [this]
  | some f =>
    have h := (get_spec fields row hn hl f null).2.2 i hf
    have h1 := (get_spec fields row hn hl f null).1
    simp only [Option.map_some]
    rw [← h1, h]

/-! ## The code, statement by statement (Generated/DictCode.lean assembled in Model/DictRowCode.lean) -/

/-- Loop invariant of `extract_dict_columns` (statements from compiled.pyx): with `r` iterations left at
index `i`, a buffer holding the first `i` fields' values followed by nulls ends as the whole extracted row;
no read or write leaves the field tuple / the buffer. -/
theorem loopFrom_spec (null : α) (fields : List String) (d : List (String × α)) :
    ∀ (r i : Nat) (buf : List α), i + r = fields.length →
      buf = (fields.take i).map (fun f => (lookup f d).getD null) ++ List.replicate r null →
      loopFrom null fields d r i buf = some (fields.map fun f => (lookup f d).getD null) := by
  intro r
  induction r with
  | zero =>
    intro i buf hi hb
    have : i = fields.length := by omega
    subst this
    simp [loopFrom, hb]
  | succ r ih =>
    intro i buf hi hb
    have hlt : i < fields.length := by omega
    have hA : ((fields.take i).map (fun f => (lookup f d).getD null)).length = i := by
      simp only [List.length_map, List.length_take]; omega
    have hlen : buf.length = fields.length := by
      rw [hb, List.length_append, hA, List.length_replicate]; omega
    have hf : fields[i]? = some fields[i] := List.getElem?_eq_getElem hlt
    have hset : ∀ x, buf.set i x = (fields.take i).map (fun f => (lookup f d).getD null) ++ x :: List.replicate r null := by
      intro x
      rw [hb, List.set_append, hA, if_neg (Nat.lt_irrefl i), Nat.sub_self, List.replicate_succ, List.set_cons_zero]
    have hnext : ∀ x, x = (lookup fields[i] d).getD null →
        loopFrom null fields d r (i + 1) (buf.set i x) = some (fields.map fun f => (lookup f d).getD null) := by
      intro x hx
      apply ih (i + 1) _ (by omega)
      rw [hset x, List.take_succ_eq_append_getElem hlt, List.map_append, List.append_assoc, hx]
      rfl
    unfold loopFrom
    simp only [keyIndex, foundTest, thenStoreIndex, elseStoreIndex, thenStoresValue, elseStoresValue]
    simp only [Int.ofNat_eq_natCast, Int.toNat_natCast, hf]
    have h1 : ¬ ((i : Int) < 0) := by omega
    have h2 : ¬ ((i : Int) ≥ (buf.length : Int)) := by omega
    have h3 : ¬ ((buf.length : Int) ≤ (i : Int)) := by omega
    cases hv : lookup fields[i] d with
    | none => simpa [h1, h2, h3] using hnext null (by simp [hv])
    | some x => simpa [h1, h2, h3] using hnext x (by simp [hv])

/-- The loop of `extract_dict_columns`, as extracted from compiled.pyx, computes the specification:
per field the dictionary's value, null when absent (refinement of `extract`). -/
theorem extractLoop_eq_extract (null : α) (fields : List String) (d : List (String × α)) :
    extractLoop null fields d = some (extract null fields d) := by
  unfold extractLoop
  have h : ¬ (loopCount (Int.ofNat fields.length) < 0 ∨ bufferSize (Int.ofNat fields.length) < 0) := by
    simp only [loopCount, bufferSize, Int.ofNat_eq_natCast]; omega
  rw [if_neg h]
  simp only [loopCount, bufferSize, Int.ofNat_eq_natCast, Int.toNat_natCast]
  exact loopFrom_spec null fields d fields.length 0 _ (by omega) (by simp)

/-- `Row.__new__` on a dictionary for any class made with `tuples_only = False` (the form the session
invariant supplies): the extracted row. -/
theorem rowNew_false (null : α) (ofKey : String → α) (fields : List String) (d : List (String × α)) :
    rowNew null ofKey (createClass fields false) (.dict d) = some (extract null fields d) := by
  simp [rowNew, createClass, classHandlesDict, newGuardIsDict, newExtractorArgsInOrder, extractLoop_eq_extract]

/-- `append(dict)` on a frame whose factory was made with `tuples_only = False`. -/
theorem appendCode_false (null : α) (ofKey : String → α) (names : List String) (rows : List (List α))
    (d : List (String × α)) :
    appendCode null ofKey (createClass names false) rows d = some (rows ++ [extract null names d]) := by
  simp [appendCode, appendBuildsRowWithFactory, appendStoresNewRow, rowNew_false]

/-- `Row.__new__` on a dictionary, for a class made by `create_class(fields)` with the default
`tuples_only`: the extracted row. -/
theorem rowNew_dict (null : α) (ofKey : String → α) (fields : List String) (d : List (String × α)) :
    rowNew null ofKey (createClass fields tuplesOnlyDefault) (.dict d) = some (extract null fields d) := by
  rw [show tuplesOnlyDefault = false from rfl]
  exact rowNew_false null ofKey fields d

/-- The dictionary may be an instance of a subclass of `dict` (OrderedDict, defaultdict, Counter): `Row.__new__`
copies it into an exact dictionary before the compiled extractor (typed `dict data`) sees it, and `append` does
the same before the factory is called — the extracted row either way (C02-F03). -/
theorem rowNew_subclass (null : α) (ofKey : String → α) (fields : List String) (rows : List (List α))
    (d : List (String × α)) :
    rowNew null ofKey (createClass fields tuplesOnlyDefault) (.sub d) = some (extract null fields d)
    ∧ appendCodeSub null ofKey (createClass fields frameRowsTuplesOnly) rows d = some (append null fields rows d)
    ∧ appendCodeSub null ofKey (createClass fields frameDictsTuplesOnly) rows d = some (append null fields rows d) := by
  have h1 : rowNew null ofKey (createClass fields false) (.sub d) = some (extract null fields d) := by
    simp [rowNew, createClass, classHandlesDict, newGuardIsDict, newCopiesSubclass, newExtractorArgsInOrder,
      extractLoop_eq_extract]
  have h2 : appendCodeSub null ofKey (createClass fields false) rows d = some (append null fields rows d) := by
    unfold appendCodeSub
    simp only [appendBuildsRowWithFactory, appendStoresNewRow, and_self, not_true_eq_false, if_false]
    cases hc : appendCopiesSubclass with
    | true => simp [rowNew_false, append]
    | false => simp [h1, append]
  rw [show tuplesOnlyDefault = false from rfl, show frameRowsTuplesOnly = false from rfl,
    show frameDictsTuplesOnly = false from rfl]
  exact ⟨h1, h2, h2⟩

/-- Why the flag matters (the failure mode of a class whose `__new__` is `tuple.__new__`): called with
a dictionary it yields the dictionary's KEYS, which is not the extracted row. -/
theorem rowNew_tuplesOnly_keys (null : α) (ofKey : String → α) (fields : List String) (d : List (String × α)) :
    rowNew null ofKey (createClass fields true) (.dict d) = some (d.map fun p => ofKey p.1) := by
  simp [rowNew, createClass, classHandlesDict]

/-- `DataFrame(dictionaries)` as written (class from the first dictionary's keys, one list of `.get`
cells per dictionary, no filter, first dictionary included) is the specification `frameOfDicts`. -/
theorem frameOfDictsCode_eq (null : α) (ofKey : String → α) (ds : List (List (String × α))) :
    frameOfDictsCode null ofKey ds = frameOfDicts null ds := by
  cases ds with
  | nil => rfl
  | cons first rest =>
    simp only [frameOfDictsCode, frameSchemaIsFirstKeys, frameLookupKeysAreFirstKeys, frameCellIsGetWithNullDefault,
      frameSourceIncludesFirst, rowNew, and_self, not_true_eq_false, if_false, if_true]
    rw [List.filter_eq_self.mpr (by simp [frameRowKept]), mapM_some]
    rfl

/-- `append(dict)` as written, on a frame made from dictionaries or from rows: the specification `append`. -/
theorem appendCode_eq (null : α) (ofKey : String → α) (names : List String) (rows : List (List α))
    (d : List (String × α)) :
    appendCode null ofKey (createClass names frameDictsTuplesOnly) rows d = some (append null names rows d)
    ∧ appendCode null ofKey (createClass names frameRowsTuplesOnly) rows d = some (append null names rows d) := by
  rw [show frameDictsTuplesOnly = false from rfl, show frameRowsTuplesOnly = false from rfl]
  exact ⟨appendCode_false null ofKey names rows d, appendCode_false null ofKey names rows d⟩

/-- `Row.get` as written is the specification `get` (on a row as wide as its field list). -/
theorem getCode_eq (fields : List String) (row : List α) (hl : row.length = fields.length)
    (item : String) (default : α) :
    getCode fields row item default = some (get fields row item default) := by
  unfold getCode DictRow.get
  cases h : indexOf fields item with
  | none => simp [getAbsentReturnsDefault]
  | some i =>
    have hi := (indexOf_lt fields item i h).1
    have hr : i < row.length := by omega
    simp [getIndex, List.getElem?_eq_getElem hr]

/-- The views as written are the specification views; the object `as_json` serialises is the dictionary view. -/
theorem views_code_eq (fields : List String) (row : List α) :
    asMapExpr fields row = asMap fields row ∧ asDictExpr fields row = asDict fields row
    ∧ valuesExpr fields row = row ∧ keysExpr fields row = fields
    ∧ asJsonViewExpr fields row = asDict fields row := ⟨rfl, rfl, rfl, rfl, rfl⟩

/-- Key and value views: the pair view is the two zipped, and unzips to them (duplicates allowed). -/
theorem views_unzip (fields : List String) (row : List α) (hl : row.length = fields.length) :
    asMapExpr fields row = (keysExpr fields row).zip (valuesExpr fields row)
    ∧ (asMapExpr fields row).map Prod.fst = keysExpr fields row
    ∧ (asMapExpr fields row).map Prod.snd = valuesExpr fields row := by
  have hz : asMapExpr fields row = fields.zip row := (views_code_eq fields row).1
  have hk : keysExpr fields row = fields := (views_code_eq fields row).2.2.2.1
  have hv : valuesExpr fields row = row := (views_code_eq fields row).2.2.1
  rw [hz, hk, hv]
  refine ⟨rfl, ?_, ?_⟩
  · rw [List.map_fst_zip]; omega
  · rw [List.map_snd_zip]; omega

/-- The dictionary view for ANY field list (repeated names included): a dictionary (unique keys) holding
exactly the field names, each with the value at its LAST position. -/
theorem asDict_dup_spec (fields : List String) (row : List α) :
    (keys (asDict fields row)).Nodup
    ∧ (∀ f, lookup f (asDict fields row) = lookup f (asMap fields row).reverse)
    ∧ (row.length = fields.length → ∀ f, f ∈ keys (asDict fields row) ↔ f ∈ fields) := by
  refine ⟨?_, ?_, ?_⟩
  · exact nodup_keys_foldl_insert _ [] (by simp [keys])
  · intro f
    have := lookup_foldl_insert f (asMap fields row) []
    simpa [asDict, ofPairs, lookup] using this
  · intro hl f
    have h := mem_keys_foldl_insert f (asMap fields row) []
    have hk : keys (asMap fields row) = fields := by
      simp only [keys, asMap]
      rw [List.map_fst_zip]; omega
    have h0 : f ∉ keys ([] : List (String × α)) := by simp [keys]
    unfold asDict ofPairs
    rw [h, hk]
    exact ⟨fun x => x.elim id (fun y => absurd y h0), Or.inl⟩

/-- `get` for ANY field list: the value at the FIRST position of the name. -/
theorem get_dup_first (fields : List String) (row : List α) (f : String) (default : α) (i : Nat)
    (h : indexOf fields f = some i) :
    fields[i]? = some f ∧ (∀ j, j < i → fields[j]? ≠ some f) ∧ get fields row f default = (row[i]?).getD default := by
  obtain ⟨_, h2, h3⟩ := indexOf_lt fields f i h
  exact ⟨h2, h3, by simp [DictRow.get, h]⟩
/-! ## Sessions: several frames, any order of operations (Model/DictSession.lean) -/

/-- One operation under the invariant: the frame count, the invariant, and what happens to frame `k`. -/
theorem step_spec (null : α) (ofKey : String → α) (s : List (Frame α)) (hinv : Inv s) (op : Op α) :
    (step null ofKey s op).1.length = grows s.length op
    ∧ Inv (step null ofKey s op).1
    ∧ ∀ k f, s[k]? = some f → (step null ofKey s op).1[k]? = some (withDicts null f (dictOf k s.length op)) := by
  have hwd0 : ∀ f : Frame α, withDicts null f [] = f := by intro f; simp [withDicts]
  cases op with
  | ctx => exact ⟨rfl, hinv, fun k f h => by simpa [step, dictOf, hwd0] using h⟩
  | frame ds =>
    cases ds with
    | nil => exact ⟨rfl, hinv, fun k f h => by simpa [step, dictOf, hwd0] using h⟩
    | cons d0 rest =>
      have hc : frameOfDictsCode null ofKey (d0 :: rest) = some (d0.map (·.1), (d0 :: rest).map (extract null (d0.map (·.1)))) := by
        rw [frameOfDictsCode_eq]; rfl
      refine ⟨by simp [step, hc, grows], ?_, ?_⟩
      · intro f hf
        simp only [step, hc, List.mem_append, List.mem_singleton] at hf
        rcases hf with hf | hf
        · exact hinv f hf
        · subst hf; rfl
      · intro k f h
        have hk : k < s.length := (List.getElem?_eq_some_iff.mp h).1
        simp [step, hc, dictOf, hwd0, List.getElem?_append_left hk, h]
  | rows fields rows =>
    refine ⟨by simp [step, grows], ?_, ?_⟩
    · intro f hf
      simp only [step, List.mem_append, List.mem_singleton] at hf
      rcases hf with hf | hf
      · exact hinv f hf
      · subst hf; rfl
    · intro k f h
      have hk : k < s.length := (List.getElem?_eq_some_iff.mp h).1
      simp [step, dictOf, hwd0, List.getElem?_append_left hk, h]
  | append i d probes dflt =>
    cases ht : s[i % s.length]? with
    | none =>
      have h0 := (target_none_iff s i).mp ht
      refine ⟨by simp [step, ht, grows], by simpa [step, ht] using hinv, ?_⟩
      intro k f h
      have := (List.getElem?_eq_some_iff.mp h).1
      omega
    | some g =>
      have hg : g.tuplesOnly = false := hinv g (List.mem_of_getElem? ht)
      have hlt : i % s.length < s.length := (List.getElem?_eq_some_iff.mp ht).1
      have hn0 : s.length ≠ 0 := by omega
      have ha := appendCode_false null ofKey g.names g.rows d
      refine ⟨by simp [step, ht, hg, ha, grows], ?_, ?_⟩
      · intro f hf
        simp only [step, ht, hg, ha] at hf
        rcases List.mem_or_eq_of_mem_set hf with hf | hf
        · exact hinv f hf
        · subst hf; rfl
      · intro k f h
        simp only [step, ht, hg, ha, dictOf, List.getElem?_set]
        by_cases hk : i % s.length = k
        · subst hk
          rw [ht] at h; cases h
          simp [hn0, hlt, withDicts, hg]
        · simp [hk, h, hwd0, hn0]
  | row fields d probes dflt =>
    have hr : rowNew null ofKey (createClass fields tuplesOnlyDefault) (.dict d) = some (extract null fields d) :=
      rowNew_dict null ofKey fields d
    exact ⟨by simp [step, hr, grows], by simpa [step, hr] using hinv, fun k f h => by simpa [step, hr, dictOf, hwd0] using h⟩
  | reread i =>
    cases ht : s[i % s.length]? with
    | none => exact ⟨by simp [step, ht, grows], by simpa [step, ht] using hinv, fun k f h => by simpa [step, ht, dictOf, hwd0] using h⟩
    | some g => exact ⟨by simp [step, ht, grows], by simpa [step, ht] using hinv, fun k f h => by simpa [step, ht, dictOf, hwd0] using h⟩
  | derive i how =>
    cases ht : s[i % s.length]? with
    | none =>
      have h0 := (target_none_iff s i).mp ht
      exact ⟨by simp [step, grows, h0], by simpa [step, ht] using hinv, fun k f h => by simpa [step, ht, dictOf, hwd0] using h⟩
    | some g =>
      have hlt : i % s.length < s.length := (List.getElem?_eq_some_iff.mp ht).1
      have hn0 : s.length ≠ 0 := by omega
      refine ⟨by simp [step, ht, grows, hn0], ?_, ?_⟩
      · intro f hf
        simp only [step, ht, List.mem_append, List.mem_singleton] at hf
        rcases hf with hf | hf
        · exact hinv f hf
        · subst hf; rfl
      · intro k f h
        have hk : k < s.length := (List.getElem?_eq_some_iff.mp h).1
        simp [step, ht, dictOf, hwd0, List.getElem?_append_left hk, h]

/-- Any session, from any state whose factories handle dictionaries: the number of frames, the invariant,
and for every frame that existed at the start, exactly its rows followed by one extracted row per
dictionary appended to it, in order — whatever else was interleaved. -/
theorem run_history (null : α) (ofKey : String → α) (ops : List (Op α)) :
    ∀ s : List (Frame α), Inv s →
      (run null ofKey s ops).1.length = growsAll s.length ops
      ∧ Inv (run null ofKey s ops).1
      ∧ ∀ k f, s[k]? = some f →
          (run null ofKey s ops).1[k]? = some (withDicts null f (dictsTo k s.length ops)) := by
  induction ops with
  | nil =>
    intro s hinv
    exact ⟨rfl, hinv, fun k f h => by simpa [run, dictsTo, withDicts] using h⟩
  | cons op ops ih =>
    intro s hinv
    obtain ⟨h1, h2, h3⟩ := step_spec null ofKey s hinv op
    obtain ⟨i1, i2, i3⟩ := ih (step null ofKey s op).1 h2
    simp only [run]
    refine ⟨by rw [i1, h1]; rfl, i2, ?_⟩
    intro k f h
    rw [i3 k _ (h3 k f h), withDicts_append, h1]
    rfl

/-- Other features do not matter: a session with its `ctx` operations erased ends in the same frames. -/
theorem run_erase_ctx (null : α) (ofKey : String → α) (ops : List (Op α)) :
    ∀ s : List (Frame α),
      (run null ofKey s (ops.filter fun o => match o with | .ctx => false | _ => true)).1 = (run null ofKey s ops).1 := by
  induction ops with
  | nil => intro s; rfl
  | cons op ops ih =>
    intro s
    cases op <;> simp [run, step, ih]


/-- A frame made from dictionaries anywhere in a session, then any operations at all: it keeps the first
dictionary's columns and holds exactly one row per dictionary — those given to the constructor and those
appended to it since, in order — each the extracted row, each as wide as the column list. -/
theorem session_dict_frame (null : α) (ofKey : String → α) (s : List (Frame α)) (hinv : Inv s)
    (d0 : List (String × α)) (rest : List (List (String × α))) (ops : List (Op α)) :
    ∃ g, (run null ofKey s (.frame (d0 :: rest) :: ops)).1[s.length]? = some g
      ∧ g.names = keys d0
      ∧ g.rows = ((d0 :: rest) ++ dictsTo s.length (s.length + 1) ops).map (extract null (keys d0))
      ∧ g.rows.length = (d0 :: rest).length + (dictsTo s.length (s.length + 1) ops).length
      ∧ ∀ r ∈ g.rows, r.length = g.names.length := by
  have hc : frameOfDictsCode null ofKey (d0 :: rest) = some (d0.map (·.1), (d0 :: rest).map (extract null (d0.map (·.1)))) := by
    rw [frameOfDictsCode_eq]; rfl
  obtain ⟨h1, h2, _⟩ := step_spec null ofKey s hinv (.frame (d0 :: rest))
  have hs : (step null ofKey s (.frame (d0 :: rest))).1
      = s ++ [⟨keys d0, (d0 :: rest).map (extract null (keys d0)), false⟩] := by
    simp [step, hc, keys, show frameDictsTuplesOnly = false from rfl]
  obtain ⟨_, _, i3⟩ := run_history null ofKey ops _ h2
  have hget : (step null ofKey s (.frame (d0 :: rest))).1[s.length]?
      = some ⟨keys d0, (d0 :: rest).map (extract null (keys d0)), false⟩ := by
    rw [hs]; simp
  have := i3 s.length _ hget
  refine ⟨_, by simpa [run] using this, rfl, ?_, ?_, ?_⟩
  · rw [hs]; simp [withDicts]
  · rw [hs]; simp [withDicts]; omega
  · rw [hs]
    intro r hr
    have hm : r ∈ ((d0 :: rest) ++ dictsTo s.length (s.length + 1) ops).map (extract null (keys d0)) := by
      simpa [withDicts] using hr
    obtain ⟨d, _, hd⟩ := List.mem_map.mp hm
    subst hd; simp [extract, withDicts]

/-- What the operations report (this is what the correspondence compares): a free-standing row is the
extracted row with its views; an append reports the frame's rows with the extracted row added. -/
theorem step_outputs (null : α) (ofKey : String → α) (s : List (Frame α)) (hinv : Inv s) :
    (∀ fields d probes dflt,
      (step null ofKey s (.row fields d probes dflt)).2
        = .row ⟨extract null fields d, asMap fields (extract null fields d), asDict fields (extract null fields d),
                probes.map fun p => some (get fields (extract null fields d) p dflt)⟩)
    ∧ (∀ i d probes dflt f, s[i % s.length]? = some f →
      (step null ofKey s (.append i d probes dflt)).2
        = .appended (f.rows ++ [extract null f.names d])
            ⟨extract null f.names d, asMap f.names (extract null f.names d), asDict f.names (extract null f.names d),
             probes.map fun p => some (get f.names (extract null f.names d) p dflt)⟩) := by
  constructor
  · intro fields d probes dflt
    have hr : rowNew null ofKey (createClass fields tuplesOnlyDefault) (.dict d) = some (extract null fields d) :=
      rowNew_dict null ofKey fields d
    have hl : (extract null fields d).length = fields.length := by simp [extract]
    simp only [step, hr, viewsOf]
    congr 2
    exact List.map_congr_left fun p _ => getCode_eq fields _ hl p dflt
  · intro i d probes dflt f ht
    have hg : f.tuplesOnly = false := hinv f (List.mem_of_getElem? ht)
    have ha := appendCode_false null ofKey f.names f.rows d
    have hl : (extract null f.names d).length = f.names.length := by simp [extract]
    simp only [step, ht, hg, ha, viewsOf, List.getLast?_append, List.getLast?_singleton, Option.some_or, Option.getD_some]
    congr 2
    exact List.map_congr_left fun p _ => getCode_eq f.names _ hl p dflt

/-! ## The views as objects: what the caller is handed, and what it can do to it (Model/DictViews.lean) -/

/-- As the source defines them (decorators and return expressions of orso/row.py, `fields = tuple(…)` in
`create_class`), no view both keeps its object on the row (`@cached_property`) and hands out an object of a
kind the caller can change in place (a `dict`, a `list`); and the class's field tuple, which `keys()` hands
out, cannot be changed either. -/
theorem code_views_not_aliased :
    (∀ v, viewCached v = true → viewMutable v = false)
    ∧ (∀ v, viewAliasesFields v = true → fieldsMutable = false) := by
  constructor <;> intro v <;> cases v <;> decide

/-- The views of the source satisfy everything `Safe` asks: not aliased (above), not defined in terms of each
other, and every return expression evaluated on the views it reads is the view of the row. -/
theorem code_views_safe (fields : List String) (row : List α) : Safe (codeCfg : Cfg α) fields row where
  noAlias := code_views_not_aliased.1
  fieldsFixed := code_views_not_aliased.2
  acyclic := by
    intro v w
    show w ∈ viewDeps v → viewRank w < viewRank v
    cases v <;> cases w <;> decide
  bounded := by
    intro v
    show viewRank v < 5
    cases v <;> decide
  bodySpec := by intro v; cases v <;> rfl

/-- The views reproduce the association EVERY time they are asked.  On one row object, in any sequence of
reads of any of the views and of changes the caller makes in place to any object an earlier read handed it,
every read returns that view of the row: the pair view, the dictionary view, the values, the field names, and
(for `as_json`) the dictionary view as the object that is serialised. -/
theorem views_rebuilt (fields : List String) (row : List α) (acts : List (Act α)) :
    ∀ p ∈ runActs (codeCfg : Cfg α) ⟨fields, row, []⟩ acts, p.2 = some (spec fields row p.1) :=
  run_spec codeCfg fields row (code_views_safe fields row) acts _ ⟨rfl, rfl, by simp⟩

/-- non-vacuity of `views_rebuilt`: reads with caller changes in between, on the views of the source -/
example : runActs (codeCfg : Cfg Nat) ⟨["a", "b"], [1, 2], []⟩
      [.read .asDict, .change .asDict (fun _ => .pairs []), .read .asMap, .change .asMap (fun _ => .pairs []), .read .asJson, .read .asMap]
    = [(.asDict, some (.pairs [("a", 1), ("b", 2)])), (.asMap, some (.pairs [("a", 1), ("b", 2)])),
       (.asJson, some (.pairs [("a", 1), ("b", 2)])), (.asMap, some (.pairs [("a", 1), ("b", 2)]))] := by decide

/-- Why the first condition matters (the failure mode of a dictionary view made a `@cached_property`): under
ANY definition in which a view keeps its object on the row and that object can be changed, the second read
returns whatever the caller made of the first result — not the view of the row. -/
theorem cached_mutable_view_aliased (cfg : Cfg α) (v : View) (f : Content α → Content α) (o o1 : Obj α)
    (c : Content α) (hc : cfg.cached v = true) (hm : cfg.mutable v = true) (ha : cfg.aliasesFields v = false)
    (hs : slotOf v o.slots = none) (hr : readView cfg fuel v o = some (o1, c)) :
    runActs cfg o [.read v, .change v f, .read v] = [(v, some c), (v, some (f c))] := by
  have h1 : ∃ rest, o1.slots = (v, c) :: rest := by
    have : fuel = 4 + 1 := rfl
    rw [this] at hr
    unfold readView at hr
    simp only [hc, hs, if_true] at hr
    cases hd : readDeps (readView cfg 4) (cfg.deps v) (o, {}) with
    | none => simp [hd] at hr
    | some st =>
      obtain ⟨o', e⟩ := st
      simp only [hd, Option.some.injEq, Prod.mk.injEq] at hr
      obtain ⟨ho, hcc⟩ := hr
      subst ho; subst hcc
      exact ⟨o'.slots, rfl⟩
  obtain ⟨rest, hrest⟩ := h1
  have h2 : slotOf v (change cfg o1 v f).slots = some (f c) := by
    simp [change, hc, hm, ha, hrest, slotOf]
  have h3 : readView cfg fuel v (change cfg o1 v f) = some (change cfg o1 v f, f c) := by
    have : fuel = 4 + 1 := rfl
    rw [this]
    unfold readView
    simp [hc, h2]
  simp [runActs, hr, h3]

/-- a definition of the views like the source's, except that every view keeps its object and the
dictionary view's object can be changed (written out: does not depend on the generated definitions) -/
def aliasedCfg : Cfg Nat where
  cached := fun _ => true
  mutable := fun v => v == .asDict
  aliasesFields := fun _ => false
  fieldsMutable := false
  deps := fun v => match v with | .asDict => [.asMap] | .asJson => [.asDict] | _ => []
  rank := fun v => match v with | .asMap => 0 | .values => 1 | .keys => 2 | .asDict => 3 | .asJson => 4
  body := fun fields row e v =>
    match v with
    | .asMap => .pairs (asMap fields row)
    | .asDict => .pairs (ofPairs e.mapV)
    | .values => .vals row
    | .keys => .names fields
    | .asJson => .pairs e.dictV

/-- the hypotheses of `cached_mutable_view_aliased` are satisfiable, and `as_json` follows the changed dictionary -/
example : runActs aliasedCfg ⟨["a"], [1], []⟩
      [.read .asDict, .change .asDict (fun _ => .pairs []), .read .asDict, .read .asJson, .read .asMap]
    = [(.asDict, some (.pairs [("a", 1)])), (.asDict, some (.pairs [])), (.asJson, some (.pairs [])),
       (.asMap, some (.pairs [("a", 1)]))] := by decide

/-! ## The text of `as_json` (Model/DictJson.lean on C07's JSON model) -/

open Cast.Json in
/-- Clause "the JSON view reproduces exactly that field-to-value association", for the TEXT: what `as_json` returns —
`orjson.dumps` of the object the source hands it (`asJsonViewExpr`), members in the dictionary view's order, every
member name escaped like a string value — read back as JSON is the dictionary view: exactly the field names,
whatever characters they contain (quotes, backslashes, control characters, non-ASCII), each with its cell.  Cells:
`null`, booleans, integers in orjson's range, strings, nested arrays, floats under the rendering parameter's
assumption (`Cast.Json.Wf`); the writer and the reader are those of C07's JSON model, extended to objects. -/
theorem asJson_text_roundtrip (fot : List Char → Option UInt64) (rep : UInt64 → List Char)
    (fields : List String) (row : List J) (hw : ∀ v ∈ row, Wf fot rep v) :
    DictJson.readObj fot (DictJson.jsonText rep (asJsonViewExpr fields row))
      = .ok (DictJson.members (asDict fields row)) := by
  have hv : asJsonViewExpr fields row = asDict fields row := (views_code_eq fields row).2.2.2.2
  rw [hv]
  apply DictJson.readObj_renderObj
  intro p hp
  simp only [DictJson.members, List.mem_map] at hp
  obtain ⟨q, hq, rfl⟩ := hp
  exact hw _ (asDict_values_mem fields row q hq)

open Cast.Json in
/-- non-vacuity: a name with a quote, one with a line feed, a repeated name (its last cell), in the view's order -/
example : String.ofList (DictJson.jsonText (fun _ => []) (asJsonViewExpr ["a\"b", "n\nl", "a\"b"] [.int 1, .str "x\\y".toList, .arr [.null, .bool true]]))
    = "{\"a\\\"b\":[null,true],\"n\\nl\":\"x\\\\y\"}" := by decide

/-! ## Frames bound to a schema object that is edited between uses (Model/DictSchema.lean) -/

/-- As the source has them (orso/schema.py `column_names`, `__iter__`, `validate`; orso/row.py `create_class`;
orso/dataframe.py `append`), the routes the dictionary path takes to a schema's names are harmless: each reads the
column objects as they are now — directly, or by iterating a schema whose `__iter__` does, or through a
`column_names` that keeps nothing on the instance — and `append` re-makes the row factory when its fields are no
longer the schema's names. -/
theorem code_schema_safe : Safe codeCfg where
  classFresh := by
    first
      | exact Or.inl (by decide)
      | exact Or.inr (Or.inl ⟨by decide, by decide⟩)
      | exact Or.inr (Or.inr fun h => absurd h (by decide))
  validateFresh := by
    first
      | exact Or.inl (by decide)
      | exact Or.inr (Or.inl ⟨by decide, by decide⟩)
      | exact Or.inr (Or.inr fun h => absurd h (by decide))
  refreshFresh := by
    first
      | exact Or.inl (by decide)
      | exact Or.inr (Or.inl ⟨by decide, by decide⟩)
      | exact Or.inr (Or.inr fun h => absurd h (by decide))
  refreshes := by decide

/-- The views the code reports for an extracted row are the specification views of the record. -/
theorem viewsOf_extract (null : α) (names : List String) (d : List (String × α)) (probes : List String) (dflt : α) :
    viewsOf names (extract null names d) probes dflt = specViews null names d probes dflt := by
  have hl : (extract null names d).length = names.length := by simp [extract]
  have h4 : (probes.map fun p => getCode names (extract null names d) p dflt)
      = probes.map fun p => some (get names (extract null names d) p dflt) :=
    List.map_congr_left fun p _ => getCode_eq names _ hl p dflt
  obtain ⟨h1, h2, -⟩ := views_code_eq names (extract null names d)
  simp only [viewsOf, specViews, h1, h2, h4]

/-- One operation of a session over schema objects and frames bound to them, for ANY harmless way of getting at
the names: the code does what the specification machine does — every operation sees the schema's columns as they
are at that moment, whatever was read, kept or built before. -/
theorem bound_step_refines (cfg : Cfg) (h : Safe cfg) (null : α) (ofKey : String → α)
    (st : St α) (op : DictSchema.Op α) :
    proj (DictSchema.step cfg null ofKey st op).1 = (specStep null (proj st) op).1
    ∧ sameOut (DictSchema.step cfg null ofKey st op).2 (specStep null (proj st) op).2 := by
  cases op with
  | ctx => exact ⟨rfl, rfl⟩
  | schema cols => simp [DictSchema.step, specStep, proj, sameOut]
  | bound k rows =>
    cases hs : st.schemas[k % st.schemas.length]? with
    | none => simp [DictSchema.step, specStep, proj, hs, sameOut]
    | some s =>
      have r2 := readVia_cols cfg cfg.classVia s
      simp [DictSchema.step, specStep, proj, hs, map_cols_set _ _ _ _ hs r2, sameOut]
  | read k v =>
    cases hs : st.schemas[k % st.schemas.length]? with
    | none => simp [DictSchema.step, specStep, proj, hs, sameOut]
    | some s =>
      have r2 := readVia_cols cfg v s
      simp [DictSchema.step, specStep, proj, hs, map_cols_set _ _ _ _ hs r2, sameOut]
  | fread i v =>
    cases hf : st.frames[i % st.frames.length]? with
    | none => simp [DictSchema.step, specStep, proj, hf, sameOut]
    | some f =>
      cases hs : st.schemas[f.schema]? with
      | none => simp [DictSchema.step, specStep, proj, hf, hs, sameOut]
      | some s =>
        have r2 := readVia_cols cfg v s
        simp [DictSchema.step, specStep, proj, hf, hs, map_cols_set _ _ _ _ hs r2, sameOut]
  | mutate k m =>
    cases hs : st.schemas[k % st.schemas.length]? with
    | none => simp [DictSchema.step, specStep, proj, hs, sameOut]
    | some s => simp [DictSchema.step, specStep, proj, hs, List.map_set, sameOut]
  | append i d probes dflt =>
    cases hf : st.frames[i % st.frames.length]? with
    | none => simp [DictSchema.step, specStep, proj, hf, sameOut]
    | some f =>
      cases hs : st.schemas[f.schema]? with
      | none => simp [DictSchema.step, specStep, proj, hf, hs, sameOut]
      | some s =>
        have v1 := readVia_fresh cfg cfg.validateVia h.validateFresh s
        have v2 := readVia_cols cfg cfg.validateVia s
        by_cases hv : validates s.cols d = true
        · -- accepted: whatever the factory held, the row is laid out by the columns as they are now
          obtain ⟨c1, c2⟩ := refreshed_safe cfg h f.factory (readVia cfg cfg.validateVia s).2
          have ha : appendCode null ofKey (createClass s.cols frameRowsTuplesOnly) f.rows d
              = some (f.rows ++ [extract null s.cols d]) := by
            rw [show frameRowsTuplesOnly = false from rfl]; exact appendCode_false null ofKey s.cols f.rows d
          have hcc : (DictSchema.refreshed cfg f.factory (readVia cfg cfg.validateVia s).2).2.cols = s.cols := by rw [c2, v2]
          simp [DictSchema.step, specStep, proj, hf, hs, v1, hv, c1, v2, ha, map_cols_set _ _ _ _ hs hcc, List.map_set,
            viewsOf_extract, sameOut]
        · simp [DictSchema.step, specStep, proj, hf, hs, v1, hv, map_cols_set _ _ _ _ hs v2, sameOut]
  | rowclass k d probes dflt =>
    cases hs : st.schemas[k % st.schemas.length]? with
    | none => simp [DictSchema.step, specStep, proj, hs, sameOut]
    | some s =>
      have r1 := readVia_fresh cfg cfg.classVia h.classFresh s
      have r2 := readVia_cols cfg cfg.classVia s
      simp [DictSchema.step, specStep, proj, hs, map_cols_set _ _ _ _ hs r2, r1, rowNew_dict, viewsOf_extract, sameOut]
  | reread i =>
    cases hf : st.frames[i % st.frames.length]? with
    | none => simp [DictSchema.step, specStep, proj, hf, sameOut]
    | some f => simp [DictSchema.step, specStep, proj, hf, sameOut]
  | derive i how =>
    cases hf : st.frames[i % st.frames.length]? with
    | none => simp [DictSchema.step, specStep, proj, hf, sameOut]
    | some f =>
      cases hs : st.schemas[f.schema]? with
      | none => simp [DictSchema.step, specStep, proj, hf, hs, sameOut]
      | some s =>
        have r2 := readVia_cols cfg cfg.classVia s
        simp [DictSchema.step, specStep, proj, hf, hs, map_cols_set _ _ _ _ hs r2, sameOut]

/-- Whole sessions (any order of: make a schema, make a frame on it, read its names any way, rename / replace /
reorder / add / remove columns, append a dictionary, build a free-standing row, re-read, derive): outputs and
visible state are those of the specification machine (what a read of the names returns is not compared: it is not the
property's business). -/
theorem bound_run_refines (cfg : Cfg) (h : Safe cfg) (null : α) (ofKey : String → α) (ops : List (DictSchema.Op α)) :
    ∀ st : St α,
      proj (DictSchema.run cfg null ofKey st ops).1 = (specRun null (proj st) ops).1
      ∧ sameOuts (DictSchema.run cfg null ofKey st ops).2 (specRun null (proj st) ops).2 := by
  induction ops with
  | nil => intro st; exact ⟨rfl, trivial⟩
  | cons op ops ih =>
    intro st
    obtain ⟨h1, h2⟩ := bound_step_refines cfg h null ofKey st op
    obtain ⟨i1, i2⟩ := ih (DictSchema.step cfg null ofKey st op).1
    simp only [DictSchema.run, specRun]
    rw [← h1]
    exact ⟨i1, h2, i2⟩

/-- … and the routes of the working tree are harmless, so this holds of the code as it is. -/
theorem bound_sessions_spec (null : α) (ofKey : String → α) (ops : List (DictSchema.Op α)) (st : St α) :
    proj (DictSchema.run codeCfg null ofKey st ops).1 = (specRun null (proj st) ops).1
    ∧ sameOuts (DictSchema.run codeCfg null ofKey st ops).2 (specRun null (proj st) ops).2 :=
  bound_run_refines codeCfg code_schema_safe null ofKey ops st

/-- non-vacuity of `bound_sessions_spec`, on the routes of the working tree: a frame made before the rename, one made
after it, a record with the old names refused -/
example : (DictSchema.run codeCfg 0 (fun _ => 7) ⟨[], []⟩
      [.schema ["a", "b"], .bound 0 [], .append 0 [("b", 1), ("a", 2)] [] 0, .mutate 0 (.rename 0 "id"), .bound 0 [],
       .append 1 [("b", 3), ("id", 4)] ["id", "a"] 9, .append 0 [("id", 5), ("b", 6)] [] 0, .append 0 [("a", 5), ("b", 6)] [] 0,
       .reread 0]).2.drop 5
    = [.appended [[4, 3]] ⟨[4, 3], [("id", 4), ("b", 3)], [("id", 4), ("b", 3)], [some 4, some 9]⟩,
       .appended [[2, 1], [5, 6]] ⟨[5, 6], [("id", 5), ("b", 6)], [("id", 5), ("b", 6)], []⟩, .refused,
       .frame [[2, 1], [5, 6]]] := by decide

/-- Clause "by appending a dictionary … puts each field's value at that field's position" for a frame bound to a
schema object, after ANY history: a record the schema accepts is stored as the row extracted by the schema's
columns as they are when it is appended, and its views are those of that row under those names. -/
theorem bound_append_now (null : α) (ofKey : String → α) (st0 : St α) (ops : List (DictSchema.Op α))
    (i : Nat) (d : List (String × α)) (probes : List String) (dflt : α) (f : DictSchema.Frame α) (s : Schema)
    (hf : (DictSchema.run codeCfg null ofKey st0 ops).1.frames[i % (DictSchema.run codeCfg null ofKey st0 ops).1.frames.length]? = some f)
    (hs : (DictSchema.run codeCfg null ofKey st0 ops).1.schemas[f.schema]? = some s)
    (hv : validates s.cols d = true) :
    (DictSchema.step codeCfg null ofKey (DictSchema.run codeCfg null ofKey st0 ops).1 (.append i d probes dflt)).2
      = .appended (f.rows ++ [extract null s.cols d]) (specViews null s.cols d probes dflt)
    ∧ ∀ g, (DictSchema.step codeCfg null ofKey (DictSchema.run codeCfg null ofKey st0 ops).1 (.append i d probes dflt)).1.frames[
          i % (DictSchema.run codeCfg null ofKey st0 ops).1.frames.length]? = some g → g.rows = f.rows ++ [extract null s.cols d] := by
  obtain ⟨h1, h2⟩ := bound_step_refines codeCfg code_schema_safe null ofKey (DictSchema.run codeCfg null ofKey st0 ops).1 (.append i d probes dflt)
  generalize (DictSchema.run codeCfg null ofKey st0 ops).1 = st at *
  constructor
  · have hspec2 : (specStep null (proj st) (.append i d probes dflt)).2
        = .appended (f.rows ++ [extract null s.cols d]) (specViews null s.cols d probes dflt) := by
      simp [specStep, proj, hf, hs, hv]
    rw [hspec2] at h2
    cases hstep : (DictSchema.step codeCfg null ofKey st (.append i d probes dflt)).2 <;> rw [hstep] at h2 <;>
      first | exact h2 | cases h2
  · intro g hg
    have hlt : i % st.frames.length < st.frames.length := (List.getElem?_eq_some_iff.mp hf).1
    have hspec : (specStep null (proj st) (.append i d probes dflt)).1
        = ⟨(proj st).schemas, (proj st).frames.set (i % st.frames.length) (f.schema, f.rows ++ [extract null s.cols d])⟩ := by
      simp [specStep, proj, hf, hs, hv]
    rw [hspec] at h1
    have := congrArg (fun p => p.frames[i % st.frames.length]?) h1
    simp [proj, hg, hlt] at this
    exact this.2

/-- Why the first condition matters (the failure mode of a names list kept on the schema instance): under ANY
definition in which `column_names` keeps its list, `__iter__` goes through it, the row class takes its fields by
iterating the schema, and the kept list survives the edit `m` — the row made after the edit is laid out by the
names from BEFORE it. -/
theorem kept_names_stale (cfg : Cfg) (null : α) (ofKey : String → α) (c0 : List String) (m : Mut)
    (d : List (String × α)) (probes : List String) (dflt : α)
    (hk : cfg.namesKept = true) (hi : cfg.iterVia = .columnNames) (hc : cfg.classVia = .iter)
    (hv : cfg.keptValid c0 (applyMut m c0) = true) :
    (DictSchema.run cfg null ofKey ⟨[⟨c0, none⟩], []⟩ [.read 0 .columnNames, .mutate 0 m, .rowclass 0 d probes dflt]).2
      = [.names c0, .names (applyMut m c0), .row (specViews null c0 d probes dflt)] := by
  simp [DictSchema.run, DictSchema.step, readVia, DictSchema.columnNames, DictSchema.iterNames, hk, hi, hc, hv, rowNew_dict,
    viewsOf_extract]

/-- a way of keeping the names like the one the theorem speaks of: kept on the instance, handed out again while
the NUMBER of columns is the same (written out: does not depend on the generated definitions) -/
def lengthCfg : Cfg := ⟨true, fun k c => k.length == c.length, .columnNames, .iter, .columns, .columns, true, .columns⟩

example : (DictSchema.run lengthCfg 0 (fun _ => 7) ⟨[], []⟩
      [.schema ["a", "b"], .bound 0 [], .append 0 [("b", 1), ("a", 2)] [] 0, .mutate 0 (.rename 0 "id"), .bound 0 [],
       .append 1 [("b", 3), ("id", 4)] ["id", "a"] 9]).2.getLast?
    = some (.appended [[0, 3]] ⟨[0, 3], [("a", 0), ("b", 3)], [("a", 0), ("b", 3)], [some 9, some 0]⟩) := by decide

/-- Non-vacuity. -/
example : extract 0 ["b", "a", "z"] [("a", 1), ("b", 2), ("x", 9)] = [2, 1, 0] := by decide
example : frameOfDicts 0 [[("a", 1), ("b", 2)], [("b", 3)], [("c", 4), ("a", 5)]]
    = some (["a", "b"], [[1, 2], [0, 3], [5, 0]]) := by decide
example : asDict ["a", "b", "a"] [1, 2, 3] = [("a", 3), ("b", 2)] ∧ get ["a", "b", "a"] [1, 2, 3] "a" 0 = 1 := by decide

example : frameOfDicts 0 [[("a", 1), ("b", 2)], [("b", 3), ("a", 4)]] = frameOfDicts 0 [[("a", 1), ("b", 2)], [("a", 4), ("b", 3)]] := by decide
example : rowNew 0 (fun _ => 7) (createClass ["a", "b"] tuplesOnlyDefault) (.dict [("b", 1), ("x", 3)]) = some [0, 1]
    ∧ rowNew 0 (fun _ => 7) (createClass ["a", "b"] true) (.dict [("b", 1), ("x", 3)]) = some [7, 7] := by decide
example : ((run 0 (fun _ => 7) [] [.ctx, .frame [[("a", 1), ("b", 2)]], .append 0 [("b", 5), ("z", 9)] [] 0, .ctx,
      .rows ["b"] [[8]], .append 2 [("a", 4)] [] 0, .append 1 [("b", 6)] [] 0, .derive 0 (.slice (some 2))]).1.map (·.rows))
    = [[[1, 2], [0, 5], [4, 0]], [[8], [6]], [[1, 2], [0, 5]]] := by decide
example : dictsTo 0 1 ([.append 0 [("b", 5)] [] 0, .ctx, .rows ["b"] [], .append 2 [("a", 4)] [] 0, .append 1 [("b", 6)] [] 0] : List (Op Nat))
    = [[("b", 5)], [("a", 4)]] := by decide
example : Inv ([⟨["a"], [[1]], false⟩] : List (Frame Nat)) := by intro f hf; simp at hf; subst hf; rfl

/-! ### Round 5: how the constructor walks the caller's sequence, the size guard reached from `append`, row classes as objects -/

/-- Clause "exactly one row per dictionary … for all sequences of dictionaries given to the constructor": whatever
kind of object holds the sequence — a container, a one-shot iterator, a record reader whose iterations share one
cursor — the source expression of the working tree (`frameSourceSegs`) yields every record exactly once, in order. -/
theorem frame_source_each_once {δ : Type} (kind : DictIter.Kind) (items : List δ) (h : items ≠ []) :
    DictIter.consumed frameSourceSegs kind items = some items := by
  cases items with
  | nil => exact absurd rfl h
  | cons first rest =>
    cases kind <;>
      simp [DictIter.consumed, DictIter.consume, DictIter.drainSeg, frameSourceSegs]

/-- … hence `DataFrame(<any such object>)` as written is the specification `frameOfDicts` of the records. -/
theorem frameOfDictsIter_eq (null : α) (ofKey : String → α) (kind : DictIter.Kind)
    (items : List (List (String × α))) :
    DictIter.frameOfDictsIter null ofKey kind items = frameOfDicts null items := by
  cases items with
  | nil => rfl
  | cons first rest =>
    have hc := frame_source_each_once kind (first :: rest) (by simp)
    simp only [DictIter.frameOfDictsIter, hc]
    rw [← frameOfDictsCode_eq null ofKey (first :: rest)]
    simp only [DictIter.frameFrom, frameOfDictsCode, show frameSourceIncludesFirst = true from rfl, if_true]

/-- the failure mode: a source that walks a record reader a second time loses the first record -/
example : DictIter.consumed (fun selfIter => if selfIter then [.first, .rest] else [.again]) .reader [1, 2, 3] = some [2, 3] := by
  decide

/-- Clause "by appending a dictionary", at the size guard `append` reaches through `nbytes` → `as_bytes`: a record whose
packed values do not exceed the stated limit (16 MiB) passes the guard of the working tree (`recordRefused` with the
module's `MAXIMUM_RECORD_SIZE` / `HEADER_SIZE`) and `append` stores the specification row. -/
theorem append_within_limit_stored (null : α) (ofKey : String → α) (names : List String) (rows : List (List α))
    (d : List (String × α)) (packed : Nat) (h : packed ≤ 16 * 1024 * 1024) :
    recordRefused (Int.ofNat packed) = false
    ∧ DictIter.appendSized null ofKey (createClass names frameDictsTuplesOnly) rows d (Int.ofNat packed)
        = some (some (append null names rows d))
    ∧ DictIter.appendSized null ofKey (createClass names frameRowsTuplesOnly) rows d (Int.ofNat packed)
        = some (some (append null names rows d)) := by
  have hr : recordRefused (Int.ofNat packed) = false := by
    have h' : (Int.ofNat packed) ≤ 16 * 1024 * 1024 := by
      have : ((packed : Nat) : Int) ≤ ((16 * 1024 * 1024 : Nat) : Int) := Int.ofNat_le.mpr h
      simpa using this
    generalize Int.ofNat packed = n at h' ⊢
    set_option linter.unusedSimpArgs false in
    simp [recordRefused, maximumRecordSize, headerSize]
    omega
  obtain ⟨h1, h2⟩ := appendCode_eq null ofKey names rows d
  refine ⟨hr, ?_, ?_⟩ <;> (simp only [DictIter.appendSized, h1, h2, hr]; simp)


open DictClass in
/-- one step keeps the invariant when the refresh makes a new class -/
theorem class_step_inv (null : α) (st : DictClass.St α) (op : DictClass.Op α) (h : DictClass.Inv null st) :
    DictClass.Inv null (DictClass.step true null st op) := by
  obtain ⟨hf, hr⟩ := h
  cases op with
  | edit f => exact ⟨hf, hr⟩
  | append d =>
    simp only [DictClass.step, DictClass.refresh]
    by_cases he : st.heap.getD st.factory [] = st.names
    · simp only [he, if_true]
      refine ⟨hf, ?_⟩
      intro r hm
      rcases List.mem_append.mp hm with hm | hm
      · exact hr r hm
      · simp only [List.mem_singleton] at hm
        subst hm
        refine ⟨?_, rfl⟩
        simp only [List.getD_eq_getElem?_getD] at he
        rw [List.getElem?_eq_getElem hf] at he ⊢
        simpa using he
    · simp only [he, if_false, if_true]
      refine ⟨by simp, ?_⟩
      intro r hm
      rcases List.mem_append.mp hm with hm | hm
      · obtain ⟨h1, h2⟩ := hr r hm
        refine ⟨?_, h2⟩
        obtain ⟨hlt, _⟩ := List.getElem?_eq_some_iff.mp h1
        show (st.heap ++ [st.names])[r.cls]? = some r.built
        rw [List.getElem?_append_left hlt]
        exact h1
      · simp only [List.mem_singleton] at hm
        subst hm
        simp

/-- … over every sequence of edits of the schema object and appends -/
theorem class_run_inv (null : α) (ops : List (DictClass.Op α)) (st : DictClass.St α) (h : DictClass.Inv null st) :
    DictClass.Inv null (DictClass.run true null st ops) := by
  induction ops generalizing st with
  | nil => exact h
  | cons op ops ih => exact ih _ (class_step_inv null st op h)

/-- Clauses 9–13 for the rows built EARLIER: after any sequence of edits of the shared schema object and appends, every
row of the frame still reads off its class the names its schema had when it was built (`keys()`, and with them `get`,
`as_map`, `as_dict`, `as_json`), and holds the cells extracted by those names — because the refresh of the working tree
makes a new class (`appendRefreshMakesNewClass`) instead of writing onto the one the earlier rows are instances of. -/
theorem earlier_rows_keep_their_association (null : α) (names : List String) (ops : List (DictClass.Op α)) :
    ∀ r ∈ (DictClass.run Gen.SchemaCode.appendRefreshMakesNewClass null (DictClass.init names) ops).rows,
      DictClass.fieldsOf (DictClass.run Gen.SchemaCode.appendRefreshMakesNewClass null (DictClass.init names) ops) r = r.built
      ∧ r.cells = extract null r.built r.src
      ∧ asMapExpr (DictClass.fieldsOf (DictClass.run Gen.SchemaCode.appendRefreshMakesNewClass null (DictClass.init names) ops) r) r.cells
          = asMap r.built (extract null r.built r.src) := by
  rw [show Gen.SchemaCode.appendRefreshMakesNewClass = true from rfl]
  have hi : DictClass.Inv null (DictClass.init names : DictClass.St α) := ⟨by simp [DictClass.init], by simp [DictClass.init]⟩
  obtain ⟨_, hr⟩ := class_run_inv null ops _ hi
  intro r hm
  obtain ⟨h1, h2⟩ := hr r hm
  have hf : DictClass.fieldsOf (DictClass.run true null (DictClass.init names) ops) r = r.built := by
    simp [DictClass.fieldsOf, List.getD_eq_getElem?_getD, h1]
  refine ⟨hf, h2, ?_⟩
  rw [hf, h2, (views_code_eq r.built (extract null r.built r.src)).1]

/-- the failure mode: new names written onto the existing class relabel the row built before the edit -/
example :
    let st := DictClass.run false 0 (DictClass.init ["a", "b"])
      [.append [("a", 1), ("b", 2)], .edit (fun _ => ["b", "a"]), .append [("a", 3), ("b", 4)]]
    st.rows.map (fun r => (DictClass.fieldsOf st r, r.built, r.cells))
      = [(["b", "a"], ["a", "b"], [1, 2]), (["b", "a"], ["b", "a"], [4, 3])] := by decide

/-- Clause "building a row from a dictionary (directly … or by appending a dictionary)", **for every kind of object the
record is held in**: an exact `dict`, an instance of a subclass of `dict`, a mutable mapping that is not a dict (UserDict,
ChainMap, a `MutableMapping` class), a read-only mapping (MappingProxyType, a `Mapping` class).  With the statements of the
working tree (`newConvertsMapping` in `Row.__new__`; `appendCopiesKind`, `appendCopyOnNames`, `appendCopyOnBound` in
`DataFrame.append`) a class made by `create_class` lays every one of them out by field name, and `append` stores that row
on a names-only frame (built from dictionaries, `rows=`/`schema=[names]`, derived) for every kind, on a schema-bound frame
for every kind its validation takes (mutable mappings; validation itself is C03's). -/
theorem every_record_kind_by_field_name (null : α) (ofKey : String → α) (fields : List String) (rows : List (List α))
    (d : List (String × α)) (k : DictKinds.Kind) :
    DictKinds.rowNewKind null ofKey (createClass fields tuplesOnlyDefault) k d = some (extract null fields d)
    ∧ DictKinds.appendKind null ofKey .names (createClass fields frameDictsTuplesOnly) rows k d = some (append null fields rows d)
    ∧ DictKinds.appendKind null ofKey .names (createClass fields frameRowsTuplesOnly) rows k d = some (append null fields rows d)
    ∧ (k.isMutable = true →
        DictKinds.appendKind null ofKey .bound (createClass fields frameRowsTuplesOnly) rows k d = some (append null fields rows d)) := by
  have hs := (rowNew_subclass null ofKey fields rows d).1
  rw [show tuplesOnlyDefault = false from rfl] at hs
  have hd : rowNew null ofKey (createClass fields false) (.dict d) = some (extract null fields d) := rowNew_false null ofKey fields d
  have hh : (createClass fields false).handlesDict = true := by simp [createClass, classHandlesDict]
  rw [show tuplesOnlyDefault = false from rfl, show frameRowsTuplesOnly = false from rfl, show frameDictsTuplesOnly = false from rfl]
  set_option linter.unusedSimpArgs false in
  cases k <;>
    simp [DictKinds.rowNewKind, DictKinds.appendKind, DictKinds.appendKindWith, DictKinds.rowNewKindWith, DictKinds.newConv,
      DictKinds.appendCopies, DictKinds.appendCopyHere, DictKinds.Kind.isDict, DictKinds.Kind.isExact, DictKinds.Kind.isMutable,
      newConvertsMapping, appendCopiesKind, appendCopyOnNames, appendCopyOnBound, appendBuildsRowWithFactory, appendStoresNewRow,
      hs, hd, hh, append]

/-- The failure mode (why one of the two statements is needed): a mapping that is not a dict and reaches the row factory as
it is — no conversion in `Row.__new__`, no copy in `append` on this kind of frame — is iterated like a tuple: the row stored
is the mapping's KEYS, as wide as the mapping, whatever the field list. -/
theorem unconverted_mapping_gives_keys (null : α) (ofKey : String → α) (cls : RowClass) (rows : List (List α))
    (d : List (String × α)) (fk : DictKinds.FrameKind) (copies : DictKinds.Kind → Bool)
    (hb : appendBuildsRowWithFactory = true ∧ appendStoresNewRow = true) :
    DictKinds.appendKindWith copies (fun f => f != fk) (fun _ => false) null ofKey fk cls rows .mutableMapping d
      = some (rows ++ [d.map fun p => ofKey p.1]) := by
  simp [DictKinds.appendKindWith, DictKinds.rowNewKindWith, hb.1, hb.2]

example : DictKinds.appendKindWith (fun k => k.isMutable && !k.isDict) (fun f => f == .bound) (fun _ => false)
    (0 : Nat) String.length .names (createClass ["id", "name"] false) [] .mutableMapping [("name", 7), ("id", 5)]
    = some [[4, 2]] := by decide

/-- Clause "exactly one row per dictionary … puts each field's value at that field's position", for a lazy producer that
goes on using the record objects it has handed over (one buffer refilled for every record; records emptied once the next
is asked for): the constructor of the working tree builds the rows while it walks the iterable (`frameSourceStreams`), so
every record is read as it was WHEN it was handed over, and the frame is the specification frame of those records. -/
theorem records_read_when_handed_over {δ : Type} (steps : List (Nat × δ)) :
    DictKinds.readRecords frameSourceStreams steps = steps.map (·.2) := by
  simp [DictKinds.readRecords, frameSourceStreams]

/-- the failure mode: the iterable run to its end first — two records handed over in one refilled buffer are both read as
the last one -/
example : DictKinds.readRecords false [(0, "ada"), (0, "bob"), (1, "cy"), (0, "dee")] = ["dee", "dee", "cy", "dee"] := by decide


/-! ## Seventh pass: records whose keys are not plain text (Model/DictKeyed.lean on C10's `PyDict` keys) -/

section Keyed
open PyDictM DictKeyed

/-- a dictionary finds every one of its own items again under that item's key (keys pairwise different) -/
theorem lookupId_own {β : Type} : ∀ (l : List (PyKey × β)), (l.map fun kv => kv.1.id).Nodup →
    ∀ kv ∈ l, lookupId kv.1.id l = some kv.2
  | [], _, kv, h => by simp at h
  | (k, v) :: rest, hn, kv, h => by
    simp only [List.map_cons, List.nodup_cons] at hn
    rcases List.mem_cons.mp h with rfl | h'
    · simp [lookupId]
    · have hne : k.id ≠ kv.1.id := by
        intro e; apply hn.1; rw [e]; exact List.mem_map.mpr ⟨kv, h', rfl⟩
      simp only [lookupId, hne, if_false]
      exact lookupId_own rest hn.2 kv h'

/-- "a DataFrame built from dictionaries takes its columns from the first dictionary … puts each field's value at that
field's position", for keys of ANY kind (numbers, dates, tuples, str-Enum members, `str` subclasses with their own
`__str__` — whatever `str(key)` prints): position `i` of the row of record `d` is what `d` holds under the first
dictionary's `i`-th KEY, null when it holds nothing under it; the row is as wide as the column list.  Stated of the
lookup the source does (`frameLookupKeysAreFirstKeys`, regenerated from `DataFrame.__init__` on every run: `false` when
the record itself is handed to the row factory, which probes with the texts `str(key)`). -/
theorem frame_row_by_first_keys {β : Type} (null : β) (first d : List (PyKey × β)) :
    (frameCells null first d).length = (frameNames first).length
    ∧ ∀ i : Nat, (frameCells null first d)[i]? = (first[i]?).map fun kv => (lookupId kv.1.id d).getD null := by
  refine ⟨by simp [frameCells, frameNames], ?_⟩
  intro i
  simp [frameCells, frameCell, frameLookupKeysAreFirstKeys, getKey]

/-- the first dictionary's own row holds its values, in its order — whatever its keys are -/
theorem frame_first_row_keyed {β : Type} (null : β) (first : List (PyKey × β))
    (hn : (first.map fun kv => kv.1.id).Nodup) :
    frameCells null first first = first.map fun kv => kv.2 := by
  simp only [frameCells]
  apply List.map_congr_left
  intro kv h
  simp [frameCell, frameLookupKeysAreFirstKeys, getKey, lookupId_own first hn kv h]

/-- the lookup by text would lose the value of the key `1` (`str(1) = "1"` is no key of `{1: 7}`) and of a str-Enum
member (`Col.ID == "id"`, `str(Col.ID) = "Col.ID"`), while the lookup by key object keeps them -/
example : (getText 0 ⟨.other 1, false, false, "1"⟩ [(⟨.other 1, false, false, "1"⟩, 7)],
           getText 0 ⟨.text "id", false, true, "Col.ID"⟩ [(⟨.text "id", false, true, "Col.ID"⟩, 7)],
           frameCells 0 [((⟨.other 1, false, false, "1"⟩ : PyKey), 7), (⟨.text "id", false, true, "Col.ID"⟩, 8)]
             [((⟨.text "id", false, true, "Col.ID"⟩ : PyKey), 2), (⟨.other 1, false, false, "1"⟩, 1)])
    = (0, 0, [1, 2]) := by decide

/-! ## Seventh pass: the JSON view names the value the row holds — the fraction of a second -/

theorem val_digit : ∀ d : Nat, d < 10 → val (digit d) = some d := by
  intro d h
  have : d = 0 ∨ d = 1 ∨ d = 2 ∨ d = 3 ∨ d = 4 ∨ d = 5 ∨ d = 6 ∨ d = 7 ∨ d = 8 ∨ d = 9 := by omega
  rcases this with rfl | rfl | rfl | rfl | rfl | rfl | rfl | rfl | rfl | rfl <;> decide

/-- "the JSON view reproduces exactly that field-to-value association", for the microseconds of a date-time / time of
day: under the `option=` flags the `orjson.dumps` call of `as_json` has in the working tree (`asJsonOptions`, regenerated
on every run) the fraction written after the seconds reads back as exactly the value's microseconds, for every one of
the 10^6 values. -/
theorem asJson_fraction_roundtrip (us : Nat) (h : us < 1000000) :
    readFrac (frac asJsonOptions us) = some us := by
  have ho : asJsonOptions.contains "OPT_OMIT_MICROSECONDS" = false := by decide
  unfold frac
  rw [ho]
  by_cases h0 : us = 0
  · subst h0; simp [readFrac]
  · simp only [h0, Bool.false_eq_true, or_self, if_false]
    simp only [readFrac, six, List.length_cons, List.length_nil, digitsVal,
      val_digit _ (Nat.mod_lt _ (by decide : 10 > 0))]
    simp [padVal, List.foldl]
    omega

/-- no flag of the call is one that makes the text name another value (`OPT_OMIT_MICROSECONDS`, `OPT_NAIVE_UTC`) -/
theorem asJson_no_lossy_flag : ∀ o ∈ asJsonOptions, o ∉ lossyFlags := by decide

/-- with `OPT_OMIT_MICROSECONDS` the text of 23:59:59.999999 reads back as 23:59:59; and five digits for 071265
microseconds (what the installed orjson writes for a time of day, open finding C02-K01) read as 712650 -/
example : (readFrac (frac ["OPT_OMIT_MICROSECONDS"] 999999), readFrac (frac [] 999999), readFrac ".71265".toList, readFrac (frac [] 71265))
    = (some 0, some 999999, some 712650, some 71265) := by decide

end Keyed

end C02
