import OrsoVerif.Model.DictRow
/-!
# C02 — Dictionary records map onto rows by field name

Property theorems (and the small lemmas they need, all about the model in
`Model/DictRow.lean`).  A dictionary is a key-unique association list; `Keys d` are its keys.
-/
namespace C02
open DictRow

variable {α : Type}

def keys (d : List (String × α)) : List String := d.map (·.1)

/-- Each field's value sits at that field's position: cell `i` is the dictionary's value for
`fields[i]`, or null when the dictionary has no such key; the row is as wide as the field list. -/
theorem extract_get (null : α) (fields : List String) (d : List (String × α)) :
    (extract null fields d).length = fields.length
    ∧ ∀ i : Nat, (extract null fields d)[i]? = (fields[i]?).map fun f => (lookup f d).getD null := by
  refine ⟨by simp [extract], ?_⟩
  intro i; simp [extract]

theorem lookup_none_of_not_mem (k : String) (d : List (String × α)) (h : k ∉ keys d) :
    lookup k d = none := by
  induction d with
  | nil => rfl
  | cons p rest ih =>
    obtain ⟨k', v⟩ := p
    simp only [keys, List.map_cons, List.mem_cons, not_or] at h
    have hne : ¬ k' = k := fun e => h.1 e.symm
    simp only [lookup, hne, if_false]
    exact ih h.2

theorem lookup_mem (k : String) (v : α) (d : List (String × α)) (hn : (keys d).Nodup)
    (h : (k, v) ∈ d) : lookup k d = some v := by
  induction d with
  | nil => cases h
  | cons p rest ih =>
    obtain ⟨k', v'⟩ := p
    simp only [keys, List.map_cons, List.nodup_cons] at hn
    rcases List.mem_cons.mp h with h | h
    · cases h; simp [lookup]
    · have hk : k ∈ keys rest := List.mem_map.mpr ⟨(k, v), h, rfl⟩
      have hne : ¬ k' = k := fun e => hn.1 (e ▸ hk)
      simp only [lookup, hne, if_false]
      exact ih hn.2 h

/-- Key order does not matter: any permutation of the dictionary's items gives the same lookups,
hence the same row. -/
theorem extract_perm (null : α) (fields : List String) (d d' : List (String × α))
    (hn : (keys d).Nodup) (hp : d.Perm d') : extract null fields d = extract null fields d' := by
  have hn' : (keys d').Nodup := by
    unfold keys at hn ⊢
    exact (hp.map _).nodup_iff.mp hn
  have hl : ∀ f, lookup f d = lookup f d' := by
    intro f
    cases h : lookup f d' with
    | none =>
      by_cases hm : f ∈ keys d
      · obtain ⟨⟨k, v⟩, hkv, hk⟩ := List.mem_map.mp hm
        simp only at hk; subst hk
        have := lookup_mem k v d' hn' (hp.subset hkv)
        rw [this] at h; cases h
      · exact lookup_none_of_not_mem f d hm
    | some v =>
      have hmem : (f, v) ∈ d' := by
        clear hn hn' hp
        induction d' with
        | nil => simp [lookup] at h
        | cons p rest ih =>
          obtain ⟨k', v'⟩ := p
          by_cases hk : k' = f
          · simp only [lookup, hk, if_true, Option.some.injEq] at h
            subst hk; subst h; simp
          · simp only [lookup, hk, if_false] at h
            exact List.mem_cons_of_mem _ (ih h)
      exact lookup_mem f v d hn (hp.symm.subset hmem)
  simp [extract, hl]

theorem lookup_append_of_not_mem (k : String) (d extra : List (String × α)) (h : k ∉ keys extra) :
    lookup k (d ++ extra) = lookup k d := by
  induction d with
  | nil => simpa [lookup] using lookup_none_of_not_mem k extra h
  | cons p rest ih =>
    obtain ⟨k', v⟩ := p
    by_cases hk : k' = k
    · simp [lookup, hk]
    · simp [lookup, hk, ih]

/-- Keys that are not fields are ignored. -/
theorem extract_ignores_extra (null : α) (fields : List String) (d extra : List (String × α))
    (h : ∀ k ∈ keys extra, k ∉ fields) : extract null fields (d ++ extra) = extract null fields d := by
  apply List.map_congr_left
  intro f hf
  have : f ∉ keys extra := fun hk => h f hk hf
  rw [lookup_append_of_not_mem f d extra this]

/-- Absent fields are filled with null. -/
theorem extract_absent (null : α) (fields : List String) (d : List (String × α)) (i : Nat) (f : String)
    (hf : fields[i]? = some f) (ha : f ∉ keys d) : (extract null fields d)[i]? = some null := by
  rw [(extract_get null fields d).2 i, hf]
  simp [lookup_none_of_not_mem f d ha]

/-- A frame built from dictionaries takes its columns from the first dictionary and has exactly one
row per dictionary, each as wide as the column list. -/
theorem frame_rectangular (null : α) (ds : List (List (String × α))) (names : List String)
    (rows : List (List α)) (h : frameOfDicts null ds = some (names, rows)) :
    (∃ d rest, ds = d :: rest ∧ names = keys d)
    ∧ rows.length = ds.length
    ∧ (∀ r ∈ rows, r.length = names.length)
    ∧ ∀ (i : Nat) (d : List (String × α)), ds[i]? = some d → rows[i]? = some (extract null names d) := by
  cases ds with
  | nil => simp [frameOfDicts] at h
  | cons d rest =>
    simp only [frameOfDicts, Option.some.injEq, Prod.mk.injEq] at h
    obtain ⟨hn, hr⟩ := h
    subst hn; subst hr
    refine ⟨⟨d, rest, rfl, rfl⟩, by simp, ?_, ?_⟩
    · intro r hr
      obtain ⟨d', _, rfl⟩ := List.mem_map.mp hr
      simp [extract]
    · intro i d' hi
      have : (List.map (extract null (List.map (fun x => x.fst) d)) (d :: rest))[i]?
          = some (extract null (List.map (fun x => x.fst) d) d') := by
        rw [List.getElem?_map, hi]; rfl
      simpa using this

/-- `append(dict)` adds exactly the extracted row at the end. -/
theorem append_row (null : α) (fields : List String) (rows : List (List α)) (d : List (String × α)) :
    append null fields rows d = rows ++ [extract null fields d]
    ∧ (append null fields rows d).length = rows.length + 1 := by
  simp [append]

theorem insert_fresh (k : String) (v : α) (d : List (String × α)) (h : k ∉ keys d) :
    DictRow.insert k v d = d ++ [(k, v)] := by
  induction d with
  | nil => rfl
  | cons p rest ih =>
    obtain ⟨k', v'⟩ := p
    simp only [keys, List.map_cons, List.mem_cons, not_or] at h
    have hne : ¬ k' = k := fun e => h.1 e.symm
    simp only [DictRow.insert, hne, if_false, List.cons_append]
    rw [ih h.2]

theorem keys_zip_sublist (fields : List String) (row : List α) :
    (keys (fields.zip row)).Sublist fields := by
  induction fields generalizing row with
  | nil => simp [keys]
  | cons n ns ih =>
    cases row with
    | nil => simp [keys]
    | cons v vs =>
      simp only [keys, List.zip_cons_cons, List.map_cons]
      exact (ih vs).cons_cons n

theorem foldl_insert_fresh (m acc : List (String × α)) (hn : (keys (acc ++ m)).Nodup) :
    m.foldl (fun acc p => DictRow.insert p.1 p.2 acc) acc = acc ++ m := by
  induction m generalizing acc with
  | nil => simp
  | cons p rest ih =>
    obtain ⟨k, v⟩ := p
    have hk : k ∉ keys acc := by
      simp only [keys, List.map_append, List.map_cons] at hn
      have := (List.nodup_append.mp hn).2.2
      intro hmem
      exact this k hmem k (by simp) rfl
    simp only [List.foldl_cons]
    rw [insert_fresh k v acc hk, ih]
    · simp
    · simpa using hn

/-- With duplicate-free field names the dictionary view is the pair view itself. -/
theorem asDict_eq_asMap (fields : List String) (row : List α) (hn : fields.Nodup) :
    asDict fields row = asMap fields row := by
  unfold asDict ofPairs
  have h := foldl_insert_fresh (asMap fields row) [] (by
    simp only [List.nil_append, asMap]
    exact hn.sublist (keys_zip_sublist fields row))
  simpa using h

theorem lookup_zip (fields : List String) (row : List α) (f : String) :
    lookup f (fields.zip row) = (indexOf fields f).bind (fun i => row[i]?) := by
  induction fields generalizing row with
  | nil => simp [lookup, indexOf]
  | cons n ns ih =>
    cases row with
    | nil =>
      simp only [List.zip_nil_right, lookup, indexOf]
      by_cases h : n = f
      · simp [h]
      · simp only [h, if_false]
        cases indexOf ns f <;> simp
    | cons v vs =>
      by_cases h : n = f
      · simp [List.zip_cons_cons, lookup, indexOf, h]
      · simp only [List.zip_cons_cons, lookup, indexOf, h, if_false, ih vs]
        cases indexOf ns f <;> simp

/-- The pair, key and value views reproduce the field-to-value association positionally
(duplicates allowed): pair `i` is `(fields[i], row[i])`. -/
theorem asMap_get (fields : List String) (row : List α) (hl : row.length = fields.length) (i : Nat) :
    (asMap fields row)[i]? = (fields[i]?).bind fun f => (row[i]?).map fun v => (f, v) := by
  simp only [asMap]
  cases hf : fields[i]? with
  | none =>
    have : (fields.zip row)[i]? = none := by
      rw [List.getElem?_eq_none_iff] at hf ⊢
      simp only [List.length_zip]; omega
    simpa using this
  | some f =>
    have hi : i < fields.length := (List.getElem?_eq_some_iff.mp hf).1
    have hr : i < row.length := by omega
    have hv : row[i]? = some row[i] := List.getElem?_eq_getElem hr
    have : (fields.zip row)[i]? = some (f, row[i]) := by
      rw [List.getElem?_zip_eq_some]
      exact ⟨hf, hv⟩
    simp [this, hv]

/-- Looking a field up by name: for duplicate-free fields, `get` returns the row's value when the
field is present, the supplied default when it is absent, and always agrees with the dictionary
view. -/
theorem get_spec (fields : List String) (row : List α) (hn : fields.Nodup)
    (hl : row.length = fields.length) (f : String) (default : α) :
    get fields row f default = (lookup f (asDict fields row)).getD default
    ∧ (f ∉ fields → get fields row f default = default)
    ∧ (∀ i : Nat, fields[i]? = some f → some (get fields row f default) = row[i]?) := by
  have h1 : get fields row f default = (lookup f (asDict fields row)).getD default := by
    rw [asDict_eq_asMap fields row hn, asMap, lookup_zip]
    unfold DictRow.get
    cases indexOf fields f <;> rfl
  refine ⟨h1, ?_, ?_⟩
  · intro hf
    have : indexOf fields f = none := by
      clear hn hl h1
      induction fields with
      | nil => rfl
      | cons n ns ih =>
        simp only [List.mem_cons, not_or] at hf
        have hne : ¬ n = f := fun e => hf.1 e.symm
        simp [indexOf, hne, ih hf.2]
    simp [DictRow.get, this]
  · intro i hi
    have hidx : indexOf fields f = some i := by
      clear hl h1
      induction fields generalizing i with
      | nil => simp at hi
      | cons n ns ih =>
        simp only [List.nodup_cons] at hn
        cases i with
        | zero =>
          simp only [List.getElem?_cons_zero, Option.some.injEq] at hi
          simp [indexOf, hi]
        | succ i =>
          simp only [List.getElem?_cons_succ] at hi
          have hmem : f ∈ ns := List.mem_of_getElem? hi
          have hne : ¬ n = f := fun e => hn.1 (e ▸ hmem)
          simp [indexOf, hne, ih hn.2 i hi]
    have hlt : i < row.length := by
      have := (List.getElem?_eq_some_iff.mp hi).1; omega
    simp [DictRow.get, hidx, List.getElem?_eq_getElem hlt]

/-- Round trip: extracting the row's own dictionary view gives the row back (duplicate-free fields). -/
theorem extract_asDict_roundtrip (null : α) (fields : List String) (row : List α)
    (hn : fields.Nodup) (hl : row.length = fields.length) :
    extract null fields (asDict fields row) = row := by
  apply List.ext_getElem?
  intro i
  rw [(extract_get null fields _).2 i]
  cases hf : fields[i]? with
  | none =>
    have : row[i]? = none := by
      rw [List.getElem?_eq_none_iff] at hf ⊢; omega
    simp [this]
  | some f =>
    have h := (get_spec fields row hn hl f null).2.2 i hf
    have h1 := (get_spec fields row hn hl f null).1
    simp only [Option.map_some]
    rw [← h1, h]

/-- Non-vacuity. -/
example : extract 0 ["b", "a", "z"] [("a", 1), ("b", 2), ("x", 9)] = [2, 1, 0] := by decide
example : frameOfDicts 0 [[("a", 1), ("b", 2)], [("b", 3)], [("c", 4), ("a", 5)]]
    = some (["a", "b"], [[1, 2], [0, 3], [5, 0]]) := by decide
example : asDict ["a", "b", "a"] [1, 2, 3] = [("a", 3), ("b", 2)] ∧ get ["a", "b", "a"] [1, 2, 3] "a" 0 = 1 := by decide

end C02
